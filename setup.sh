#!/bin/sh
# offline setup: only verifies that the tools the checks need are present
set -e
for t in /usr/bin/z3 z3-new /usr/bin/cvc5 /venv/bin/python python3-vt; do
  command -v "$t" >/dev/null || { echo "missing $t"; exit 1; }
done
mkdir -p /verif/evidence /verif/replays
echo setup ok
