import sys, importlib, time
sys.path.insert(0, "/verif")
from pyvc.front import Program
from pyvc.spec import REG
from pyvc.verify import Exec
from pyvc.run import discharge
mods = sys.argv[1].split(",")
for m in mods:
    importlib.import_module("specs." + m)
only = [a for a in sys.argv[2:] if not a.startswith("-")]
only = only[0].split(",") if only else None
import os
for _f in os.environ.get("VERIF_FLAGS","").split(","):
    if _f: REG.flags[_f]=True
prog = Program()
ex = Exec(prog, REG)
results = []
for name, c in list(REG.contracts.items()):
    if c.trusted: continue
    if only and name not in only: continue
    r = ex.verify(c)
    results.append(r)
    print(f"{name}: paths={r.paths} exits={r.exit_kinds} obls={len(r.obligations)} unsupported={r.unsupported} gen={r.gen_seconds:.2f}s")
for name, lem in REG.lemma_obs.items():
    if only and ("lemma:"+name) not in only: continue
    r = ex.verify_lemma(lem); results.append(r)
    print(f"lemma:{name}: obls={len(r.obligations)} unsupported={r.unsupported}")
t = discharge(results, budget=30)
for r in results:
    for ob in r.obligations + r.covers:
        res = ob.result
        flag = {"unsat": "ok ", "sat": "SAT", "unknown": "???"}[res["result"]]
        if ob.kind == "cover":
            if res["result"] != "sat":
                print("  COVER-FAIL" if ob.clause == "requires-satisfiable" else "  dead-path", ob.func, ob.clause, res["result"])
            continue
        if res["result"] != "unsat" or "-v" in sys.argv:
            print(f"  {flag} {ob.coarse_id} [{res.get('solver')}, {res.get('seconds',0):.2f}s] {' '.join(ob.trace if '-t' in sys.argv else ob.trace[-6:])}")
            if res["result"] == "unknown": print("     tried:", res.get("tried"))
            if res["result"] == "sat" and "-m" in sys.argv:
                print("     ", res["raw"][:600])
print(f"solve wall {t:.1f}s")
