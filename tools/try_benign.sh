#!/bin/bash
# usage: tools/try_benign.sh <patch> <Cxx>...  -- a property-preserving change must leave every listed check at exit 0
D=$1; shift
for P in "$@"; do
  W=$(mktemp -d /tmp/benwt.XXXXXX); O=$(mktemp -d /tmp/benout.XXXXXX); rmdir $W
  git -C /repo worktree add --detach $W HEAD >/dev/null 2>&1
  ( cd $W && git apply "$D" ) || { echo "no apply"; git -C /repo worktree remove --force $W; continue; }
  ( cd /verif && VERIF_REPO=$W VERIF_OUT=$O ./check $P > $O/log 2>&1; RC=$?; echo "$(basename $D) $P exit=$RC $(grep -v '^KNOWN-FINDING' $O/log | tail -2 | cut -c1-300 | tr '\n' '|')" )
  git -C /repo worktree remove --force $W; rm -rf $O
done
