#!/bin/sh
# refresh obligations.lock for every registered property (ONLY on the clean reference tree) and print one line each
cd /verif || exit 1
if [ -n "$(git -C /repo status --porcelain)" ]; then echo "/repo is not clean"; exit 1; fi
for P in ${@:-C01 C02 C03 C04 C05 C06 C07 C08 C09 C10 C11 C12 C13 C14 C15 C16 C17 C18 C19 C20}; do
  ./check $P --write-lock 2>&1 | grep -v "^KNOWN-FINDING\|^lock written" | tail -1 | cut -c1-170
done
