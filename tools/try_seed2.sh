#!/bin/sh
# usage: tools/try_seed2.sh <Cxx> <abs patch.diff> [tail-lines]
# runs the check of one property against a scratch worktree of /repo with the patch applied; /repo itself and
# /verif/evidence, /verif/replays are left untouched (VERIF_REPO / VERIF_OUT), so several trials can run in parallel
set -u
P=$1; D=$2
W=$(mktemp -d /tmp/seedwt.XXXXXX); O=$(mktemp -d /tmp/seedout.XXXXXX)
rmdir $W
git -C /repo worktree add --detach $W HEAD >/dev/null 2>&1 || { echo "cannot create worktree"; exit 9; }
# carry over uncommitted changes of /repo (normally none)
( cd $W && git apply "$D" ) || { echo "patch does not apply"; git -C /repo worktree remove --force $W; exit 9; }
cd ${VERIF_SNAP:-/verif} && VERIF_REPO=$W VERIF_OUT=$O ./check "$P" 2>&1 | grep -v "^KNOWN-FINDING" | tail -${3:-8}
git -C /repo worktree remove --force $W; rm -rf $O
