#!/bin/bash
# usage: tools/run_seeds.sh <outdir> <parallel> <seed-id>...   -- runs each stored seed against the check of its property
O=$1; J=$2; shift 2
mkdir -p $O
printf "%s\n" "$@" | xargs -P $J -I{} sh -c 'P=$(echo {} | cut -d- -f1); /verif/tools/try_seed2.sh $P /verif/seeded/{}/patch.diff 12 > '$O'/{}.log 2>&1'
