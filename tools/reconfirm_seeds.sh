#!/bin/sh
# re-confirm every stored seed in a scratch worktree: demo passes clean, patched suite unchanged (run against the
# worktree's sources, not the editable install), demo fails patched.   usage: tools/reconfirm_seeds.sh [ids...]
W=/tmp/wt_reconfirm
git -C /repo worktree remove --force $W >/dev/null 2>&1
git -C /repo worktree add --detach $W HEAD >/dev/null 2>&1 || { echo "cannot create worktree"; exit 9; }
cd /verif/seeded || exit 9
for S in ${@:-$(ls)}; do
  [ -f $S/patch.diff ] || continue
  cp $S/patch.diff $W/seed_x.diff
  D=$(ls $S | grep -E '^demo' | head -1)
  cp $S/$D $W/demo_x.py
  R=$(/verif/tools/confirm_seed.sh $W x 2>&1 | tail -1)
  echo "$S: $R"
  rm -f $W/seed_x.diff $W/demo_x.py
done
git -C /repo worktree remove --force $W
