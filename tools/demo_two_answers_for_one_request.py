import logging, sys
import diameter
from diameter.message import Message, constants
from diameter.message.avp.grouped import ExperimentalResult, VendorSpecificApplicationId
from diameter.message.commands.update_location import UpdateLocationRequest
from diameter.node import Node
from diameter.node.application import SimpleThreadingApplication, Application
from diameter.node.peer import PeerConnection, PEER_RECV, PEER_READY
logging.basicConfig(level=logging.WARNING)
PEER_HOST = "mme.example.org"; REALM = "example.org"
class Hss(Application):
    def __init__(self):
        super().__init__(constants.APP_3GPP_S6A_S6D, is_auth_application=True)
    def handle_request(self, message):
        answer = self.generate_answer(message)
        answer.auth_session_state = constants.E_AUTH_SESSION_STATE_NO_STATE_MAINTAINED
        answer.experimental_result = ExperimentalResult(vendor_id=constants.VENDOR_TGPP, experimental_result_code=5001)
        self.send_answer(answer)
def make_ulr(hbh, e2e):
    ulr = UpdateLocationRequest()
    ulr.header.application_id = constants.APP_3GPP_S6A_S6D
    ulr.header.hop_by_hop_identifier = hbh; ulr.header.end_to_end_identifier = e2e
    ulr.session_id = f"{PEER_HOST};1;{e2e}"
    ulr.vendor_specific_application_id = VendorSpecificApplicationId(vendor_id=constants.VENDOR_TGPP, auth_application_id=constants.APP_3GPP_S6A_S6D)
    ulr.auth_session_state = constants.E_AUTH_SESSION_STATE_NO_STATE_MAINTAINED
    ulr.origin_host = PEER_HOST.encode(); ulr.origin_realm = REALM.encode(); ulr.destination_realm = REALM.encode()
    ulr.user_name = "001019999999999"; ulr.rat_type = 1004; ulr.ulr_flags = 3; ulr.visited_plmn_id = b"\x00\xf1\x10"
    return Message.from_bytes(ulr.as_bytes())
node = Node("hss.example.org", REALM)
peer = node.add_peer(f"aaa://{PEER_HOST}", REALM)
app = Hss(); node.add_application(app, [peer])
conn = PeerConnection("127.0.0.1", 3868, PEER_RECV, node.interrupt_write)
conn.ident = node._generate_connection_id(); conn.node_name = PEER_HOST; conn.host_identity = PEER_HOST
conn.origin_host = node.origin_host; conn.state = PEER_READY
node.connections[conn.ident] = conn; peer.connection = conn
sent = []
conn.add_out_msg = lambda m: sent.append(Message.from_bytes(m.as_bytes()))
node._receive_message(conn, make_ulr(0x102, 0x5002))
print(diameter.__file__)
for m in sent: print("ANSWER", hex(m.header.hop_by_hop_identifier), getattr(m,"result_code",None), getattr(m,"experimental_result",None) is not None)
import os; sys.stdout.flush(); os._exit(0 if len(sent)==1 else 1)
