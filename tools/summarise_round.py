#!/usr/bin/env python3
"""usage: tools/summarise_round.py <first-run dir> <later dir>... -- per seed: first-run and final outcome from the try_seed2 logs
(the LAST directory that has a complete log for a seed wins); writes the `result` field of seeded/<id>/meta.json"""
import sys, os, re, json, glob

def outcome(path):
    if not os.path.exists(path):
        return None
    t = open(path).read()
    m = re.search(r"(\d+) undecided, (\d+) violations", t)
    obl = re.findall(r"failed obligation: (\S+)", t)
    if "checker error" in t and not obl:
        return ("checker-error", [])
    if m is None and not obl:
        return None
    if obl:
        return ("violation", obl)
    if m and int(m.group(1)) > 0:
        return ("undecided", [])
    return ("missed", [])

first, later = sys.argv[1], sys.argv[2:]
FALSE_ALARM = "Node.add_peer::post:a-new-default-peer-is-routed-under-its-own-realm"
rows = []
for d in sorted(glob.glob("/verif/seeded/*")):
    sid = os.path.basename(d)
    f = outcome(os.path.join(first, sid + ".log"))
    if f is None:
        continue
    if f[0] == "violation":
        real = [o for o in f[1] if o != FALSE_ALARM]
        f = ("violation", real) if real else ("missed", [])
    fin = f
    for ld in later:
        o = outcome(os.path.join(ld, sid + ".log"))
        if o is not None:
            fin = o
    rows.append((sid, f, fin))
    mp = os.path.join(d, "meta.json")
    meta = json.load(open(mp))
    txt = {"violation": "caught", "undecided": "UNDECIDED (exit 2)", "missed": "MISSED", "checker-error": "CHECKER ERROR (exit 3)"}
    res = f"first run: {txt[f[0]]}" + (f" ({f[1][0]})" if f[1] else "")
    res += f"; now: {txt[fin[0]]}" + (f" by {fin[1][0]}" if fin[1] else "")
    if meta.get("note"):
        res += "; " + meta["note"]
    meta["result"] = res
    if fin[0] == "missed" and meta.get("expected") is None and meta.get("note"):
        meta["expected"] = "missed"
    json.dump(meta, open(mp, "w"), indent=1)
import collections
c1 = collections.Counter(r[1][0] for r in rows); c2 = collections.Counter(r[2][0] for r in rows)
print(len(rows), "seeds; first run:", dict(c1), "now:", dict(c2))
for sid, f, fin in rows:
    if fin[0] != "violation":
        print(" ", sid, f[0], "->", fin[0])
