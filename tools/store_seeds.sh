#!/bin/bash
# usage: tools/store_seeds.sh <Cxx> <worktree> <first index>  -- confirm seed_1..3 of a worktree and store the confirmed ones
P=$1; W=$2; N=$3
for i in 1 2 3; do
  [ -f $W/seed_$i.diff ] || continue
  R=$(/verif/tools/confirm_seed.sh $W $i 2>&1 | tail -1)
  echo "$P seed_$i: $R"
  case "$R" in CONFIRMED*) ;; *) continue;; esac
  D=/verif/seeded/$P-$N; mkdir -p $D
  cp $W/seed_$i.diff $D/patch.diff; cp $W/demo_$i.py $D/demo.py
  python3 - "$P" "$W/desc_$i.txt" "$D/meta.json" "$N" <<'PY'
import sys, json
P, desc, out, n = sys.argv[1:5]
d = open(desc).read().strip().split("\n")
json.dump({"property": P, "change": d[0], "needs_to_manifest": " ".join(d[1:]),
           "origin": "independent sub-agent (round 6) given only the property text, the list of earlier changes to avoid, and a scratch worktree",
           "confirmed": "tools/confirm_seed.sh (suite run against the worktree's sources via PYTHONPATH): demo passes on the clean tree; with the patch the suite is still 157 passed (+ the 1 baseline failure) and the demo fails",
           "ran": [f"tools/try_seed2.sh {P} seeded/{P}-{n}/patch.diff"], "result": "pending"}, open(out, "w"), indent=1)
PY
  N=$((N+1))
done
git -C /repo worktree remove --force $W
