#!/bin/sh
# usage: tools/try_seed.sh <Cxx> <patch.diff>   -- applies the patch to /repo, runs the check, reverts
set -u
P=$1; D=$2
cd /repo || exit 9
git apply --check "$D" || { echo "patch does not apply"; exit 9; }
git apply "$D"
cd /verif && ./check "$P" 2>&1 | grep -v "^KNOWN-FINDING" | tail -${3:-8}
echo "exit=$?"
cd /repo && git checkout -- . && git status --short | head -3
