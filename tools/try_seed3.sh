#!/bin/sh
# usage: tools/try_seed3.sh <Cxx> <abs patch.diff>   -- like try_seed2.sh, but also prints the reasons of undecided items from the evidence
P=$1; D=$2
W=$(mktemp -d /tmp/seedwt.XXXXXX); O=$(mktemp -d /tmp/seedout.XXXXXX); rmdir $W
git -C /repo worktree add --detach $W HEAD >/dev/null 2>&1 || { echo "cannot create worktree"; exit 9; }
( cd $W && git apply "$D" ) || { echo "patch does not apply"; git -C /repo worktree remove --force $W; exit 9; }
cd /verif && VERIF_REPO=$W VERIF_OUT=$O ./check "$P" 2>&1 | grep -v "^KNOWN-FINDING" | tail -4 | cut -c1-260
echo "exit=$?"
python3 -c "
import json,sys
try:
    e=json.load(open('$O/evidence/$P.json'))
    for u in e['coverage']['undecided'][:6]: print('  U', json.dumps(u)[:400])
except Exception as x: print('no evidence', x)
"
git -C /repo worktree remove --force $W; rm -rf $O
