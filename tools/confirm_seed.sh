#!/bin/sh
# usage: tools/confirm_seed.sh <worktree> <i>  -> prints CONFIRMED or the reason
W=$1; I=$2
cd "$W" || exit 9
git checkout -q -- src
PYTHONPATH=$W/src TZ=UTC timeout 120 /venv/bin/python demo_$I.py >/dev/null 2>&1 || { echo "demo fails on clean tree"; exit 1; }
git apply seed_$I.diff || { echo "no apply"; exit 1; }
# /venv has an editable install pointing at /repo/src: put the worktree's sources first, and check that they are used
WHERE=$(PYTHONPATH=$W/src /venv/bin/python -c "import diameter; print(diameter.__file__)")
case "$WHERE" in "$W"/src/*) ;; *) echo "tests would not import the worktree ($WHERE)"; git checkout -q -- src; exit 1;; esac
T=$(PYTHONPATH=$W/src /venv/bin/python -m pytest -q -p no:cacheprovider 2>&1 | tail -1)
PYTHONPATH=$W/src TZ=UTC timeout 120 /venv/bin/python demo_$I.py >/dev/null 2>&1; D=$?
git checkout -q -- src
case "$T" in *"157 passed"*) ;; *) echo "tests changed: $T"; exit 1;; esac
[ $D -ne 0 ] || { echo "demo passes with the patch"; exit 1; }
echo "CONFIRMED ($T; demo exit $D with patch, 0 without)"
