#!/usr/bin/env python3
"""Regenerates MANIFEST.json from props/__init__.py (claimed checks) and props/na.py (not applicable)."""
import json, sys, os
sys.path.insert(0, os.path.dirname(os.path.dirname(os.path.abspath(__file__))))
from props import PROPS
from props.na import NOT_APPLICABLE, NOTES

props = [json.loads(l) for l in open(os.path.join(os.path.dirname(__file__), "..", "properties.jsonl"))]
checks = []
for p in props:
    pid = p["id"]
    if pid not in PROPS:
        continue
    P = PROPS[pid]
    checks.append({
        "property_id": pid,
        "quick_cmd": f"./check {pid} --tier quick",
        "thorough_cmd": f"./check {pid} --tier thorough",
        "evidence_file": f"evidence/{pid}.json",
        "replay_cmd_template": "./check --replay {path}",
        "engine": "pyvc",
        "level_claimed": {"category": P.get("category", "proof"), "text": P["level_text"], "design_ref": P.get("design_ref", "DESIGN.md section 8")},
        "level_note": P["level_note"],
        "technique": P.get("technique", "contract-based deductive verification: VCs generated from the real Python AST, discharged by z3/cvc5"),
    })
na = [{"property_id": p["id"], "reason": NOT_APPLICABLE.get(p["id"], "check not built yet")}
      for p in props if p["id"] not in PROPS]
m = {
    "version": 1,
    "setup_cmd": "./setup.sh",
    "hooks": {"guard": "DIAMETER_VERIF",
              "enable": "no hooks are compiled in: contracts are sidecar files under /verif/specs and the verifier re-parses /repo/src on every run",
              "baseline_off_cmd": "cd /repo && /venv/bin/python -m pytest -q -p no:cacheprovider --timeout=900",
              "source_commits": [], "add_only": True},
    "engines": [{"name": "pyvc", "path": "pyvc/", "serves_properties": [c["property_id"] for c in checks],
                 "kind_free_text": "verification-condition generator over the real Python AST (symbolic execution per path, calls by contract, loop invariants, frame conditions, raises clauses) + SMT portfolio z3 4.8.12 / cvc5 1.0.3 / z3 5.1.0 + exhaustive ground obligations over the package's static tables + native replay of counterexamples"}],
    "checks": checks,
    "notes": NOTES,
    "not_applicable": na,
}
json.dump(m, open(os.path.join(os.path.dirname(__file__), "..", "MANIFEST.json"), "w"), indent=1)
print(f"{len(checks)} checks, {len(na)} not applicable")
