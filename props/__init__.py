"""Property table: which spec modules, ground obligations, replay harness and texts serve each property."""
from . import ground, replay, bounded

COMMON_ASSUME = [
    "S1 python int is a mathematical integer",
    "S2 values of declared builtin kinds have builtin behaviour (no user subclasses with overloaded operators)",
    "S3 closed-world class table: method/property resolution follows the classes found in /repo/src",
    "S4 evaluation order / exception propagation / finally / short-circuit as in the language reference",
    "S5 functions run to completion without interleaving (sequential contracts)",
    "S6 logging calls are effect-free and do not raise (dropped by the extraction); the value of an exception message is dropped, its argument expressions are evaluated for their outcomes where they are inside the subset",
    "S-bytes every bytes value is a sequence of integers in 0..255",
]

PROPS = {
    "C01": dict(
        specs=["packer", "avp", "avp_types", "avp_grouped"],
        ground=[ground.c01_dictionary, ground.c01_struct_layouts, ground.c01_structure],
        replay=replay.generic,
        trusted_base=["T-struct: struct.pack/unpack = abstract big-endian word codecs (cross-checked natively on every run)",
                      "T-float: IEEE-754 value semantics of struct 'f'/'d' (assumed)",
                      "T-sock: socket.inet_pton/inet_ntop are inverse bijections on valid input",
                      "T-utf8: bytes.decode/str.encode('utf8') inverse on valid input",
                      "T-time: process TZ=UTC, naive whole-second datetimes"],
        assumptions=COMMON_ASSUME,
        level_text="Deductive proof, for all inputs, of per-function contracts on the real packer and AVP code "
                   "(as_packed appends the RFC 6733 wire() spec function of the fields; from_unpacker is its inverse "
                   "decode relation; every typed getter/setter against the type's RFC layout with iff-raises clauses "
                   "for domain rejection; round-trip lemmas), plus exhaustive ground obligations over all dictionary "
                   "rows. Right level: the property quantifies over all values and all dictionary entries.",
        level_note="Trusted: pyvc VC generator and its builtin models; struct/socket/utf-8/datetime contracts "
                   "(T-struct cross-checked natively each run; T-float, T-sock, T-utf8, T-time assumed); SMT solvers on "
                   "unsat. Grouped nesting and Avp.new are covered by separate contracts; IEEE-754 value semantics are assumed.",
        explanation="Contracts on the real packer/AVP functions: encode = RFC 6733 wire() spec function, decode inverse, "
                    "per-type layouts incl. NTP era arithmetic taken from the RFC, domain rejection as iff-raises clauses; "
                    "dictionary rows exhaustively; word layout lemmas over concrete byte arithmetic.",
    ),
    "C02": dict(
        specs=["packer", "avp", "avp_types", "avp_grouped", "base"],
        ground=[ground.c02_registry, ground.c02_structure, ground.c01_struct_layouts],
        replay=replay.generic,
        trusted_base=["T-struct (cross-checked natively each run)"],
        assumptions=COMMON_ASSUME + [
            "behavioural contract Message.__post_init__/Message.__init__ is assumed for the typed command classes "
            "(their overrides are not verified against it here); the generic classes Message/UndefinedMessage are verified",
            "NOT DECIDED by this check: the AVP search for paths of more than one element (the recursive at_path equation of "
            "_traverse_avp_tree), find_avps with alt_list (shares the cache keys of the message's own searches) and after the AVP "
            "list was modified (stale cache) - both outside the property's quantifier; the AVP-sequence "
            "equality of Message.from_bytes (only header fields, termination, progress and raises are proved); "
            "re-encoding is proved per AVP (C01) and for the message frame (as_bytes#plain), not yet composed"],
        level_text="Deductive proof for all header values and buffers: MessageHeader.as_packed/from_bytes against the hdr_wire() "
                   "spec function incl. the decode(encode) lemma; Message.as_bytes (generic class) = hdr_wire(len := 20+|body|) ++ "
                   "wires(avps) with a loop invariant; Message.from_bytes yields the wire's header fields (flags included) for "
                   "every class, terminates (variant) and raises only decode errors; class dispatch and the registry are ground "
                   "obligations evaluated exhaustively on the real registry (every code x R bit). Message.find_avps (generic class, message searched itself): a single-element path returns exactly the matching AVPs in list order also when earlier searches filled the cache, and the cache stays consistent with the AVP list (cache key = the real join expression as an uninterpreted function, assumed injective).",
        level_note="Trusted: pyvc generator/builtin models, T-struct, SMT solvers. Assumed: behavioural __post_init__ contract for "
                   "typed classes. Not decided: AVP search for multi-element paths and AVP-sequence equality of the decoded list.",
        explanation="Header codec, message frame codec and decode loop under contract; registry/dispatch exhaustive.",
    ),
    "C04": dict(
        specs=["packer", "avp", "avp_types", "avp_grouped", "base", "node_model", "family", "c03"],
        ground=[ground.c01_struct_layouts, ground.c03_untyped_names, ground.c04_avp_name_writers],
        replay=replay.generic,
        trusted_base=["T-struct, T-sock, T-utf8, T-time raise conditions of the stdlib calls used by the getters"],
        assumptions=COMMON_ASSUME + [
            "wall-clock linearity is not decided: only loop variants (each decode loop consumes >= 8 bytes per iteration, so at "
            "most len/8 iterations per nesting level) are proved",
            "typed command classes: assign_attr_from_defs / __post_init__ are covered by the behavioural contract "
            "(raises only AvpDecodeError) which is assumed for the typed classes"],
        level_text="Deductive proof of raises clauses and termination on every decode entry point: each typed value getter raises "
                   "only AvpDecodeError for an ARBITRARY payload; Avp.from_bytes only AvpDecodeError; Message.from_bytes only "
                   "ConversionError/AvpDecodeError; Avp.__str__ and MessageHeader.__str__ raise nothing; decode loops have a "
                   "strictly decreasing variant len(buf)-pos and never read outside the supplied buffer (position invariant).",
        level_note="Trusted: exact raise conditions of struct/socket/bytes.decode/datetime (T-struct cross-checked). "
                   "Not decided: wall-clock time; hostile input to typed command classes beyond the behavioural contract.",
        explanation="raises/variant obligations on the real decode functions.",
    ),
    "C20": dict(
        specs=["packer", "avp", "avp_types", "avp_grouped", "base", "node_model", "c20"],
        ground=[ground.c20_pairing, ground.c02_structure],
        replay=replay.generic,
        trusted_base=[],
        assumptions=COMMON_ASSUME + [
            "region abstraction in Message.to_answer: the __mro__/__subclasses__ class lookup is replaced by an arbitrary "
            "command class (its result is decided by the ground obligations C20.pair[*])",
            "behavioural contract Message.__init__ for typed classes (assumed); the concrete effect of every typed "
            "__post_init__ on the header is covered by C20.pair[*] for all 256 flag octets"],
        level_text="Deductive proof that Message.to_answer returns a fresh message whose header mirrors version/app/hbh/e2e, keeps "
                   "only the P bit (R, E, T cleared) and modifies nothing of the request (frame); Node._generate_answer and "
                   "Application.generate_answer add Origin-Host/Realm from the node and copy Session-Id/Proxy-Info; class pairing "
                   "and command-code equality are ground obligations over every command class x all 256 flag octets.",
        level_note="Trusted: pyvc, SMT solvers. Ground rows are exhaustive evaluation on the real class hierarchy.",
        explanation="to_answer header contract + frame; pairing exhaustive.",
    ),
    "C16": dict(
        specs=["node_model", "helpers"],
        ground=[ground.c16_atomicity, ground.c16_format, ground.c16_e2e_seeded],
        replay=replay.generic, ground_replay=replay.c16_schedule,
        trusted_base=["with <Lock> is mutual exclusion; a single attribute load/store is atomic (S7)"],
        assumptions=COMMON_ASSUME + ["S7 GIL: single attribute loads/stores of immutable objects are atomic",
                                     "callers other than the generator methods do not write _sequence (AST-checked for the package)"],
        level_text="Deductive proof of the sequential generator contracts (successor function, never zero, wrap MAX->1, "
                   "start value carries time mod 2^12 in the high 12 bits) and of the closed-form/distinctness lemmas for ANY "
                   "number of draws below the counter space; atomicity obligation AT1 (read-modify-write under one lock) on the "
                   "AST, replayed as a concrete line schedule when it fails; session-id format at the counter boundaries; the "
                   "start-time field of a session generator is the hex of int(time.time()) read at creation "
                   "(SessionGenerator.__init__ contract over the virtual clock).",
        level_note="Interleavings are covered by lock discipline (Owicki-Gries restricted to lock-protected regions), not by "
                   "enumeration; S7 assumed.",
        explanation="sequential contracts + lemmas by SMT; AT1 structural; format ground.",
    ),
    "C05": dict(
        specs=["packer", "avp", "avp_types", "avp_grouped", "base", "node_model", "peer", "frames", "node", "c13", "c15"],
        ground=[ground.c15_queue_kinds],
        replay=replay.generic,
        trusted_base=["queue.Queue.get returns an arbitrary received chunk or times out (environment input)"],
        assumptions=COMMON_ASSUME + [
            "handler contract: the connection's message handler does not raise and does not touch the read buffer "
            "(C14 proves the former for Node._receive_message)",
            "the correspondence 'one inner-loop iteration = one unfolding of frames()' is established clause by clause by the "
            "step obligations (wait / consume-exactly-one-frame / deliver-the-frame / give-up-only-on-impossible-length); "
            "the composition with the spec-level chunking lemma is a two-line argument that is not itself machine-checked",
            "streams whose frames announce lengths >= 20 (well-formed); for lengths < 20 only progress and an explicit close are proved"],
        level_text="Deductive proof on the real work_read_queue: inner-loop variant (no input can make the reader spin without "
                   "consuming input), per-iteration step clauses (a frame longer than the buffer waits with the buffer unchanged; "
                   "a complete frame is consumed exactly, delivered at most once and what is delivered is the decode of exactly "
                   "that frame; an undecodable frame is skipped alone; the loop gives up - closing the connection - only for a "
                   "length field below 20), raises-nothing for the thread body, and the chunking-invariance and conservation "
                   "lemmas of the frames() spec function by explicit induction (cvc5/z3).",
        level_note="Any stream length, any chunking, any number of frames (no bound). Trusted: pyvc, SMT solvers, queue model; "
                   "assumed: handler contract.",
        explanation="loop variant + step clauses + frames() lemmas.",
    ),
    "C07": dict(
        specs=["packer", "avp", "avp_types", "avp_grouped", "base", "node_model", "peer", "helpers", "c20", "node", "c13", "c15", "c18", "c06"],
        ground=[ground.c15_lock_coverage, ground.c15_queue_kinds], replay=replay.generic,
        trusted_base=["queue model (ghost log g_put = every message ever queued on the connection)"],
        assumptions=COMMON_ASSUME + [
            "handlers are serialized (S5): interleavings between application threads and the read thread are not decided",
            "user request/answer handlers may raise anything but transmit nothing synchronously (behavioural contract of "
            "Application.receive_request / receive_answer); application answers are covered by C09",
            "Node.receive_cer / receive_cea are used through their contracts verified under C06 (their callee-side assumptions: class of a code-257 message, list attributes set, int vendor-specific ids, election branch only witnessed)",
            "assumed contracts: PeerStats.* bookkeeping, validate_message_avps frame"],
        level_text="Deductive proof, for every table state and every message, of the per-call contract of the connection "
                   "message handler Node._receive_message against the ghost log of queued messages: at most one message is "
                   "queued per call, only when the received message is a request, and it mirrors the request's command code, "
                   "application id, hop-by-hop and end-to-end identifiers with R cleared; nothing is queued on any other "
                   "connection (frame); the DWR/DPR handlers queue exactly one 2001 answer; send_message queues exactly once.",
        level_note="Sequential contracts (handlers serialized). Since round 6 send_message, _record_answer and send_answer are proved to raise nothing (a send that failed after queueing made the node answer the same request twice: defect fixed in 6d908c3). Assumed: user-handler contract (a handler that itself sends an answer and then raises is outside it), PeerStats bookkeeping.",
        explanation="ghost answer-log contracts on _receive_message, send_message and the base-protocol handlers.",
    ),
    "C17": dict(
        specs=["packer", "avp", "avp_types", "avp_grouped", "base", "node_model", "peer", "helpers", "c20", "node", "c13", "c06", "c08"],
        ground=[], replay=replay.generic,
        trusted_base=["collections.deque(maxlen=N).append model (drops the oldest element when full)"],
        assumptions=COMMON_ASSUME + [
            "pending hop-by-hop:end-to-end keys are distinct across connections (otherwise the origin table entry is overwritten)",
            "distinct origins own distinct deques (table invariant, instantiated for the keys involved)",
            "the clause 'requests without the flag or with unseen identifiers are never rejected AS DUPLICATES' is only decided "
            "structurally: the 5012-duplicate branch is taken exactly under dup_cond (path condition of the proved clause); a "
            "5012 caused by a failing handler is a different case (C08)"],
        level_text="Deductive proof that _record_answer/send_message maintain, for an arbitrary origin o, window[o]' = "
                   "push_maxlen(window[o], e2e) exactly when an answer to a request of o is sent (and leave every other window "
                   "untouched), i.e. window[o] = last-N of the answered history; and that _receive_message answers a request "
                   "with T set, known origin and e2e in window[origin] itself (5012, or 5005 if it also lacks required AVPs) "
                   "without delivering it to any application.",
        level_note="Any number of requests, any N (no bound). T-fmt: f-string keys are injective constructors.",
        explanation="window lemma through contracts with a universally quantified ghost origin.",
    ),
    "C08": dict(
        specs=["packer", "avp", "avp_types", "avp_grouped", "base", "node_model", "peer", "helpers", "c20", "node", "c08", "c13", "c06"],
        ground=[ground.c08_failed_avp], replay=replay.generic,
        trusted_base=[],
        assumptions=COMMON_ASSUME + [
            "handlers are serialized (S5)",
            "Inv_routes: every Application key of the route table is registered with this node (established by add_application); "
            "instantiated for the visited key",
            "table well-formedness (ground C03.T1): every avp_def row has a dictionary entry",
            "the route-table construction by add_peer/add_application (realm -> app -> peers, _default) is NOT under contract yet",
            "Node.receive_cer / receive_cea are used through their contracts verified under C06 (their callee-side assumptions: class of a code-257 message, list attributes set, int vendor-specific ids, election branch only witnessed)",
            "assumed contracts: user-handler contract, PeerStats.*"],
        level_text="Deductive proof of the request-dispatch case split on the real code: validate_message_avps returns exactly one "
                   "entry per required-and-unset row, in table order, naming its (code, vendor) (loop invariant over the class' "
                   "table); _receive_message answers 5005 itself and delivers nothing when that list is non-empty; "
                   "_receive_app_request answers 3007 without Destination-Realm, 3003 for a realm that is not in the route table, "
                   "hands the request exactly once to an application that is a key of that realm's routes with the request's "
                   "application id and the originating peer in its peer list, and answers 3007 only if no key matches (for an "
                   "arbitrary witness key); base-protocol commands never reach an application; a failing handler yields 5012. The dispatcher hands every message to the node while the connection is READY, READY_WAITING_DWA or DISCONNECTING (gate clause), and an application request the node answers itself carries 3003, 3007, 5005 or 5012 only.",
        level_note="Sequential contracts; universally quantified ghost witness for 'no other application'.",
        explanation="case postconditions of validate_message_avps, _receive_app_request and _receive_message.",
    ),
    "C11": dict(
        specs=["packer", "avp", "avp_types", "avp_grouped", "base", "node_model", "peer", "helpers", "c20", "family", "node"],
        ground=[], replay=replay.generic,
        trusted_base=["time.time() is a non-decreasing virtual clock (T-time)"],
        assumptions=COMMON_ASSUME + [
            "NOT DECIDED: that the I/O loop calls _check_timers every wakeup_interval (timing of the timer check)",
            "assumed contract: Node.close_connection_socket (ghost call counter + reason), assign_attr_from_defs",
            "state invariant used as precondition: state == READY_WAITING_DWA implies a DWR timestamp is set"],
        level_text="Deductive proof that Node._check_timers is the specified total decision function of (stopping flag, state, "
                   "virtual-clock readings, node timers, per-peer overrides with peer-over-node precedence): READY and idle longer "
                   "than the idle timeout => exactly one DWR queued, state READY_WAITING_DWA, DWR timestamp set; within the "
                   "idle timeout => nothing happens; READY_WAITING_DWA longer than the DWA timeout => closed with DWA_TIMEOUT and "
                   "never a second DWR; CONNECTED beyond the CER/CEA timeout => closed with FAILED_CONNECT_CE; DWA => READY and "
                   "timer cleared; DWR => exactly one 2001 DWA with the node's Origin-State-Id in either ready sub-state. Every chunk of received bytes restarts the idle timer (step clause of the read loop).",
        level_note="All timer values and clock readings (no horizon bound). Sequential contracts.",
        explanation="case postconditions over a virtual clock.",
    ),
    "C09": dict(
        specs=["packer", "avp", "avp_types", "avp_grouped", "base", "node_model", "peer", "helpers", "c20", "family", "node", "c13", "c06"],
        ground=[], replay=replay.generic,
        trusted_base=[],
        assumptions=COMMON_ASSUME + [
            "handlers are serialized (S5): interleavings between application threads and the read thread are not decided",
            "Inv_conn: at most one registered connection per host identity (instantiated for the connection found; see C13)",
            "known finding C09-equal-hbh-on-two-hosts: re-verified with its witness condition excluded on every run"],
        level_text="Deductive proof, with the requester's host identity h0 as a universally quantified ghost, that route_answer "
                   "returns a READY connection whose host identity is h0 (the requester's registered connection for an arbitrary "
                   "witness key), consumes the pending entry before returning (a second submission finds none), raises "
                   "NotRoutable only when no ready connection of h0 is registered, and that Application.send_answer queues the "
                   "answer exactly once on that connection and on NotRoutable queues nothing on any connection. A delivered request is recorded as pending under the host identity of the connection it arrived on and under no other host (_receive_app_request), and after a DPR the connection is DISCONNECTING whatever ready state it was in (receive_dpr).",
        level_note="Sequential contracts. The routing-to-the-requester clause holds only under the exclusion of the recorded "
                   "known finding (equal hop-by-hop ids pending on two hosts); the check re-proves it under that exclusion "
                   "and reports any other failure as a violation.",
        explanation="ghost-origin contract of route_answer / send_answer.",
    ),
    "C10": dict(
        specs=["packer", "avp", "avp_types", "avp_grouped", "base", "node_model", "peer", "helpers", "c20", "family", "node", "c13", "c08"],
        ground=[], replay=replay.generic,
        trusted_base=["threading.Event.wait as an environment step (other threads may deliver an answer meanwhile)"],
        assumptions=COMMON_ASSUME + [
            "NOT DECIDED: blocking/timeout behaviour across threads, arrival order of answers, and that no two in-flight "
            "requests of one application share a hop-by-hop id across connections (the waiter table is keyed by it alone)",
            "the peer selection callback returns one of the offered peers (behavioural contract)",
            "lemma filter-membership (x in [y for y in ys if c(y)] <=> x in ys and c(x)) is instantiated for the witnesses; it "
            "is the standard induction over the list and is assumed, not re-proved, here",
            "class invariant SequenceGenerator (proved under C16)"],
        level_text="Deductive proof that Node.route_request returns the connection of a peer q that is in the route list "
                   "configured for (application, destination realm) - the realm's default list when the application has none - "
                   "and whose connection is READY/READY_WAITING_DWA, q being the selection callback's choice among exactly the "
                   "eligible peers when several qualify; NotRoutable is raised only if an arbitrary witness peer is not eligible "
                   "(i.e. only when none is) and then nothing is modified (frame); the outgoing hop-by-hop id is non-zero and, "
                   "when assigned by the node, the generator's successor; the (hbh:e2e -> application) correlation is recorded; "
                   "_receive_app_answer hands an answer only to the recorded application; receive_answer gives it to the "
                   "registered waiter or else to this application's own unexpected-answer hook; send_request removes its "
                   "waiter on every exit. Inside send_request the waiter is registered before the request is handed to the node (call-site obligation on Node.send_message).",
        level_note="Sequential contracts with universally quantified witness peer; existential witness (chosen peer) named "
                   "from the function's own local at return.",
        explanation="eligibility postcondition of route_request + correlation contracts.",
    ),
    "C13": dict(
        specs=["packer", "avp", "avp_types", "avp_grouped", "base", "node_model", "peer", "helpers", "c20", "family", "node", "c13", "c19", "c06", "c15", "c18"],
        ground=[ground.c13_event_ownership], replay=replay.generic,
        trusted_base=["socket objects: close()/fileno()/setsockopt() models"],
        assumptions=COMMON_ASSUME + [
            "handlers are serialized (S5): cross-thread mutation of the tables is not decided",
            "NOT DECIDED: 'an application reports not ready once none of its configured peers has a connection' (a universal "
            "hypothesis over all configured peers; only the converse safety half - a ready configured peer keeps the flag - and "
            "the set-on-ready clause are proved)",
            "object invariant used by the readiness proofs: each Application owns its ready Event (ground obligation C13.own: "
            "is_ready is assigned once, in Application.__init__, to a new Event)",
            "receive_cer / receive_cea are verified under C06; _connect_to_peer (specs/c19.py) is also checked under C13"],
        level_text="Deductive proof of the table effects of every mutator for ALL table states: remove_peer_connection / "
                   "close_connection_socket leave the connection in none of connections, peer_sockets, socket_peers, "
                   "_half_ready_connections, drop its pending-answer table, close a registered socket and stop both workers, "
                   "clear the peer link only if it is this connection (a sibling connection keeps it), set disconnect time and "
                   "reason and keep an already-set reason; _add_peer_connection either registers the connection under a fresh "
                   "id in every table and links it to its peer or the half-ready table, or refuses it (node stopping / peer "
                   "already connected) closing socket and workers without touching any table; _assign_peer_connection links "
                   "a known peer, keeps an existing link and empties the half-ready entry. _flag_connection_as_ready sets the ready flag of every application one of whose configured peers holds the connection; remove_peer_connection leaves the flag of an application with a ready configured peer untouched; a dial that leaves no registered connection has closed its socket and stopped its workers, and a dialled connection that stays registered is linked to its peer.",
        level_note="Per-call contracts (the invariant is the conjunction of these effects); histories are covered by modularity, "
                   "not enumerated.",
        explanation="per-mutator table postconditions + frames.",
    ),
    "C12": dict(
        specs=["packer", "avp", "avp_types", "avp_grouped", "base", "node_model", "peer", "helpers", "c20", "family", "node", "c13", "c19", "c06", "c15", "c18"],
        ground=[], replay=replay.generic,
        trusted_base=["time.time() non-decreasing"],
        assumptions=COMMON_ASSUME + [
            "Node._connect_to_peer is verified (specs/c19.py): every call is a dial attempt (ghost log), a dialled connection that "
            "stays registered is linked to its peer (so the peer is not dialled again while the dial is in progress), a connected "
            "peer is not dialled; its socket-level outcomes (EINPROGRESS, refusal) are an environment contract; 'never two "
            "self-initiated connections' follows from these clauses plus _add_peer_connection's duplicate refusal (C13) by an "
            "argument over the history that is not mechanised; assumed invariant: self.peers is keyed by Peer.node_name"],
        level_text="Deductive proof that receive_dpr queues exactly one 2001 DPA, leaves the connection DISCONNECTING (hence "
                   "excluded by route_request/route_answer, C09/C10) and records DISCONNECT_REASON_DPR on the peer; that "
                   "remove_peer_connection keeps an already-set reason; and, by a per-iteration step contract on the real "
                   "_reconnect_peers loop over a virtual clock, that a peer is dialled in an iteration if and only if it is "
                   "persistent, has no connection, has been disconnected for at least its reconnect wait, and the loss did not "
                   "follow a DPR unless always_reconnect - and that nothing is dialled while the node is stopping.",
        level_note="Any number of peers and clock values.",
        explanation="step contract of the reconnect loop + DPR handler contract.",
    ),
    "C14": dict(
        specs=["packer", "avp", "avp_types", "avp_grouped", "base", "node_model", "peer", "helpers", "c20", "family", "node", "c13", "c14", "c15", "c06"],
        ground=[], replay=replay.generic,
        trusted_base=["queue / thread models: Queue.put/get raise only queue.Full / queue.Empty; Thread.start may raise RuntimeError"],
        assumptions=COMMON_ASSUME + [
            "NOT DECIDED: the I/O loop Node._handle_connections (error branches of recv/send/accept) and the clause 'a peer that "
            "connects afterwards is served exactly as on a fresh node' for arbitrary schedules - only the per-thread-target "
            "'raises nothing' contracts, the slot accounting and the table restoration of C13 are proved",
            "precondition-free abstractions of Application.send_answer / generate_answer (may raise anything)",
            "user handle_request may return an answer, return None or raise anything (behavioural contract)",
            "connection message handler = Node._receive_message (proved to raise nothing); os.write to the interrupt pipe "
            "does not raise while the node lives"],
        level_text="Deductive proof of `raises: nothing` for the thread targets PeerConnection.work_read_queue, "
                   "Node._receive_message (the handler it calls), ThreadingApplication._wait_for_recv_msg, _wait_for_resp_msg and "
                   "the per-request worker _process_recv_msg, with the user handler assumed to return anything or raise "
                   "anything and send_answer assumed to raise anything; plus slot accounting: the worker hands exactly one "
                   "item to the response queue on every path, the response consumer makes at most one slot release per item, "
                   "and a slot taken by the receive consumer goes to a started worker or is released. One iteration of the send branch of the I/O loop (slice of _handle_connections) raises nothing even for a socket without a registered connection, and a connection it closes without releasing the socket has signalled the node.",
        level_note="Per-thread sequential contracts; liveness and cross-thread schedules are not decided.",
        explanation="raises-nothing and slot-accounting contracts on the thread targets.",
    ),
    "C15": dict(
        specs=["packer", "avp", "avp_types", "avp_grouped", "base", "node_model", "peer", "helpers", "c20", "family", "node", "c13", "c15", "c18"],
        ground=[ground.c15_lock_coverage, ground.c15_soft_errors, ground.c15_queue_kinds], replay=replay.generic,
        trusted_base=["`with Lock` is mutual exclusion; a single attribute load/store is atomic (S7)",
                      "socket.send accepts a prefix of 0..len bytes of the buffer it is given, or fails (T-sock)",
                      "queue.Queue is FIFO (messages are dequeued in queueing order) - that the hand-over queues ARE "
                      "queue.Queue objects is a ground (AST) obligation, C15.struct.fifo"],
        assumptions=COMMON_ASSUME + [
            "interleavings are covered by lock discipline plus a rely condition, not enumerated: the I/O-loop slice is verified "
            "under the interference 'the write buffer may grow at its end whenever it is read without write_lock and whenever "
            "the lock is acquired' (what the writer thread does); the writer is verified with nothing removed by itself",
            "the slice `for wsock in ready_w` is extracted mechanically from the real AST of Node._handle_connections on every "
            "run (its `continue` statements end the slice); the rest of the I/O loop is not under contract",
            "NOT DECIDED: fairness/liveness of the writer; Message.as_bytes for typed classes is used through a behavioural "
            "contract (returns its encoding or raises)"],
        level_text="Deductive proof over ghost logs: with T = removed ++ write_buffer, (writer) each writer iteration appends to T "
                   "exactly the encoding of the one message it dequeued, or leaves T unchanged when encoding raises (the message "
                   "is dropped alone), and raises nothing; (I/O loop) one send-branch iteration hands the transport exactly the "
                   "bytes it removes from the front of the buffer - under arbitrary concurrent appends - and T only ever grows "
                   "at its end (soft failures change nothing); (lock discipline) every write of the buffer is under write_lock "
                   "and there is one I/O thread. Hence the transport log is always a prefix of the FIFO concatenation of the "
                   "encodings, each message contiguous and present once.",
        level_note="Any number of messages, any partial-write pattern, any interleaving respecting the lock (no bound).",
        explanation="conservation-law contracts with rely/guarantee interference + AST lock coverage.",
    ),
    "C18": dict(
        specs=["packer", "avp", "avp_types", "avp_grouped", "base", "node_model", "peer", "helpers", "c20", "family", "node", "c13", "c15", "c18"],
        ground=[], replay=replay.generic,
        trusted_base=["thread join / sleep are environment steps during which the I/O thread may close connections"],
        assumptions=COMMON_ASSUME + [
            "NOT DECIDED (liveness/timing): that the I/O thread finishes within the join timeout, hence 'when stop returns every "
            "peer socket is closed' and 'all worker threads terminate' - what IS proved is the step the I/O thread performs once "
            "it sees the stop flag (slice `if _thread.is_stopped:` of _handle_connections): every registered connection is "
            "closed and leaves the table and nothing escapes",
            "behavioural contract of Application.stop (ghost flag); ownership of sequence generators"],
        level_text="Deductive proof of the safety clauses of shutdown on the real code: stop(force=False) sends a DPR with cause "
                   "REBOOTING to exactly the connections that are READY/READY_WAITING_DWA and leaves them DISCONNECTING "
                   "(per-iteration step contract), a forced stop sends nothing, every listening socket is closed and every "
                   "application stopped when stop returns, a second stop / stop before start is refused without effect; a "
                   "connection arriving while stopping is refused and released without touching any table (C13 contract); no "
                   "watchdog is sent and nobody is dialled while stopping (_check_timers, _reconnect_peers); a DPA moves the "
                   "connection to CLOSING and the I/O-loop slices (send branch, interrupt-pipe branch) close a CLOSING connection "
                   "(clean disconnect) exactly when its write buffer is empty; the shutdown step of the I/O thread (slice of "
                   "_handle_connections) closes and releases every registered connection and raises nothing (a live dictionary "
                   "view whose key set changes during iteration is a RuntimeError outcome in the verifier); "
                   "ThreadingApplication.stop tells both consumer threads to stop and runs the base class' stop, which wakes "
                   "every blocked sender.",
        level_note="Safety only; termination and timing are not decided.",
        explanation="contracts of stop(), the stopping guards and the flush branch.",
    ),
    "C19": dict(
        specs=["packer", "avp", "avp_types", "avp_grouped", "base", "node_model", "peer", "helpers", "c20", "family", "node", "c13", "c15", "c19", "c06"],
        ground=[], replay=replay.generic,
        trusted_base=["socket / thread environment models; PeerConnection.__init__ starts two workers (assumed constructor contract)"],
        assumptions=COMMON_ASSUME + [
            "the quantitative N vs 10N comparison is a corollary of the per-call balance postconditions and is not executed",
            "NOT DECIDED: statistics windows (PeerStats)",
            "handlers are serialized (S5)"],
        level_text="Deductive proof of release postconditions on the real code: every answer sent releases the pending hop-by-hop "
                   "entry and the origin record of its request (send_message/_record_answer); route_answer consumes the pending "
                   "entry; a received answer releases its hop-by-hop:end-to-end correlation entry and creates no origin record; "
                   "send_request removes its waiter on every exit; remove_peer_connection/close_connection_socket remove the "
                   "connection from every table, drop its pending-answer table, close its socket and stop both workers; a "
                   "refused connection (node stopping / peer already connected) is closed and its workers stopped without any "
                   "table entry; a dial (_connect_to_peer) that leaves no registered connection has closed the socket it created "
                   "and stopped both workers of its connection object; the retransmission window is bounded by its maxlen.",
        level_note="Per-call balance contracts for all table states; counts over histories follow by induction on the history, "
                   "which is not mechanised.",
        explanation="release postconditions per function.",
    ),
    "C06": dict(
        specs=["packer", "avp", "avp_types", "avp_grouped", "base", "node_model", "peer", "helpers", "c20", "family", "node", "c13", "c15", "c18", "c19", "c06"],
        ground=[], replay=replay.generic,
        trusted_base=["time.time() non-decreasing"],
        assumptions=COMMON_ASSUME + [
            "receive_cer: when another connection with origin_host equal to the CER's host exists (RFC 6733 election), only "
            "'4003 => such a connection exists and this one is CLOSING' is stated; the 2001/5010 cases are stated for the "
            "no-rival situation (the election-won branch may close this very connection); the order of list(set) is unspecified",
            "Node.auth_application_ids / acct_application_ids (set comprehension over self.applications) are abstracted by an "
            "uninterpreted function of the application list and the id/flag fields; set(), &, list(set) use z3 array "
            "combinators (obligations with set algebra are discharged by the two z3 versions only)",
            "the values() view of self.connections is an arbitrary sequence of connections (membership not stated); "
            "[i[1] for i in message.host_ip_address] is a list of arbitrary strings of the same length",
            "NOT DECIDED: timing of the I/O loop; behaviour after a second CER on one connection (unspecified by the property)"],
        category="proof",
        level_text="Deductive proof of the gate and of the timeout/readiness guards on the real code: PeerConnection's dispatcher "
                   "hands a message to the node only if the connection is past CONNECTED or the message is a capabilities-"
                   "exchange message of the expected direction (CER on inbound, CEA on outbound connections), hands nothing on "
                   "while CONNECTING/CLOSING/CLOSED, and at most once; an outbound connection queues exactly one CER with fresh "
                   "non-zero identifiers (send_cer); a CONNECTED connection whose last read is older than the CER/CEA timeout "
                   "(per-peer value over node value) is closed with FAILED_CONNECT_CE and left alone otherwise (_check_timers); "
                   "route_request/route_answer return only READY/READY_WAITING_DWA connections (C09/C10 contracts). "
                   "Outcome cases on the real receive_cer / receive_cea for all messages and table states: exactly one CEA that "
                   "mirrors the CER and carries the node's origin host/realm, addresses, vendor id, product name, supported "
                   "vendors and auth/acct application ids; 3010 and CLOSING exactly when the origin host is not a configured "
                   "peer; for a known peer without rival connection 5010 with unchanged state when no application is shared and "
                   "it is no relay, else 2001, READY, host_identity set and exactly the shared ids recorded; READY is entered "
                   "only with 2001; an inbound CEA other than 2001 closes the connection with reason CER_REJECTED and leaves "
                   "it in no table, a 2001 CEA makes it READY with the shared ids.",
        level_note="Per-call contracts; the election branch of receive_cer is only witnessed (see assumptions).",
        explanation="gate contract with a ghost log of handler invocations; timer and routing guards; outcome-case contracts "
                    "of receive_cer/receive_cea over a set model (characteristic arrays) with a fold lemma for vendor-specific ids.",
    ),
    "C03": dict(
        specs=["packer", "avp", "avp_types", "avp_grouped", "base", "node_model", "family", "node", "c08", "c03"],
        ground=[ground.c03_tables, ground.c01_dictionary, ground.c03_untyped_names, ground.c04_avp_name_writers],
        replay=replay.generic, category="proof",
        trusted_base=["the rows are evaluated on the imported real modules (exhaustive enumeration of a finite table)",
                      "T-fmt: plain f-strings (the row key f'{code}-{vendor}') are injective in their pieces"],
        assumptions=COMMON_ASSUME + [
            "NOT MECHANISED: the composition of the three proved parts - (a) generate_avps_from_defs emits, per row, AVPs that "
            "carry the row's code/vendor/M bit with the attribute's value handed to the typed setter, (b) the C01 codecs are "
            "inverse per type, (c) assign_attr_from_defs stores, per AVP, the decoded value under the attribute of the row that "
            "declares the AVP's code and vendor (list attributes in wire order, undeclared AVPs appended unchanged) - into the "
            "whole-message statement 'decode restores every set attribute and encode-decode-encode = encode' is an induction "
            "over the AVP list that is argued in DESIGN.md, not discharged; the BOUNDED stand-in (props/bounded.py: every "
            "concrete command class x every row with one type-directed value, lists of 2, nesting <= 3, one undeclared vendor "
            "AVP, one untyped command with repeated AVPs) exercises exactly that composition on the real modules and is "
            "reported under coverage.bounded, never counted as discharged obligations",
            "ASSUMED: container classes (AvpGenDef.type_class) are dataclasses whose constructor takes no argument, raises "
            "nothing and builds its default lists itself; setattr with a computed name stores exactly that attribute; reading "
            "`avp.value` is a function of the AVP object, its payload and its member cache (Avp.value#tok - each typed getter "
            "is verified against a contract of that shape under C01/C04); ownership: a list held in an attribute of a container "
            "is younger than the container and is not the AVP list being processed"],
        bounded=[bounded.c03_round_trip],
        level_text="Deductive proof of per-function contracts on the real code plus exhaustive ground rows: (ground, all 2821 "
                   "rows of all command classes and grouped containers) every declared attribute denotes exactly one "
                   "dictionary AVP, a grouped one exactly when it has a container class, no two rows of a class denote the same "
                   "AVP or share a name, list-annotated attributes start as lists, no row shadows the undeclared-AVP lists, no "
                   "normalised AVP name shadows a message attribute; (deductive, encode side) generate_avps_from_defs: per row, "
                   "every emitted AVP carries the row's code, vendor, V and M bits, an unset attribute emits nothing, a set "
                   "scalar attribute exactly one AVP, earlier AVPs stay, undeclared AVPs follow unchanged; (deductive, decode "
                   "side) assign_attr_from_defs: per AVP of the list, the row looked up declares that AVP's code and vendor, a "
                   "scalar attribute receives the decoded value (None on a decode error), a list attribute is appended to at the "
                   "end, a grouped AVP becomes a new container of the row's class filled by the recursive call, an undeclared "
                   "AVP is appended unchanged to additional_avps, no other attribute changes, only AvpDecodeError escapes; "
                   "(deductive, untyped commands) UndefinedMessage._assign_attr_values: every AVP is exposed under "
                   "name.replace('-','_').lower(), a repetition turns the attribute into a list in wire order, grouped AVPs "
                   "become new nested objects, the AVP list itself is unchanged; validate_message_avps and the generated "
                   "__post_init__ family. The whole-message round trip is the composition of these with the C01 codecs; that "
                   "composition is argued, and exercised by a labelled bounded stand-in, not discharged.",
        level_note="Per-function proofs of both directions and of the untyped exposure; table well-formedness exhaustively; the "
                   "composition into encode-decode-encode = encode is argued + bounded stand-in (not counted as proved).",
        explanation="Exhaustive ground rows over the real attribute tables; functional contracts (loop step clauses over a "
                    "value-carrying open attribute store) on generate_avps_from_defs, assign_attr_from_defs and "
                    "UndefinedMessage._assign_attr_values; bounded stand-in for the composed round trip.",
    ),
}

# the structural fact "Node's tables are distinct objects" (specs/node_model.py) is assumed wherever Node objects occur: its
# ground obligation is part of every check that loads the node contracts
for _pid, _cfg in PROPS.items():
    if "node" in _cfg["specs"] and ground.c13_tables_assigned_once not in _cfg["ground"]:
        _cfg["ground"] = list(_cfg["ground"]) + [ground.c13_tables_assigned_once]

# the control-flow skeleton of one round of the I/O loop (timer sweep, reconnect, both socket sweeps run unconditionally) is
# what "at the next timer check" / "dialled again" / "no worker stops" refer to: part of the checks whose statements use it
for _pid in ("C06", "C11", "C12", "C14", "C18", "C05", "C15"):
    if ground.node_round_structure not in PROPS[_pid]["ground"]:
        PROPS[_pid]["ground"] = list(PROPS[_pid]["ground"]) + [ground.node_round_structure]

# the codec keeps no state between calls (frame condition for objects outside the heap model): part of every codec property
for _pid in ("C01", "C02", "C03", "C04", "C20"):
    if ground.message_statelessness not in PROPS[_pid]["ground"]:
        PROPS[_pid]["ground"] = list(PROPS[_pid]["ground"]) + [ground.message_statelessness]

# the tables of node / application / connection objects belong to one object each (no class- or module-level mutable state)
for _pid in ("C07", "C09", "C10", "C13", "C17", "C19"):
    if ground.node_instance_state not in PROPS[_pid]["ground"]:
        PROPS[_pid]["ground"] = list(PROPS[_pid]["ground"]) + [ground.node_instance_state]
