"""Property table: which spec modules, ground obligations, replay harness and texts serve each property."""
from . import ground, replay

COMMON_ASSUME = [
    "S1 python int is a mathematical integer",
    "S2 values of declared builtin kinds have builtin behaviour (no user subclasses with overloaded operators)",
    "S3 closed-world class table: method/property resolution follows the classes found in /repo/src",
    "S4 evaluation order / exception propagation / finally / short-circuit as in the language reference",
    "S5 functions run to completion without interleaving (sequential contracts)",
    "S6 logging calls and exception message formatting are effect-free and do not raise (dropped by the extraction)",
    "S-bytes every bytes value is a sequence of integers in 0..255",
]

PROPS = {
    "C01": dict(
        specs=["packer", "avp", "avp_types"],
        ground=[ground.c01_dictionary, ground.c01_struct_layouts, ground.c01_structure],
        replay=replay.generic,
        trusted_base=["T-struct: struct.pack/unpack = abstract big-endian word codecs (cross-checked natively on every run)",
                      "T-float: IEEE-754 value semantics of struct 'f'/'d' (assumed)",
                      "T-sock: socket.inet_pton/inet_ntop are inverse bijections on valid input",
                      "T-utf8: bytes.decode/str.encode('utf8') inverse on valid input",
                      "T-time: process TZ=UTC, naive whole-second datetimes"],
        assumptions=COMMON_ASSUME,
        level_text="Deductive proof, for all inputs, of per-function contracts on the real packer and AVP code "
                   "(as_packed appends the RFC 6733 wire() spec function of the fields; from_unpacker is its inverse "
                   "decode relation; every typed getter/setter against the type's RFC layout with iff-raises clauses "
                   "for domain rejection; round-trip lemmas), plus exhaustive ground obligations over all dictionary "
                   "rows. Right level: the property quantifies over all values and all dictionary entries.",
        level_note="Trusted: pyvc VC generator and its builtin models; struct/socket/utf-8/datetime contracts "
                   "(T-struct cross-checked natively each run; T-float, T-sock, T-utf8, T-time assumed); SMT solvers on "
                   "unsat. Grouped nesting and Avp.new are covered by separate contracts; IEEE-754 value semantics are assumed.",
        explanation="Contracts on the real packer/AVP functions: encode = RFC 6733 wire() spec function, decode inverse, "
                    "per-type layouts incl. NTP era arithmetic taken from the RFC, domain rejection as iff-raises clauses; "
                    "dictionary rows exhaustively; word layout lemmas over concrete byte arithmetic.",
    ),
}
