"""Bounded stand-ins (labelled `bounded`, never counted as proved) for clauses whose functions are not within reach of
the VC generator.  Each returns a list of GroundOb with backend='bounded(<bound>)'.

C03 round trip: generate_avps_from_defs / assign_attr_from_defs / UndefinedMessage._assign_attr_values use
getattr/setattr with computed names and recursion over containers.  Bound: every concrete command class and grouped
container of the real package x every row (one type-directed value per row, list attributes with 2 elements, nested
containers to depth 3) x {single attribute, all attributes} + one undeclared extra AVP; untyped commands with
repeated AVPs (3 values incl. a falsy first one) at top level and one level deep."""
from __future__ import annotations

import datetime
import os

from pyvc.driver import GroundOb
from .ground import real, _all_message_classes

BOUND = "every class x every row, 1 value/row, lists of 2 (a falsy first element where the type has one), depth<=3"


def _value_for(avp_mod, entry, depth, grouped_mod, row):
    t = entry["type"]
    if t is avp_mod.AvpGrouped:
        return None
    if t in (avp_mod.AvpInteger32,):
        return -7
    if t is avp_mod.AvpInteger64:
        return -(2 ** 40)
    if t is avp_mod.AvpUnsigned32:
        return 3000000000
    if t is avp_mod.AvpUnsigned64:
        return 2 ** 63 + 5
    if t is avp_mod.AvpFloat32:
        return 1.5
    if t is avp_mod.AvpFloat64:
        return -2.25
    if t is avp_mod.AvpUtf8String:
        return "ü-text"
    if t is avp_mod.AvpOctetString:
        return b"\x00\x01octets"
    if t is avp_mod.AvpTime:
        return datetime.datetime(2031, 5, 6, 7, 8, 9)
    if t is avp_mod.AvpAddress:
        return "10.20.30.40"
    return b"raw"


def _fill(obj, avp_mod, grouped_mod, depth, only=None):
    """set type-directed values on obj for its rows (all, or only the row named `only`); returns {attr: value}"""
    gen = real("diameter.message.avp.generator")
    expected = {}
    for r in obj.avp_def:
        if not isinstance(r, gen.AvpGenDef):
            continue
        if only is not None and r.attr_name != only:
            continue
        e = avp_mod.get_avp_dictionary_entry(r.avp_code, r.vendor_id)
        if e is None:
            continue
        cur = getattr(obj, r.attr_name, None)
        is_list = isinstance(cur, list)
        if r.type_class is not None:
            if depth <= 0:
                continue
            def mk():
                c = r.type_class()
                _fill(c, avp_mod, grouped_mod, depth - 1)
                return c
            val = [mk(), mk()] if is_list else mk()
        else:
            v = _value_for(avp_mod, e, depth, grouped_mod, r)
            if v is None:
                continue
            # list attributes: a falsy but valid first element (0, "", b"") followed by the regular value
            falsy = {int: 0, str: "", bytes: b"", float: 0.0}.get(type(v))
            if e["type"] is avp_mod.AvpAddress:
                falsy = None
            val = ([v, v] if falsy is None else [falsy, v]) if is_list else v
        try:
            setattr(obj, r.attr_name, val)
        except Exception:
            continue
        expected[r.attr_name] = val
    return expected


def _eq(a, b, avp_mod):
    if isinstance(a, list) and isinstance(b, list):
        return len(a) == len(b) and all(_eq(x, y, avp_mod) for x, y in zip(a, b))
    if hasattr(a, "avp_def") and hasattr(b, "avp_def"):
        for r in a.avp_def:
            va, vb = getattr(a, r.attr_name, None), getattr(b, r.attr_name, None)
            if va is None and (vb is None or vb == []):
                continue
            if (va == [] or va is None) and (vb == [] or vb is None):
                continue
            if not _eq(va, vb, avp_mod):
                return False
        return True
    if isinstance(b, tuple) and isinstance(a, str):        # addresses decode as (family, text)
        return b[1] == a
    return a == b


def c03_round_trip(prog):
    base, cmds, classes = _all_message_classes()
    avp_mod = real("diameter.message.avp.avp")
    grouped_mod = real("diameter.message.avp.grouped")
    gen = real("diameter.message.avp.generator")
    out = []
    backend = f"bounded({BOUND})"
    concrete = [c for c in classes if getattr(c, "avp_def", None) and c.__name__.endswith(("Request", "Answer"))]
    for cls in concrete:
        probs = []
        rows = [r for r in cls.avp_def if isinstance(r, gen.AvpGenDef)]
        # (1) each single attribute: exactly one AVP per scalar / one per element, right code, vendor, M flag
        for r in rows:
            e = avp_mod.get_avp_dictionary_entry(r.avp_code, r.vendor_id)
            if e is None:
                continue
            try:
                m = cls()
                before = [(a.code, a.vendor_id) for a in m.avps]
                exp = _fill(m, avp_mod, grouped_mod, 2, only=r.attr_name)
                if r.attr_name not in exp:
                    continue
                avps = m.avps
                mine = [a for a in avps if (a.code, a.vendor_id) == (r.avp_code, r.vendor_id)]
                want_n = len(exp[r.attr_name]) if isinstance(exp[r.attr_name], list) else 1
                base_n = before.count((r.avp_code, r.vendor_id))
                if len(mine) != max(want_n, 0) and len(mine) - base_n != want_n and len(mine) != want_n:
                    probs.append(f"{r.attr_name}: {len(mine)} AVPs, expected {want_n}")
                want_m = r.is_mandatory if r.is_mandatory is not None else bool(e.get("mandatory"))
                for a in mine:
                    if a.is_mandatory != want_m:
                        probs.append(f"{r.attr_name}: M flag {a.is_mandatory}, row/dictionary says {want_m}")
                        break
            except Exception as ex:
                probs.append(f"{r.attr_name}: {type(ex).__name__}: {ex}")
            if len(probs) > 3:
                break
        # (2) all attributes + one undeclared AVP: decode restores, encode-decode-encode = encode, extra carried over
        try:
            m = cls()
            exp = _fill(m, avp_mod, grouped_mod, 3)
            extra = avp_mod.Avp.new(1, 10415, value="262011234567890") if (1, 10415) not in [(r.avp_code, r.vendor_id) for r in rows] else None
            if extra is not None:
                m.append_avp(extra)
            wire = m.as_bytes()
            d = base.Message.from_bytes(wire)
            if type(d) is not cls:
                probs.append(f"decoded as {type(d).__name__}")
            else:
                for name, val in exp.items():
                    got = getattr(d, name, None)
                    if not _eq(val, got, avp_mod):
                        probs.append(f"attribute {name} not restored: {got!r} != {val!r}"[:160])
                        break
                if extra is not None and not any((a.code, a.vendor_id, a.payload) == (1, 10415, extra.payload)
                                                 for a in d._additional_avps):
                    probs.append("undeclared AVP not carried over unchanged")
                wire2 = d.as_bytes()
                if wire2 != wire:
                    probs.append("encode(decode(encode(x))) != encode(x)")
        except Exception as ex:
            probs.append(f"all attributes: {type(ex).__name__}: {ex}"[:200])
        out.append(GroundOb(f"C03.bounded.roundtrip[{cls.__name__}]", not probs, "; ".join(probs[:4]), backend=backend,
                            witness={"class": cls.__name__}))
    # (3) untyped commands: repeated AVPs become lists in wire order (falsy first value included), grouped nest
    probs = []
    try:
        consts = real("diameter.message.constants")
        m = base.Message()
        m.header.command_code = 8388001
        for v in (0, 5, 6):
            m.append_avp(avp_mod.Avp.new(consts.AVP_RATING_GROUP, value=v))
        for v in (b"", b"a", b"b"):
            m.append_avp(avp_mod.Avp.new(consts.AVP_CLASS, value=v))
        m.append_avp(avp_mod.Avp.new(consts.AVP_SESSION_ID, value="s;1"))
        g = avp_mod.Avp.new(consts.AVP_MULTIPLE_SERVICES_CREDIT_CONTROL)
        g.value = [avp_mod.Avp.new(consts.AVP_SERVICE_IDENTIFIER, value=v) for v in (0, 3)] + \
                  [avp_mod.Avp.new(consts.AVP_RATING_GROUP, value=9)]
        m.append_avp(g)
        d = base.Message.from_bytes(m.as_bytes())
        if type(d) is not base.UndefinedMessage:
            probs.append(f"decoded as {type(d).__name__}")
        if getattr(d, "rating_group", None) != [0, 5, 6]:
            probs.append(f"rating_group == {getattr(d, 'rating_group', None)!r}")
        if getattr(d, "class", None) != [b"", b"a", b"b"]:
            probs.append(f"class == {getattr(d, 'class', None)!r}")
        if getattr(d, "session_id", None) != "s;1":
            probs.append("single AVP not a scalar")
        mscc = getattr(d, "multiple_services_credit_control", None)
        if mscc is None or getattr(mscc, "service_identifier", None) != [0, 3] or getattr(mscc, "rating_group", None) != 9:
            probs.append("nested grouped attributes wrong")
    except Exception as ex:
        probs.append(f"{type(ex).__name__}: {ex}")
    out.append(GroundOb("C03.bounded.untyped-attributes", not probs, "; ".join(probs), backend=backend))
    return out
