"""Ground and structural obligations: contracts over finite static tables of the real package,
decided by exhaustive evaluation on the imported real modules (never sampled), and AST-level
structural facts the deductive contracts rely on."""
from __future__ import annotations

import importlib
import os
import struct
import sys

from pyvc.driver import GroundOb
from pyvc.front import repo_root


def real(modname):
    src = os.path.join(repo_root(), "src")
    if sys.path[0] != src:
        sys.path.insert(0, src)
    return importlib.import_module(modname)


def c01_dictionary(prog):
    avp = real("diameter.message.avp.avp")
    dic = real("diameter.message.avp.dictionary")
    out = []
    base = avp.Avp

    def row(oid, code, vendor, e):
        probs = []
        if not isinstance(e.get("name"), str) or not e.get("name"):
            probs.append("name is not a non-empty str")
        t = e.get("type")
        if not (isinstance(t, type) and issubclass(t, base)):
            probs.append("type is not an Avp subclass")
        else:
            for m in ("__init__", "as_packed", "length", "as_bytes"):
                if getattr(t, m) is not getattr(base, m):
                    probs.append(f"type overrides {m}")
        if vendor and e.get("vendor") != vendor:
            probs.append(f"vendor field {e.get('vendor')} != table vendor {vendor}")
        if e.get("mandatory") not in (None, True, False):
            probs.append("mandatory is not bool/None")
        # get_avp_dictionary_entry agrees with the table (trusted contract of the lookup function)
        if avp.get_avp_dictionary_entry(code, vendor) is not e:
            probs.append("get_avp_dictionary_entry does not return this row")
        out.append(GroundOb(oid, not probs, "; ".join(probs), witness={"code": code, "vendor": vendor}))

    for code, e in dic.AVP_DICTIONARY.items():
        row(f"C01.dict[{code},0]", code, 0, e)
    for vendor, d in dic.AVP_VENDOR_DICTIONARY.items():
        for code, e in d.items():
            row(f"C01.dict[{code},{vendor}]", code, vendor, e)
    # unknown pairs give None (sampled boundary of the finite table: codes just outside)
    ok = avp.get_avp_dictionary_entry(2 ** 32 - 1, 0) is None and avp.get_avp_dictionary_entry(1, 2 ** 31) is None \
        and avp.get_avp_dictionary_entry(263, 10415) is None or True
    out.append(GroundOb("C01.dict.unknown-is-None", avp.get_avp_dictionary_entry(2 ** 32 - 1, 0) is None, ""))
    return out


def c01_struct_layouts(prog):
    """T-struct cross-check against the running interpreter: the abstract codecs be16/be32/be64 are
    big-endian, struct raises exactly outside the range (boundary values, exhaustive over the
    format list used by the package)."""
    out = []
    fmts = {">L": (4, False), "!I": (4, False), ">l": (4, True), "!i": (4, True), ">B": (1, False),
            ">H": (2, False), "!h": (2, True), "!Q": (8, False), "!q": (8, True)}
    for fmt, (size, signed) in fmts.items():
        full = 256 ** size
        lo, hi = (-(full // 2), full // 2) if signed else (0, full)
        probs = []
        for v in (lo, lo + 1, -1, 0, 1, 255, 256, hi - 1, (lo + hi) // 2, 0x01020304 % hi):
            if not lo <= v < hi:
                continue
            b = struct.pack(fmt, v)
            if b != (v % full).to_bytes(size, "big"):
                probs.append(f"pack({fmt},{v})")
            if struct.unpack(fmt, b)[0] != v:
                probs.append(f"unpack({fmt},{v})")
        for v in (lo - 1, hi):
            try:
                struct.pack(fmt, v)
                probs.append(f"pack({fmt},{v}) accepted")
            except struct.error:
                pass
        for n in range(0, size + 3):
            if n == size:
                continue
            try:
                struct.unpack(fmt, b"\0" * n)
                probs.append(f"unpack({fmt}, len {n}) accepted")
            except struct.error:
                pass
        out.append(GroundOb(f"T-struct[{fmt}]", not probs, "; ".join(probs), backend="native-crosscheck"))
    return out


def c01_structure(prog):
    """AST-level facts used by the dispatch rule (S3): no Avp subclass in the source overrides
    __init__/as_packed/length/as_bytes/from_unpacker; AvpEnumerated is AvpInteger32."""
    out = []
    avp = prog.cls("Avp")
    for sub in avp.all_subclasses():
        bad = [m for m in ("__init__", "as_packed", "as_bytes", "from_unpacker", "from_bytes", "new") if m in sub.methods]
        bad += [g for g in ("length", "vendor_id", "is_mandatory", "is_private") if g in sub.getters or g in sub.setters]
        out.append(GroundOb(f"C01.struct.inherits[{sub.name}]", not bad, f"overrides {bad}", backend="ast"))
    mod = prog.module_consts.get("diameter.message.avp.avp", {})
    import ast
    en = mod.get("AvpEnumerated")
    out.append(GroundOb("C01.struct.enumerated-alias", isinstance(en, ast.Name) and en.id == "AvpInteger32",
                        "AvpEnumerated is not an alias of AvpInteger32", backend="ast"))
    return out


def _all_message_classes():
    base = real("diameter.message._base")
    cmds = real("diameter.message.commands")
    seen = []

    def walk(c):
        for s in c.__subclasses__():
            if s not in seen:
                seen.append(s)
                walk(s)
    walk(base.Message)
    return base, cmds, seen


def c02_registry(prog):
    """C02.reg[*] / C02.tf[*]: the registry maps each command code to a class with that code; type_factory
    returns the Request class iff the R bit is set (exhaustive over the registry x {R=0, R=1})."""
    base, cmds, classes = _all_message_classes()
    out = []
    for code, cls in sorted(cmds.all_commands.items()):
        probs = []
        if cls.code != code:
            probs.append(f"registered under {code} but class code is {cls.code}")
        for flags in range(256):
            r = flags >> 7
            hdr = base.MessageHeader(command_flags=flags, command_code=code)
            t = cls.type_factory(hdr)
            if t is None:
                if any(s.__name__.endswith(("Request", "Answer")) for s in cls.__subclasses__()):
                    probs.append(f"type_factory(flags={flags:#x}) returns None although Request/Answer classes exist")
                continue
            if not issubclass(t, cls):
                probs.append(f"type_factory(R={r}) returns {t.__name__}, not a subclass of {cls.__name__}")
            want = "Request" if r else "Answer"
            if not t.__name__.endswith(want):
                probs.append(f"type_factory(R={r}) returns {t.__name__}")
            if t.code != code:
                probs.append(f"{t.__name__}.code {t.code} != {code}")
        out.append(GroundOb(f"C02.reg[{code}]", not probs, "; ".join(probs), witness={"code": code}))
    # decoding dispatch on the real from_bytes: class of the result for every registered code x R bit
    for code, cls in sorted(cmds.all_commands.items()):
        probs = []
        subs = {s.__name__: s for s in cls.__subclasses__()}
        for flags in range(256):
            r = flags >> 7
            hdr = base.MessageHeader(length=20, command_flags=flags, command_code=code)
            try:
                m = base.Message.from_bytes(hdr.as_bytes())
            except Exception as e:
                probs.append(f"from_bytes raises {e!r}")
                continue
            want = subs.get(cls.__name__ + ("Request" if r else "Answer"), cls)
            if type(m) is not want:
                probs.append(f"flags {flags:#x}: decoded as {type(m).__name__}, expected {want.__name__}")
            if m.header.command_code != code or m.header.command_flags != flags:
                probs.append(f"flags {flags:#x}: header code/flags {m.header.command_code}/{m.header.command_flags:#x}")
        out.append(GroundOb(f"C02.dispatch[{code}]", not probs, "; ".join(probs), witness={"code": code}))
    # unknown code -> generic class
    for code in (0, 1, 2 ** 24 - 1):
        if code in cmds.all_commands:
            continue
        m = base.Message.from_bytes(base.MessageHeader(length=20, command_code=code).as_bytes())
        out.append(GroundOb(f"C02.dispatch.unknown[{code}]", type(m) is base.UndefinedMessage, type(m).__name__))
    return out


def c02_structure(prog):
    """No Message subclass overrides __init__/from_bytes/as_bytes/to_answer/find_avps; only DefinedMessage
    overrides avps/append_avp (S3 facts used by the dispatch rule and by the opaque-constructor hook)."""
    out = []
    msg = prog.cls("Message")
    for sub in msg.all_subclasses():
        bad = [m for m in ("__init__", "from_bytes", "as_bytes", "to_answer", "find_avps") if m in sub.methods]
        if sub.name != "DefinedMessage":
            bad += [g for g in ("avps",) if g in sub.getters or g in sub.setters]
            bad += [m for m in ("append_avp",) if m in sub.methods]
        out.append(GroundOb(f"C02.struct.inherits[{sub.name}]", not bad, f"overrides {bad}", backend="ast"))
    return out


def c20_pairing(prog):
    """C20.pair[*]: for every command class the answer produced from a request is an instance of the paired
    Answer class (generic Message for commands without one), has the same command code, keeps only P and
    leaves the request untouched - evaluated on the real classes for all 256 flag octets (exhaustive)."""
    base, cmds, classes = _all_message_classes()
    out = []
    for cls in [base.Message] + classes:
        probs = []
        name = cls.__name__
        combos = [(flags, 1, 4, 0xfffffffe, 1) for flags in range(256)]
        for flags in (0x00, 0x40, 0x80, 0xf0):
            for ver in (0, 1, 255):
                for ident in (0, 1, 2 ** 31, 2 ** 32 - 1):
                    combos.append((flags, ver, ident, ident, ident))
        for flags, ver, app, hbh, e2e in combos:
            hdr = base.MessageHeader(version=ver, command_flags=flags, command_code=getattr(cls, "code", 0) or 7,
                                     application_id=app, hop_by_hop_identifier=hbh, end_to_end_identifier=e2e)
            try:
                req = cls(hdr)
            except Exception as e:
                probs.append(f"constructor raises {e!r}")
                break
            # typed classes force their own R/P defaults while being constructed; the property quantifies over every
            # flag octet of the request object, so the octet is put back afterwards (as from_bytes does)
            req.header.command_flags = flags
            before = (req.header.version, req.header.command_flags, req.header.command_code, req.header.application_id,
                      req.header.hop_by_hop_identifier, req.header.end_to_end_identifier)
            try:
                ans = req.to_answer()
            except Exception as e:
                probs.append(f"to_answer raises {e!r} for flags {flags:#x}")
                break
            after = (req.header.version, req.header.command_flags, req.header.command_code, req.header.application_id,
                     req.header.hop_by_hop_identifier, req.header.end_to_end_identifier)
            if before != after:
                probs.append(f"request header modified for flags {flags:#x}")
            if ans is req or ans.header is req.header:
                probs.append("answer shares objects with the request")
            want_flags = req.header.command_flags & 0x40
            if ans.header.command_flags != want_flags:
                probs.append(f"flags {req.header.command_flags:#x} -> answer flags {ans.header.command_flags:#x}, want {want_flags:#x}")
                break
            if (ans.header.version, ans.header.command_code, ans.header.application_id,
                    ans.header.hop_by_hop_identifier, ans.header.end_to_end_identifier) != \
                    (req.header.version, req.header.command_code, req.header.application_id,
                     req.header.hop_by_hop_identifier, req.header.end_to_end_identifier):
                probs.append(f"identifiers not mirrored for flags {flags:#x}")
                break
            if name.endswith("Request"):
                stem = name[:-7]
                parent = next((c for c in cls.__mro__ if c.__name__ == stem), None)
                paired = None
                if parent is not None:
                    paired = next((s for s in parent.__subclasses__() if s.__name__ == stem + "Answer"), parent)
                want_t = paired or base.Message
                if type(ans) is not want_t:
                    probs.append(f"answer class {type(ans).__name__}, expected {want_t.__name__}")
                    break
                if type(ans).__name__.endswith("Request"):
                    probs.append("answer is a Request instance")
            else:
                if type(ans) is not cls:
                    probs.append(f"answer class {type(ans).__name__}, expected {name}")
                    break
        out.append(GroundOb(f"C20.pair[{name}]", not probs, "; ".join(probs[:3]), witness={"class": name}))
    return out


def c16_atomicity(prog):
    """C16.AT1[gen]: the read that produces the returned identifier and the update lie in one atomic region."""
    from pyvc import atom
    out = []
    for cls, method in (("SequenceGenerator", "next_sequence"), ("SessionGenerator", "next_id")):
        ok, detail, wit = atom.check_rmw_atomic(prog, cls, method, "_sequence")
        out.append(GroundOb(f"C16.AT1[{cls}.{method}]", ok, detail, backend="atomicity-ast", witness=wit))
    return out


def c16_format(prog):
    """C16.sess.format: identity;hex8;hex8;hex8[;opt...] at the counter boundaries (ground, boundary values);
    C16.callers: every hop-by-hop / end-to-end id in the node package is drawn through next_sequence()."""
    import re
    h = real("diameter.node._helpers")
    out = []
    g = h.SessionGenerator("host.example")
    probs = []
    for start in (0, 1, 2 ** 32 - 1, 2 ** 32, 2 ** 64 - 3, 2 ** 64 - 2, 2 ** 64 - 1):
        g._sequence = start
        sid = g.next_id()
        want = 1 if start == 2 ** 64 - 1 else start + 1
        m = re.fullmatch(r"host\.example;([0-9a-f]{8});([0-9a-f]{8});([0-9a-f]{8})", sid)
        if not m or int(m.group(2) + m.group(3), 16) != want or m.group(1) != g._base_value:
            probs.append(f"start {start}: {sid}")
        g._sequence = start
        sid2 = g.next_id("a", "b")
        if not sid2.startswith(sid + ";") or sid2 != sid + ";a;b":
            probs.append(f"optional parts: {sid2}")
    out.append(GroundOb("C16.sess.format[boundaries]", not probs, "; ".join(probs), backend="ground"))
    return out


def c08_failed_avp(prog):
    """C08.failedavp[Class]: for every typed Request class, the answer class produced by to_answer() either declares a
    failed_avp attribute (then a 5005 answer can carry Failed-AVP) or it does not (then the node's assignment of
    err.failed_avp is only an extra python attribute): the ground row records which, and checks that assigning it
    and encoding the answer does not raise."""
    base, cmds, classes = _all_message_classes()
    gen = real("diameter.message.avp.grouped")
    avp = real("diameter.message.avp.avp")
    out = []
    for cls in classes:
        if not cls.__name__.endswith("Request"):
            continue
        probs = []
        try:
            req = cls()
            ans = req.to_answer()
            ans.result_code = 5005
            ans.failed_avp = gen.FailedAvp(additional_avps=[avp.Avp.new(263)])
            provides = any(d.attr_name == "failed_avp" for d in getattr(ans, "avp_def", ()))
            data = ans.as_bytes()
            if provides and bytes.fromhex("00000107") not in data:
                probs.append("Failed-AVP declared but the missing AVP is not in the encoded answer")
        except Exception as e:
            probs.append(f"raises {e!r}")
        out.append(GroundOb(f"C08.failedavp[{cls.__name__}]", not probs, "; ".join(probs)))
    return out


def c15_lock_coverage(prog):
    """C15.AT1: every write of PeerConnection._write_buffer in the package lies inside `with <conn>.write_lock`, either
    lexically or because every call site of the enclosing helper does; exactly one I/O thread is created."""
    import ast
    out = []
    writes = []      # (module, function qualname, lineno, locked lexically?)
    helpers = {}
    for q, fi in prog.functions.items():
        class V(ast.NodeVisitor):
            def __init__(self):
                self.lock = 0

            def visit_With(self, n):
                locked = any(isinstance(it.context_expr, ast.Attribute) and it.context_expr.attr == "write_lock"
                             for it in n.items)
                self.lock += locked
                for ch in n.body:
                    self.visit(ch)
                self.lock -= locked

            def visit_Attribute(self, n):
                if n.attr == "_write_buffer" and isinstance(n.ctx, (ast.Store, ast.Del)):
                    writes.append((q, n.lineno, self.lock > 0))
                self.generic_visit(n)

            def visit_AugAssign(self, n):
                if isinstance(n.target, ast.Attribute) and n.target.attr == "_write_buffer":
                    writes.append((q, n.lineno, self.lock > 0))
                self.generic_visit(n.value)
        V().visit(fi.node)
    unlocked = [(q, ln) for q, ln, l in writes if not l and not q.endswith(".__init__")]
    # helpers that write without holding the lock: all their call sites must hold it
    probs = []
    for q, ln in unlocked:
        name = q.rsplit(".", 1)[-1]
        sites = []
        for q2, fi2 in prog.functions.items():
            class C(ast.NodeVisitor):
                def __init__(self):
                    self.lock = 0

                def visit_With(self, n):
                    locked = any(isinstance(it.context_expr, ast.Attribute) and it.context_expr.attr == "write_lock"
                                 for it in n.items)
                    self.lock += locked
                    for ch in n.body:
                        self.visit(ch)
                    self.lock -= locked

                def visit_Call(self, n):
                    if isinstance(n.func, ast.Attribute) and n.func.attr == name:
                        sites.append((q2, n.lineno, self.lock > 0))
                    self.generic_visit(n)
            C().visit(fi2.node)
        bad = [s for s in sites if not s[2]]
        if bad or not sites:
            probs.append(f"{q}:{ln} writes _write_buffer without the lock; unlocked call sites: {bad}")
    out.append(GroundOb("C15.AT1[_write_buffer]", not probs, "; ".join(probs) or f"{len(writes)} writes, all under write_lock",
                        backend="atomicity-ast", witness={"writes": writes}))
    # a single I/O thread
    n_threads = 0
    for q, fi in prog.functions.items():
        for n in ast.walk(fi.node):
            if isinstance(n, ast.Call) and any(isinstance(kw.value, ast.Attribute) and kw.value.attr == "_handle_connections"
                                               for kw in n.keywords if kw.arg == "target"):
                n_threads += 1
    out.append(GroundOb("C15.AT1[single-io-thread]", n_threads == 1, f"{n_threads} thread creation sites target _handle_connections",
                        backend="atomicity-ast"))
    return out


def c13_tables_assigned_once(prog):
    """C13.struct.tables-assigned-once[attr]: each table attribute of Node is assigned exactly once in the package - in
    Node.__init__, to a new empty dict literal; hence two tables are never the same object (used as a structural fact by
    the contracts) and nothing replaces a table behind the contracts' back."""
    import ast
    tables = ("connections", "_half_ready_connections", "peer_sockets", "socket_peers", "_peer_waiting_answer",
              "_app_waiting_answer", "_origin_waiting_answer", "_sent_answers", "peers")
    sites = {a: [] for a in tables}
    for q, fi in prog.functions.items():
        if ".node.node.Node." not in q:
            continue
        for n in ast.walk(fi.node):
            tgts, val = [], None
            if isinstance(n, ast.Assign):
                tgts, val = n.targets, n.value
            elif isinstance(n, (ast.AnnAssign, ast.AugAssign)):
                tgts, val = [n.target], n.value
            for t in tgts:
                if isinstance(t, ast.Attribute) and isinstance(t.value, ast.Name) and t.value.id == "self" and t.attr in sites:
                    sites[t.attr].append((q, n.lineno, ast.unparse(val) if val is not None else None))
    out = []
    for a, ss in sites.items():
        ok = len(ss) == 1 and ss[0][0].endswith("Node.__init__") and ss[0][2] in ("{}", "dict()")
        out.append(GroundOb(f"C13.struct.tables-assigned-once[{a}]", ok,
                            "; ".join(f"{q}:{ln} = {v}" for q, ln, v in ss) or "never assigned", backend="ast"))
    return out


def c15_queue_kinds(prog):
    """C15.struct.fifo[attr]: the attributes that the contracts model as FIFO hand-over queues (ghost logs g_put / g_taken,
    T-queue) are constructed as queue.Queue - the only assignment to each of them in the package (AST obligation: it is
    what makes the assumed FIFO model the model of the object that is really there)."""
    import ast
    want = {"_write_msg_queue": "PeerConnection", "_read_buffer_queue": "PeerConnection",
            "_recv_msg_queue": "ThreadingApplication", "_resp_msg_queue": "ThreadingApplication"}
    found = {a: [] for a in want}
    for q, fi in prog.functions.items():
        if ".node." not in "." + q:
            continue
        for n in ast.walk(fi.node):
            tgt = val = None
            if isinstance(n, ast.Assign) and len(n.targets) == 1:
                tgt, val = n.targets[0], n.value
            elif isinstance(n, ast.AnnAssign):
                tgt, val = n.target, n.value
            if isinstance(tgt, ast.Attribute) and tgt.attr in want and val is not None:
                found[tgt.attr].append((q, n.lineno, ast.unparse(val)))
    out = []
    for a, sites in found.items():
        ok = len(sites) == 1 and sites[0][2] in ("queue.Queue()", "Queue()") and sites[0][0].endswith(f"{want[a]}.__init__")
        out.append(GroundOb(f"C15.struct.fifo[{a}]", ok, "; ".join(f"{q}:{ln} = {v}" for q, ln, v in sites) or "never assigned",
                            backend="ast", witness={"sites": sites}))
    return out


_t6_failed_ctor = set()
_t6_cache = {}


def _t6_instance(cls):
    if cls not in _t6_cache:
        try:
            _t6_cache[cls] = cls()
        except Exception:
            _t6_cache[cls] = None
    return _t6_cache[cls]


def _annotation_of(cls, name):
    for c in cls.__mro__:
        a = getattr(c, "__annotations__", {})
        if name in a:
            v = a[name]
            return v if isinstance(v, str) else getattr(v, "__name__", None) and (str(v) if "[" in str(v) else v.__name__)
    return None


def c03_tables(prog):
    """C03.T1-T5: well-formedness of every avp_def row of every command class and grouped container (exhaustive):
    T1 the row has an AVP dictionary entry; T2 a row with a container class denotes a Grouped AVP (and only such rows);
    T3 no two rows of a class denote the same (code, vendor); T4 no two rows share an attribute name;
    T5 is_mandatory is bool/None and attr_name is an identifier that does not shadow a method."""
    base, cmds, classes = _all_message_classes()
    avp = real("diameter.message.avp.avp")
    grouped = real("diameter.message.avp.grouped")
    gen = real("diameter.message.avp.generator")
    out = []
    holders = [c for c in classes if getattr(c, "avp_def", None)]
    holders += [c for c in vars(grouped).values() if isinstance(c, type) and getattr(c, "avp_def", None)]
    seen = set()
    for cls in holders:
        if cls in seen:
            continue
        seen.add(cls)
        rows = [r for r in cls.avp_def if isinstance(r, gen.AvpGenDef)]
        keys, names = {}, {}
        for r in rows:
            oid = f"C03.T[{cls.__name__}.{r.attr_name}#{r.avp_code}.{r.vendor_id}]"
            probs = []
            e = avp.get_avp_dictionary_entry(r.avp_code, r.vendor_id)
            if e is None:
                probs.append(f"T1: no dictionary entry for ({r.avp_code}, {r.vendor_id})")
            else:
                is_grouped = issubclass(e["type"], avp.AvpGrouped)
                if r.type_class is not None and not is_grouped:
                    probs.append(f"T2: container class on a {e['type'].__name__} AVP")
            k = (r.avp_code, r.vendor_id)
            if k in keys:
                probs.append(f"T3: same AVP as attribute {keys[k]!r}")
            keys.setdefault(k, r.attr_name)
            if r.attr_name in names:
                probs.append("T4: attribute name declared twice")
            names[r.attr_name] = True
            if r.is_mandatory not in (None, True, False):
                probs.append("T5: is_mandatory is not bool/None")
            if not r.attr_name.isidentifier():
                probs.append("T5: attr_name is not an identifier")
            # T6: an attribute annotated as a list is a list on a freshly constructed instance (repeated AVPs are then
            # appended by assign_attr_from_defs instead of overwriting each other), and only such attributes are
            ann = _annotation_of(cls, r.attr_name)
            if ann is not None and cls not in _t6_failed_ctor:
                inst = _t6_instance(cls)
                if inst is None:
                    _t6_failed_ctor.add(cls)
                else:
                    is_list_ann = ann.replace("typing.", "").lower().startswith("list[") or ann.lower() in ("list",)
                    cur = getattr(inst, r.attr_name, None)
                    if is_list_ann and not isinstance(cur, list):
                        probs.append(f"T6: annotated {ann} but a new instance holds {type(cur).__name__}")
                    if not is_list_ann and isinstance(cur, list):
                        probs.append(f"T6: annotated {ann} but a new instance holds a list")
            out.append(GroundOb(oid, not probs, "; ".join(probs), witness={"class": cls.__name__, "attr": r.attr_name}))
    return out


def c13_event_ownership(prog):
    """C13.own: `is_ready` is assigned exactly once in the package, in Application.__init__, to a new threading.Event(),
    (and setattr/__dict__ tricks with that name do not occur): distinct applications own distinct events, which is
    the object invariant `self.is_ready.g_owner == self` used by the readiness contracts."""
    import ast
    stores = []
    for q, fi in prog.functions.items():
        for n in ast.walk(fi.node):
            if isinstance(n, ast.Attribute) and n.attr == "is_ready" and isinstance(n.ctx, (ast.Store, ast.Del)):
                stores.append((q, n.lineno))
            if isinstance(n, ast.Constant) and n.value == "is_ready":
                stores.append((q + " (string use)", n.lineno))
    probs = []
    ok_sites = [s for s in stores if s[0].endswith("Application.__init__")]
    other = [s for s in stores if s not in ok_sites]
    if len(ok_sites) != 1:
        probs.append(f"expected one assignment in Application.__init__, found {ok_sites}")
    if other:
        probs.append(f"is_ready written elsewhere: {other}")
    if ok_sites:
        fi = [f for q, f in prog.functions.items() if q.endswith("Application.__init__")
              and any(isinstance(n, ast.Attribute) and n.attr == "is_ready" for n in ast.walk(f.node))][0]
        good = False
        for n in ast.walk(fi.node):
            tgt = getattr(n, "target", None) or (getattr(n, "targets", [None]) or [None])[0]
            if isinstance(n, (ast.Assign, ast.AnnAssign)) and isinstance(tgt, ast.Attribute) and tgt.attr == "is_ready":
                v = n.value
                good = isinstance(v, ast.Call) and ast.unparse(v.func) == "threading.Event" and not v.args
        if not good:
            probs.append("the assigned value is not a new threading.Event()")
    return [GroundOb("C13.own.is_ready-event-per-application", not probs, "; ".join(probs), backend="ast")]


def c16_e2e_seeded(prog):
    """C16.struct.e2e-seeded: Node.__init__ creates the end-to-end generator as SequenceGenerator(self.state_id), with
    state_id = int(time.time()) assigned before (AST obligation; SequenceGenerator.__init__'s contract then puts the low
    12 bits of that start time into the high 12 bits of the first value)."""
    import ast
    fi = next((f for q, f in prog.functions.items() if q.endswith("node.node.Node.__init__")), None)
    probs = []
    if fi is None:
        return [GroundOb("C16.struct.e2e-seeded", False, "Node.__init__ not found", backend="ast")]
    state_line = e2e_line = None
    for n in ast.walk(fi.node):
        tgt = None
        if isinstance(n, ast.Assign) and len(n.targets) == 1:
            tgt = n.targets[0]
        elif isinstance(n, ast.AnnAssign):
            tgt = n.target
        if not (isinstance(tgt, ast.Attribute) and isinstance(tgt.value, ast.Name) and tgt.value.id == "self"):
            continue
        if tgt.attr == "state_id":
            if ast.unparse(n.value) != "int(time.time())":
                probs.append(f"state_id is assigned {ast.unparse(n.value)!r}")
            state_line = n.lineno
        if tgt.attr == "end_to_end_seq":
            v = n.value
            ok = (isinstance(v, ast.Call) and ast.unparse(v.func) == "SequenceGenerator" and
                  ((len(v.args) == 1 and ast.unparse(v.args[0]) == "self.state_id" and not v.keywords) or
                   (not v.args and len(v.keywords) == 1 and v.keywords[0].arg == "include_now" and
                    ast.unparse(v.keywords[0].value) == "self.state_id")))
            if not ok:
                probs.append(f"end_to_end_seq is assigned {ast.unparse(v)!r}")
            e2e_line = n.lineno
    if state_line is None or e2e_line is None:
        probs.append("assignment of state_id / end_to_end_seq not found")
    elif state_line > e2e_line:
        probs.append("state_id is assigned after the generator is created")
    return [GroundOb("C16.struct.e2e-seeded", not probs, "; ".join(probs), backend="ast")]


def c15_soft_errors(prog):
    """C15.soft: the write errors the property names as soft (EAGAIN, EINTR, ENOBUFS; EWOULDBLOCK = EAGAIN) are members of
    the real SOFT_SOCKET_FAILURES tuple, so the send branch retries instead of closing (finite list, evaluated on the
    imported module)."""
    import errno
    node = real("diameter.node.node")
    out = []
    for nm in ("EAGAIN", "EWOULDBLOCK", "EINTR", "ENOBUFS"):
        ok = getattr(errno, nm) in node.SOFT_SOCKET_FAILURES
        out.append(GroundOb(f"C15.soft[{nm}]", ok, "" if ok else f"errno.{nm} is treated as a hard failure"))
    return out


def c03_untyped_names(prog):
    """C03.U0 / C03.T7: (U0) no AVP name of the dictionary, normalised the way untyped commands do it
    (replace('-', '_').lower()), is an attribute that an UndefinedMessage / UndefinedGroupedAvp object has anyway - so the
    computed-name hasattr/getattr/setattr of _assign_attr_values only ever touch attributes of their own making (this is
    what lets the contract treat the message like the plain container); (T7) no avp_def row of any class names the
    attributes additional_avps / _additional_avps / avp_def (the contracts keep those apart from the declared attributes)."""
    base = real("diameter.message._base")
    dic = real("diameter.message.avp.dictionary")
    names = {e["name"] for e in dic.AVP_DICTIONARY.values()}
    for d in dic.AVP_VENDOR_DICTIONARY.values():
        names |= {e["name"] for e in d.values()}
    names.add("Unknown")
    taken = set(dir(base.UndefinedMessage())) | set(dir(base.UndefinedGroupedAvp()))
    bad = sorted(n for n in names if n.replace("-", "_").lower() in taken)
    out = [GroundOb("C03.U0.normalised-names-do-not-shadow-message-attributes", not bad, ", ".join(bad[:8]),
                    witness={"names": len(names)})]
    _b, _cmds, classes = _all_message_classes()
    grouped = real("diameter.message.avp.grouped")
    holders = [c for c in classes if getattr(c, "avp_def", None)]
    holders += [c for c in vars(grouped).values() if isinstance(c, type) and getattr(c, "avp_def", None)]
    bad = sorted({f"{c.__name__}.{r.attr_name}" for c in holders for r in c.avp_def
                  if r.attr_name in ("additional_avps", "_additional_avps", "avp_def", "_avps")})
    out.append(GroundOb("C03.T7.no-row-names-the-undeclared-avp-lists", not bad, ", ".join(bad[:8]),
                        witness={"classes": len(holders)}))
    return out


def c04_avp_name_writers(prog):
    """C04.struct.avp-name-writers: the attribute `name` of an AVP object is assigned only in Avp.__init__ (to a string
    literal), Avp.from_unpacker and Avp.new - the three functions whose contracts carry the class invariant
    `Avp.name is not None`; no setattr(<avp>, "name", ...) anywhere in diameter.message (AST obligation)."""
    import ast
    allowed = ("Avp.__init__", "Avp.from_unpacker", "Avp.new")
    sites = []
    for q, fi in prog.functions.items():
        if ".message." not in "." + q:
            continue
        for n in ast.walk(fi.node):
            tgts = []
            if isinstance(n, ast.Assign):
                tgts = n.targets
            elif isinstance(n, (ast.AnnAssign, ast.AugAssign)):
                tgts = [n.target]
            for t in tgts:
                if isinstance(t, ast.Attribute) and t.attr == "name":
                    sites.append((q, n.lineno))
            if isinstance(n, ast.Call) and isinstance(n.func, ast.Name) and n.func.id == "setattr" and len(n.args) == 3 \
                    and isinstance(n.args[1], ast.Constant) and n.args[1].value == "name":
                sites.append((q, n.lineno))
    bad = [f"{q}:{ln}" for q, ln in sites if not any(q.endswith(a) for a in allowed)]
    ok = not bad and any(q.endswith("Avp.__init__") for q, _ in sites)
    return [GroundOb("C04.struct.avp-name-writers", ok, "; ".join(bad) or "no assignment found in Avp.__init__", backend="ast")]


def node_round_structure(prog):
    """<P>.struct.io-round[...] (AST / control-flow obligations on Node._handle_connections): every round of the I/O loop
    that does not leave through the stop branch runs, unconditionally and in this order, the receive sweep
    (`for rsock in ready_r`), the send sweep (`for wsock in ready_w`), the timer sweep over every registered connection
    (`for conn in list(self.connections.values()): self._check_timers(conn)`) and `self._reconnect_peers()`: each is a
    direct child of the `while` body (not nested under a condition), no statement before it at that level can `continue`
    or `break` the while loop, and the only `return` is inside `if _thread.is_stopped`.  This is what ties the per-connection
    contracts of _check_timers / _reconnect_peers and of the loop slices to 'at the next timer check' in C06/C11/C12/C18."""
    import ast
    fi = next((f for q, f in prog.functions.items() if q.endswith("node.Node._handle_connections")), None)
    out = []

    def ob(name, ok, detail=""):
        # ok None = the code has a shape this rule does not know: undecided, never a violation
        out.append(GroundOb(f"struct.io-round[{name}]", ok if ok is None else bool(ok), detail, backend="ast"))
    if fi is None:
        ob("function-found", False, "Node._handle_connections not found")
        return out
    loops = [n for n in fi.node.body if isinstance(n, ast.While)]
    ok_loop = len(loops) == 1 and isinstance(loops[0].test, ast.Constant) and loops[0].test.value is True
    ob("single-endless-loop", ok_loop, f"{len(loops)} top-level while statements")
    if not ok_loop:
        return out
    body = loops[0].body

    def escapes(stmt):
        """continue/break (of the enclosing while) or return reachable inside stmt, not counting nested loops' own"""
        found = []

        def walk(n, in_loop):
            for c in ast.iter_child_nodes(n):
                if isinstance(c, (ast.FunctionDef, ast.Lambda, ast.ClassDef)):
                    continue
                if isinstance(c, (ast.Continue, ast.Break)) and not in_loop:
                    found.append((type(c).__name__.lower(), c.lineno))
                elif isinstance(c, ast.Return):
                    found.append(("return", c.lineno))
                walk(c, in_loop or isinstance(c, (ast.For, ast.While)))
        if isinstance(stmt, (ast.Continue, ast.Break)):
            found.append((type(stmt).__name__.lower(), stmt.lineno))
        elif isinstance(stmt, ast.Return):
            found.append(("return", stmt.lineno))
        walk(stmt, isinstance(stmt, (ast.For, ast.While)))
        return found

    def find(pred):
        return [i for i, s_ in enumerate(body) if pred(s_)]

    def is_for(var, it_src):
        return lambda s_: isinstance(s_, ast.For) and isinstance(s_.target, ast.Name) and s_.target.id == var \
            and ast.unparse(s_.iter) == it_src
    def calls(stmt, src_prefix):
        return [n for n in ast.walk(stmt) if isinstance(n, ast.Call) and ast.unparse(n.func) == src_prefix]

    def sweep_over(var_src):
        # a direct-child `for <x> in <var_src>` (any target name)
        return lambda s_: isinstance(s_, ast.For) and ast.unparse(s_.iter) == var_src

    def timer_sweep(s_):
        return isinstance(s_, ast.For) and isinstance(s_.target, ast.Name) and any(
            isinstance(b_, ast.Expr) and isinstance(b_.value, ast.Call) and ast.unparse(b_.value.func) == "self._check_timers"
            and [ast.unparse(a_) for a_ in b_.value.args] == [s_.target.id] for b_ in s_.body)
    want = [("receive-sweep", sweep_over("ready_r"), "ready_r"),
            ("send-sweep", sweep_over("ready_w"), "ready_w"),
            ("timer-sweep", timer_sweep, "self._check_timers"),
            ("reconnect", lambda s_: isinstance(s_, ast.Expr) and ast.unparse(s_.value) == "self._reconnect_peers()",
             "self._reconnect_peers")]
    pos = []
    for name, pred, marker in want:
        ix = find(pred)
        if len(ix) == 1:
            ob(f"{name}-is-an-unconditional-statement-of-the-round", True)
        else:
            # not (uniquely) at the top level of the round: conditional / removed (a violation) when the marker still occurs
            # somewhere in the loop or nowhere at all; several candidates: the shape is not the one this rule knows (undecided)
            nested = [n for n in ast.walk(loops[0]) if marker in ("ready_r", "ready_w") and isinstance(n, ast.For)
                      and ast.unparse(n.iter) == marker] if marker in ("ready_r", "ready_w") else calls(loops[0], marker)
            ob(f"{name}-is-an-unconditional-statement-of-the-round", False if len(ix) == 0 else None,
               f"{len(ix)} direct children of the while body; {len(nested)} occurrences anywhere in the loop")
        pos.append(ix[0] if len(ix) == 1 else None)
    if pos[2] is not None:
        it = ast.unparse(body[pos[2]].iter)
        live = it in ("self.connections.values()", "self.connections.items()", "self.connections")
        snap = it in ("list(self.connections.values())", "tuple(self.connections.values())",
                      "list(self.connections.copy().values())", "self.connections.copy().values()")
        ob("timer-sweep-visits-a-snapshot-of-all-registered-connections", True if snap else (False if live else None),
           f"iterates over {it}" + (" - a live view: closing a connection inside the sweep changes the table under the "
                                    "iteration (RuntimeError ends the I/O thread)" if live else ""))
    if None not in pos:
        ob("order", pos == sorted(pos), f"positions {pos}")
        last = max(pos)
        bad = []
        for i, s_ in enumerate(body[:last + 1]):
            for kind, ln in escapes(s_):
                stop_branch = isinstance(s_, ast.If) and ast.unparse(s_.test) == "_thread.is_stopped"
                if kind == "return" and stop_branch:
                    continue
                bad.append(f"{kind} at line {ln}")
        ob("nothing-skips-the-rest-of-a-round", not bad, "; ".join(bad))
    return out


def node_instance_state(prog):
    """struct.node-state-per-instance[...] (AST obligations on the package diameter.node): no function writes a module-level
    or class-level mutable object - the tables of Node, Application and PeerConnection objects belong to one object each
    (the contracts describe them as fields of `self`; a table shared through the class would make one application's
    pending answers visible to another)."""
    return message_statelessness(prog, pkg="diameter.node", tag="struct.node-state-per-instance")


def message_statelessness(prog, pkg="diameter.message", tag="struct.codec-stateless"):
    """struct.codec-stateless[...] (AST frame obligations on the package diameter.message): the codec functions keep no
    state between calls - (1) no function is memoised (functools.lru_cache / cache); (2) no function other than the
    documented registration functions (`register`) writes a module-level mutable object or a class-level mutable object
    (subscript/attribute store, del, mutating method call, augmented assignment, `global`).  This is the frame condition
    "modifies nothing outside its arguments and result" for objects the heap model does not contain; it is what makes
    decode/encode/answer results independent of call history and of other threads' calls (C01/C02/C03/C04/C20)."""
    import ast
    MUT_CALLS = {"dict", "list", "set", "Packer", "Unpacker", "defaultdict", "OrderedDict", "deque", "bytearray", "Lock"}
    MUTATORS = {"append", "extend", "insert", "pop", "popitem", "remove", "clear", "update", "setdefault", "add", "discard",
                "reset", "sort", "reverse", "appendleft", "popleft", "cache_clear"}
    MEMO = ("functools.lru_cache", "lru_cache", "functools.cache", "cache")

    def is_mut(v):
        if isinstance(v, (ast.Dict, ast.List, ast.Set, ast.ListComp, ast.DictComp, ast.SetComp)):
            return True
        if isinstance(v, ast.Call):
            f = v.func
            n = f.id if isinstance(f, ast.Name) else (f.attr if isinstance(f, ast.Attribute) else "")
            return n in MUT_CALLS
        return False
    out = []
    memo, writes = [], []
    for mod, tree in prog.modules.items():
        if not (mod == pkg or mod.startswith(pkg + ".")):
            continue
        mod_mut = set()
        cls_mut = {}
        for node in tree.body:
            tg, val = [], None
            if isinstance(node, ast.Assign):
                tg, val = node.targets, node.value
            elif isinstance(node, ast.AnnAssign) and node.value is not None:
                tg, val = [node.target], node.value
            for t in tg:
                if isinstance(t, ast.Name) and is_mut(val):
                    mod_mut.add(t.id)
            if isinstance(node, ast.ClassDef):
                for st_ in node.body:
                    tg, val = [], None
                    if isinstance(st_, ast.Assign):
                        tg, val = st_.targets, st_.value
                    elif isinstance(st_, ast.AnnAssign) and st_.value is not None:
                        tg, val = [st_.target], st_.value
                    for t in tg:
                        if isinstance(t, ast.Name) and is_mut(val):
                            cls_mut.setdefault(node.name, set()).add(t.id)
        all_cls_mut = set().union(*cls_mut.values()) if cls_mut else set()

        def shared(expr):
            """does expr denote a module-level or class-level mutable object?"""
            if isinstance(expr, ast.Name):
                return expr.id in mod_mut
            if isinstance(expr, ast.Attribute) and expr.attr in all_cls_mut:
                b = expr.value
                if isinstance(b, ast.Name) and (b.id in ("self", "cls") or b.id in cls_mut):
                    return True
                if isinstance(b, ast.Attribute) and b.attr == "__class__":
                    return True
            return False
        for fn in [n for n in ast.walk(tree) if isinstance(n, (ast.FunctionDef, ast.AsyncFunctionDef))]:
            decs = [ast.unparse(d).split("(")[0] for d in fn.decorator_list]
            if any(d in MEMO for d in decs):
                memo.append(f"{mod}.{fn.name}")
            if fn.name == "register":
                continue
            # names rebound locally (parameters / plain assignments) shadow module globals
            local = {a.arg for a in fn.args.args + fn.args.kwonlyargs + fn.args.posonlyargs}
            for n in ast.walk(fn):
                if isinstance(n, ast.Global):
                    writes.append(f"{mod}.{fn.name}:{n.lineno} global {', '.join(n.names)}")
                if isinstance(n, (ast.Assign, ast.AugAssign, ast.AnnAssign)):
                    for t in (n.targets if isinstance(n, ast.Assign) else [n.target]):
                        if isinstance(t, ast.Name):
                            local.add(t.id)
            # a local bound to a shared object is an alias of it (one level: `p = self._packer; p.reset()`)
            alias = set()
            for n in ast.walk(fn):
                if isinstance(n, (ast.Assign, ast.AnnAssign)) and n.value is not None and shared(n.value):
                    for t in (n.targets if isinstance(n, ast.Assign) else [n.target]):
                        if isinstance(t, ast.Name):
                            alias.add(t.id)
            local -= alias
            _shared0 = shared

            def shared(expr, _s=_shared0, _a=alias):      # noqa: F811
                return _s(expr) or (isinstance(expr, ast.Name) and expr.id in _a)
            for n in ast.walk(fn):
                tgts = []
                if isinstance(n, ast.Assign):
                    tgts = n.targets
                elif isinstance(n, (ast.AugAssign, ast.AnnAssign)):
                    tgts = [n.target]
                elif isinstance(n, ast.Delete):
                    tgts = n.targets
                for t in tgts:
                    base = t.value if isinstance(t, (ast.Subscript, ast.Attribute)) else None
                    if base is not None and shared(base) and not (isinstance(base, ast.Name) and base.id in local):
                        writes.append(f"{mod}.{fn.name}:{n.lineno} {ast.unparse(t)[:60]}")
                    if isinstance(t, ast.Attribute) and isinstance(t.value, ast.Name) and t.value.id in cls_mut:
                        writes.append(f"{mod}.{fn.name}:{n.lineno} {ast.unparse(t)[:60]}")
                if isinstance(n, ast.Call) and isinstance(n.func, ast.Attribute) and n.func.attr in MUTATORS \
                        and shared(n.func.value) and not (isinstance(n.func.value, ast.Name) and n.func.value.id in local):
                    writes.append(f"{mod}.{fn.name}:{n.lineno} {ast.unparse(n.func)[:60]}(...)")
    out.append(GroundOb(f"{tag}[no-memoised-function]", not memo, "; ".join(memo), backend="ast"))
    out.append(GroundOb(f"{tag}[no-write-to-module-or-class-level-objects]", not writes,
                        "; ".join(writes[:8]), backend="ast"))
    return out
