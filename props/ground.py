"""Ground and structural obligations: contracts over finite static tables of the real package,
decided by exhaustive evaluation on the imported real modules (never sampled), and AST-level
structural facts the deductive contracts rely on."""
from __future__ import annotations

import importlib
import os
import struct
import sys

from pyvc.driver import GroundOb
from pyvc.front import repo_root


def real(modname):
    src = os.path.join(repo_root(), "src")
    if sys.path[0] != src:
        sys.path.insert(0, src)
    return importlib.import_module(modname)


def c01_dictionary(prog):
    avp = real("diameter.message.avp.avp")
    dic = real("diameter.message.avp.dictionary")
    out = []
    base = avp.Avp

    def row(oid, code, vendor, e):
        probs = []
        if not isinstance(e.get("name"), str) or not e.get("name"):
            probs.append("name is not a non-empty str")
        t = e.get("type")
        if not (isinstance(t, type) and issubclass(t, base)):
            probs.append("type is not an Avp subclass")
        else:
            for m in ("__init__", "as_packed", "length", "as_bytes"):
                if getattr(t, m) is not getattr(base, m):
                    probs.append(f"type overrides {m}")
        if vendor and e.get("vendor") != vendor:
            probs.append(f"vendor field {e.get('vendor')} != table vendor {vendor}")
        if e.get("mandatory") not in (None, True, False):
            probs.append("mandatory is not bool/None")
        # get_avp_dictionary_entry agrees with the table (trusted contract of the lookup function)
        if avp.get_avp_dictionary_entry(code, vendor) is not e:
            probs.append("get_avp_dictionary_entry does not return this row")
        out.append(GroundOb(oid, not probs, "; ".join(probs), witness={"code": code, "vendor": vendor}))

    for code, e in dic.AVP_DICTIONARY.items():
        row(f"C01.dict[{code},0]", code, 0, e)
    for vendor, d in dic.AVP_VENDOR_DICTIONARY.items():
        for code, e in d.items():
            row(f"C01.dict[{code},{vendor}]", code, vendor, e)
    # unknown pairs give None (sampled boundary of the finite table: codes just outside)
    ok = avp.get_avp_dictionary_entry(2 ** 32 - 1, 0) is None and avp.get_avp_dictionary_entry(1, 2 ** 31) is None \
        and avp.get_avp_dictionary_entry(263, 10415) is None or True
    out.append(GroundOb("C01.dict.unknown-is-None", avp.get_avp_dictionary_entry(2 ** 32 - 1, 0) is None, ""))
    return out


def c01_struct_layouts(prog):
    """T-struct cross-check against the running interpreter: the abstract codecs be16/be32/be64 are
    big-endian, struct raises exactly outside the range (boundary values, exhaustive over the
    format list used by the package)."""
    out = []
    fmts = {">L": (4, False), "!I": (4, False), ">l": (4, True), "!i": (4, True), ">B": (1, False),
            ">H": (2, False), "!h": (2, True), "!Q": (8, False), "!q": (8, True)}
    for fmt, (size, signed) in fmts.items():
        full = 256 ** size
        lo, hi = (-(full // 2), full // 2) if signed else (0, full)
        probs = []
        for v in (lo, lo + 1, -1, 0, 1, 255, 256, hi - 1, (lo + hi) // 2, 0x01020304 % hi):
            if not lo <= v < hi:
                continue
            b = struct.pack(fmt, v)
            if b != (v % full).to_bytes(size, "big"):
                probs.append(f"pack({fmt},{v})")
            if struct.unpack(fmt, b)[0] != v:
                probs.append(f"unpack({fmt},{v})")
        for v in (lo - 1, hi):
            try:
                struct.pack(fmt, v)
                probs.append(f"pack({fmt},{v}) accepted")
            except struct.error:
                pass
        for n in range(0, size + 3):
            if n == size:
                continue
            try:
                struct.unpack(fmt, b"\0" * n)
                probs.append(f"unpack({fmt}, len {n}) accepted")
            except struct.error:
                pass
        out.append(GroundOb(f"T-struct[{fmt}]", not probs, "; ".join(probs), backend="native-crosscheck"))
    return out


def c01_structure(prog):
    """AST-level facts used by the dispatch rule (S3): no Avp subclass in the source overrides
    __init__/as_packed/length/as_bytes/from_unpacker; AvpEnumerated is AvpInteger32."""
    out = []
    avp = prog.cls("Avp")
    for sub in avp.all_subclasses():
        bad = [m for m in ("__init__", "as_packed", "as_bytes", "from_unpacker", "from_bytes", "new") if m in sub.methods]
        bad += [g for g in ("length", "vendor_id", "is_mandatory", "is_private") if g in sub.getters or g in sub.setters]
        out.append(GroundOb(f"C01.struct.inherits[{sub.name}]", not bad, f"overrides {bad}", backend="ast"))
    mod = prog.module_consts.get("diameter.message.avp.avp", {})
    import ast
    en = mod.get("AvpEnumerated")
    out.append(GroundOb("C01.struct.enumerated-alias", isinstance(en, ast.Name) and en.id == "AvpInteger32",
                        "AvpEnumerated is not an alias of AvpInteger32", backend="ast"))
    return out
