NOT_APPLICABLE = {}
NOTES = ("Contract-based deductive verification of the real code; see DESIGN.md. Exit codes: 0 held (known findings printed "
         "as KNOWN-FINDING), 1 violation, 2 undecided on a changed tree, 3 checker error.")
