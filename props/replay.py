"""Native replay of solver counterexamples against the real code (filled in below)."""


def generic(r, ob, model):
    from pyvc.native import replay_contract
    return replay_contract(r, ob, model)
