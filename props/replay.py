"""Native replay of solver counterexamples against the real code (filled in below)."""


def generic(r, ob, model):
    from pyvc.native import replay_contract
    return replay_contract(r, ob, model)


def c16_schedule(g):
    """Replay a failed atomicity obligation as a concrete two-thread line schedule on the real generator."""
    from pyvc import atom
    from props.ground import real
    if "SequenceGenerator" in g.oid:
        h = real("diameter.node._helpers")
        code = h.SequenceGenerator.next_sequence.__code__

        def make():
            gen = h.SequenceGenerator()
            gen._sequence = 5
            return [gen.next_sequence, gen.next_sequence]
        r = atom.search_schedules(make, [code], lambda res: res[0] != res[1] and None not in res, max_len=6)
    elif "SessionGenerator" in g.oid:
        h = real("diameter.node._helpers")
        code = h.SessionGenerator.next_id.__code__

        def make():
            gen = h.SessionGenerator("n")
            gen._sequence = 5
            return [gen.next_id, gen.next_id]
        r = atom.search_schedules(make, [code], lambda res: res[0] != res[1] and None not in res, max_len=6)
    else:
        return None
    if r is None:
        return {"status": "not-reproduced", "detail": "no line schedule up to length 6 yields equal identifiers"}
    sched, res = r
    return {"status": "reproduced", "detail": f"two concurrent callers obtain the same identifier {res} "
            f"under the line schedule {sched} (thread index per executed source line, start value 5)",
            "schedule": sched, "results": res}
