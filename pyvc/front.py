"""Front end: parses the real sources under $REPO/src/diameter on every run.

Builds: module table, class table (bases, MRO, methods, properties, class constants),
module-level functions and constants, decorator lists.  Nothing is cached between runs.
"""
from __future__ import annotations

import ast
import os


def repo_root() -> str:
    return os.environ.get("VERIF_REPO", "/repo")


def src_root() -> str:
    return os.path.join(repo_root(), "src")


class FuncInfo:
    def __init__(self, qualname, node, module, cls=None, kind="function", decorators=()):
        self.qualname = qualname        # e.g. diameter.message.packer.Packer.pack_uint
        self.node: ast.FunctionDef = node
        self.module = module
        self.cls = cls                  # ClassInfo or None
        self.kind = kind                # function | method | classmethod | staticmethod | getter | setter
        self.decorators = list(decorators)

    @property
    def name(self):
        return self.node.name

    def __repr__(self):
        return f"<Func {self.qualname} {self.kind}>"


class ClassInfo:
    def __init__(self, name, module, node):
        self.name = name
        self.module = module
        self.node: ast.ClassDef = node
        self.base_names: list[str] = []
        self.bases: list["ClassInfo"] = []
        self.methods: dict[str, FuncInfo] = {}
        self.getters: dict[str, FuncInfo] = {}
        self.setters: dict[str, FuncInfo] = {}
        self.consts: dict[str, ast.expr] = {}
        self.aliases: dict[str, str] = {}     # pack_fopaque = pack_fstring
        self.subclasses: list["ClassInfo"] = []
        self._mro = None

    @property
    def qualname(self):
        return f"{self.module}.{self.name}"

    def mro(self):
        if self._mro is None:
            # C3 is overkill: the package uses single inheritance except trivial cases
            out = [self]
            for b in self.bases:
                for c in b.mro():
                    if c not in out:
                        out.append(c)
            self._mro = out
        return self._mro

    def is_subclass_of(self, other: "ClassInfo"):
        return other in self.mro()

    def lookup(self, name):
        """-> ('method'|'getter'|'const', info, owner) or None following the MRO"""
        for c in self.mro():
            pfx = f"_{c.name.lstrip('_')}__"
            if name.startswith(pfx) and name[len(pfx) - 2:] in c.methods:
                return ("method", c.methods[name[len(pfx) - 2:]], c)
            if name in c.aliases:
                name2 = c.aliases[name]
                if name2 in c.methods:
                    return ("method", c.methods[name2], c)
            if name in c.methods:
                return ("method", c.methods[name], c)
            if name in c.getters:
                return ("getter", c.getters[name], c)
            if name in c.consts:
                return ("const", c.consts[name], c)
        return None

    def lookup_setter(self, name):
        for c in self.mro():
            if name in c.setters:
                return c.setters[name]
            if name in c.getters:
                return None   # read-only property shadows
        return None

    def all_subclasses(self):
        out = []
        for s in self.subclasses:
            out.append(s)
            out += s.all_subclasses()
        return out

    def __repr__(self):
        return f"<Class {self.qualname}>"


class Program:
    def __init__(self, package="diameter", only_modules=None):
        self.package = package
        self.modules: dict[str, ast.Module] = {}
        self.module_files: dict[str, str] = {}
        self.classes: dict[str, ClassInfo] = {}          # by qualname
        self.classes_by_name: dict[str, list[ClassInfo]] = {}
        self.functions: dict[str, FuncInfo] = {}         # by qualname
        self.module_consts: dict[str, dict[str, ast.expr]] = {}
        self.module_imports: dict[str, dict[str, str]] = {}   # local name -> dotted target
        self.sources: dict[str, str] = {}
        self._load(only_modules)
        self._link()

    # -- loading ---------------------------------------------------------------
    def _load(self, only_modules):
        root = os.path.join(src_root(), self.package)
        for dirpath, dirnames, filenames in os.walk(root):
            dirnames.sort()
            for fn in sorted(filenames):
                if not fn.endswith(".py"):
                    continue
                path = os.path.join(dirpath, fn)
                rel = os.path.relpath(path, src_root())[:-3].replace(os.sep, ".")
                if rel.endswith(".__init__"):
                    rel = rel[:-9]
                if only_modules is not None and not any(rel == m or rel.startswith(m + ".") for m in only_modules):
                    continue
                with open(path, "r", encoding="utf-8") as f:
                    src = f.read()
                try:
                    tree = ast.parse(src, filename=path)
                except SyntaxError as e:   # a broken tree is a checker error, not a violation
                    raise RuntimeError(f"cannot parse {path}: {e}")
                self.modules[rel] = tree
                self.module_files[rel] = path
                self.sources[rel] = src
                self._scan_module(rel, tree, is_pkg=fn == "__init__.py")

    def _scan_module(self, mod, tree, is_pkg):
        consts = self.module_consts.setdefault(mod, {})
        imports = self.module_imports.setdefault(mod, {})
        for node in tree.body:
            self._scan_stmt(mod, node, consts, imports, is_pkg)

    def _scan_stmt(self, mod, node, consts, imports, is_pkg):
        if isinstance(node, ast.ClassDef):
            self._scan_class(mod, node)
        elif isinstance(node, (ast.FunctionDef,)):
            fi = FuncInfo(f"{mod}.{node.name}", node, mod, None, "function",
                          [ast.unparse(d) for d in node.decorator_list])
            self.functions[fi.qualname] = fi
        elif isinstance(node, ast.Assign) and len(node.targets) == 1 and isinstance(node.targets[0], ast.Name):
            consts[node.targets[0].id] = node.value
        elif isinstance(node, ast.AnnAssign) and isinstance(node.target, ast.Name) and node.value is not None:
            consts[node.target.id] = node.value
        elif isinstance(node, ast.ImportFrom):
            base = mod if is_pkg else mod.rsplit(".", 1)[0]
            if node.level:
                parts = base.split(".")
                if node.level > 1:
                    parts = parts[: -(node.level - 1)]
                target = ".".join(parts + ([node.module] if node.module else []))
            else:
                target = node.module
            for a in node.names:
                if a.name == "*":
                    imports.setdefault("*", [])
                    imports["*"].append(target)
                else:
                    imports[a.asname or a.name] = f"{target}.{a.name}"
        elif isinstance(node, ast.Import):
            for a in node.names:
                imports[a.asname or a.name.split(".")[0]] = a.name if a.asname else a.name.split(".")[0]
        elif isinstance(node, ast.Try):
            for s in node.body:
                self._scan_stmt(mod, s, consts, imports, is_pkg)

    def _scan_class(self, mod, node: ast.ClassDef):
        ci = ClassInfo(node.name, mod, node)
        ci.base_names = [ast.unparse(b) for b in node.bases]
        for st in node.body:
            if isinstance(st, ast.FunctionDef):
                decs = [ast.unparse(d) for d in st.decorator_list]
                kind = "method"
                if "property" in decs:
                    kind = "getter"
                elif any(d.endswith(".setter") for d in decs):
                    kind = "setter"
                elif "classmethod" in decs:
                    kind = "classmethod"
                elif "staticmethod" in decs:
                    kind = "staticmethod"
                suffix = ".fset" if kind == "setter" else ""
                fi = FuncInfo(f"{mod}.{node.name}.{st.name}{suffix}", st, mod, ci, kind, decs)
                self.functions[fi.qualname] = fi
                if kind == "getter":
                    ci.getters[st.name] = fi
                elif kind == "setter":
                    ci.setters[st.name] = fi
                else:
                    ci.methods[st.name] = fi
            elif isinstance(st, ast.Assign) and len(st.targets) == 1 and isinstance(st.targets[0], ast.Name):
                tname = st.targets[0].id
                if isinstance(st.value, ast.Name) and st.value.id in ci.methods:
                    ci.aliases[tname] = st.value.id
                else:
                    ci.consts[tname] = st.value
            elif isinstance(st, ast.AnnAssign) and isinstance(st.target, ast.Name) and st.value is not None:
                ci.consts[st.target.id] = st.value
        self.classes[ci.qualname] = ci
        self.classes_by_name.setdefault(ci.name, []).append(ci)

    # -- linking ---------------------------------------------------------------
    def _link(self):
        for ci in self.classes.values():
            for bn in ci.base_names:
                b = self.resolve_class(ci.module, bn)
                if b is not None:
                    ci.bases.append(b)
                    b.subclasses.append(ci)

    def resolve_name(self, mod: str, name: str, _seen=None):
        """Resolve a bare name used in module `mod` to ('class', ClassInfo) | ('func', FuncInfo) |
        ('const', module, expr) | ('module', dotted) | None."""
        _seen = _seen or set()
        key = (mod, name)
        if key in _seen:
            return None
        _seen.add(key)
        q = f"{mod}.{name}"
        if q in self.classes:
            return ("class", self.classes[q])
        if q in self.functions:
            return ("func", self.functions[q])
        if mod in self.module_consts and name in self.module_consts[mod]:
            return ("const", mod, self.module_consts[mod][name])
        imps = self.module_imports.get(mod, {})
        if name in imps:
            target = imps[name]
            if target in self.modules:
                return ("module", target)
            if "." in target:
                tmod, tname = target.rsplit(".", 1)
                if tmod in self.modules:
                    r = self.resolve_name(tmod, tname, _seen)
                    if r:
                        return r
            return ("module", target)   # external module or object (struct, socket, ...)
        for tmod in imps.get("*", []):
            if tmod in self.modules:
                r = self.resolve_name(tmod, name, _seen)
                if r:
                    return r
        return None

    def resolve_class(self, mod: str, name: str):
        r = self.resolve_name(mod, name)
        if r and r[0] == "class":
            return r[1]
        return None

    def cls(self, name: str) -> ClassInfo:
        """By qualname or unique bare name."""
        if name in self.classes:
            return self.classes[name]
        cands = self.classes_by_name.get(name, [])
        if len(cands) == 1:
            return cands[0]
        if not cands:
            raise KeyError(f"class {name} not found in source")
        pref = [c for c in cands if ".commands" in c.module]
        if len(pref) == 1:
            return pref[0]          # command classes take precedence over equally named grouped-AVP containers
        raise KeyError(f"class name {name} is ambiguous: {[c.qualname for c in cands]}")

    def func(self, qualname: str) -> FuncInfo:
        if "@for:" in qualname:
            return self.slice_for(qualname)
        if "@if:" in qualname:
            return self.slice_if(qualname)
        if qualname in self.functions:
            return self.functions[qualname]
        # allow Class.method shorthand and bare module-level function names
        parts = qualname.split(".")
        if len(parts) == 1:
            cands = [f for q, f in self.functions.items() if f.cls is None and f.node.name == qualname]
            if len(cands) == 1:
                return cands[0]
        if len(parts) >= 2:
            try:
                ci = self.cls(parts[0]) if len(parts) <= 3 else None
            except KeyError:
                ci = None
            if ci is not None:
                rest = ".".join(parts[1:])
                q = f"{ci.qualname}.{rest}"
                if q in self.functions:
                    return self.functions[q]
                # alias
                if parts[1] in ci.aliases:
                    q = f"{ci.qualname}.{ci.aliases[parts[1]]}"
                    if q in self.functions:
                        return self.functions[q]
        raise KeyError(f"function {qualname} not found in source")


def _slice_for(self, qualname: str) -> FuncInfo:
    """'<function>@for:<target>' -> the body of the (unique) for-loop over <target> inside <function>, mechanically
    extracted from the real AST as a pseudo-function (its `continue` statements end the slice)."""
    base, target = qualname.split("@for:")
    fi = self.func(base)
    loops = [n for n in ast.walk(fi.node) if isinstance(n, ast.For) and isinstance(n.target, ast.Name) and n.target.id == target]
    if len(loops) != 1:
        raise KeyError(f"slice {qualname}: {len(loops)} matching loops")
    loop = loops[0]
    fn = ast.FunctionDef(name=f"{fi.node.name}__for_{target}", args=ast.arguments(
        posonlyargs=[], args=[ast.arg(arg="self"), ast.arg(arg=target)], vararg=None, kwonlyargs=[], kw_defaults=[],
        kwarg=None, defaults=[]), body=loop.body, decorator_list=[], returns=None, type_comment=None, type_params=[])
    ast.copy_location(fn, loop)
    ast.fix_missing_locations(fn)
    out = FuncInfo(f"{fi.qualname}@for:{target}", fn, fi.module, fi.cls, "slice", [])
    return out


Program.slice_for = _slice_for


def _slice_if(self, qualname: str) -> FuncInfo:
    """'<function>@if:<test>' -> the body of the (unique) `if <test>:` statement inside <function> (the test compared as
    ast.unparse text), mechanically extracted from the real AST as a pseudo-function with the parameters of <function>;
    a `return` inside it ends the slice.  The else branch is not part of the slice."""
    base, test = qualname.split("@if:")
    fi = self.func(base)
    ifs = [n for n in ast.walk(fi.node) if isinstance(n, ast.If) and ast.unparse(n.test) == test]
    if len(ifs) != 1:
        raise KeyError(f"slice {qualname}: {len(ifs)} matching if statements")
    node = ifs[0]
    fn = ast.FunctionDef(name=f"{fi.node.name}__if", args=fi.node.args, body=node.body, decorator_list=[], returns=None,
                         type_comment=None, type_params=[])
    ast.copy_location(fn, node)
    ast.fix_missing_locations(fn)
    return FuncInfo(f"{fi.qualname}@if:{test}", fn, fi.module, fi.cls, "slice", [])


Program.slice_if = _slice_if


def loops_of(fn: ast.FunctionDef):
    """All while/for loops of a function in source order (ordinal = index)."""
    out = []

    class V(ast.NodeVisitor):
        def visit_While(self, n):
            out.append(n)
            self.generic_visit(n)

        def visit_For(self, n):
            out.append(n)
            self.generic_visit(n)

        def visit_FunctionDef(self, n):
            if n is fn:
                self.generic_visit(n)

        def visit_Lambda(self, n):
            pass

    V().visit(fn)
    return out
