"""Static kinds and symbolic values of the pyvc executor."""
from __future__ import annotations

import re

from .smt import (T, INT, BOOL, REAL, SEQI, STR, TRUE, FALSE, I)


# ---- kinds -------------------------------------------------------------------------------

class Kind:
    name = "?"

    def __repr__(self):
        return self.name

    def __eq__(self, o):
        return isinstance(o, Kind) and repr(self) == repr(o)

    def __hash__(self):
        return hash(repr(self))


class KPrim(Kind):
    def __init__(self, name, sort):
        self.name = name
        self.sort = sort


K_INT = KPrim("int", INT)
K_BOOL = KPrim("bool", BOOL)
K_BYTES = KPrim("bytes", SEQI)
K_STR = KPrim("str", STR)
K_FLOAT = KPrim("float", REAL)
K_ANY = KPrim("Any", INT)      # opaque token: only identity is known


class KNone(Kind):
    name = "None"


K_NONE = KNone()


class KRef(Kind):
    def __init__(self, cls: str):
        self.cls = cls
        self.name = cls


class KOpt(Kind):
    def __init__(self, inner: Kind):
        self.inner = inner
        self.name = f"Opt[{inner!r}]"


class KList(Kind):
    def __init__(self, elem: Kind):
        self.elem = elem
        self.name = f"List[{elem!r}]"


class KSeq(Kind):
    """an immutable sequence VALUE stored directly in a field (used for ghost logs: cannot alias anything)"""
    def __init__(self, elem: Kind):
        self.elem = elem
        self.name = f"Seq[{elem!r}]"


class KDeque(Kind):
    def __init__(self, elem: Kind):
        self.elem = elem
        self.name = f"Deque[{elem!r}]"


class KSet(Kind):
    def __init__(self, elem: Kind):
        self.elem = elem
        self.name = f"Set[{elem!r}]"


class KDict(Kind):
    def __init__(self, k: Kind, v: Kind):
        self.k = k
        self.v = v
        self.name = f"Dict[{k!r},{v!r}]"


class KTuple(Kind):
    def __init__(self, items):
        self.items = list(items)
        self.name = "Tuple[" + ",".join(repr(i) for i in self.items) + "]"


_PRIMS = {"int": K_INT, "bool": K_BOOL, "bytes": K_BYTES, "str": K_STR, "float": K_FLOAT,
          "Any": K_ANY, "None": K_NONE}


def parse_kind(s) -> Kind:
    if isinstance(s, Kind):
        return s
    s = s.strip()
    if s in _PRIMS:
        return _PRIMS[s]
    if s.startswith("Any:"):
        return KPrim(s, INT)
    m = re.match(r"^(\w+)\[(.*)\]$", s)
    if m:
        head, body = m.group(1), m.group(2)
        parts = _split_top(body)
        if head == "Opt":
            return KOpt(parse_kind(parts[0]))
        if head == "List":
            return KList(parse_kind(parts[0]))
        if head == "Deque":
            return KDeque(parse_kind(parts[0]))
        if head == "Seq":
            return KSeq(parse_kind(parts[0]))
        if head == "Set":
            return KSet(parse_kind(parts[0]))
        if head == "Dict":
            return KDict(parse_kind(parts[0]), parse_kind(parts[1]))
        if head == "Tuple":
            return KTuple([parse_kind(p) for p in parts])
        raise ValueError(f"unknown kind {s}")
    return KRef(s)


def _split_top(body):
    out, depth, cur = [], 0, ""
    for ch in body:
        if ch == "[":
            depth += 1
        elif ch == "]":
            depth -= 1
        if ch == "," and depth == 0:
            out.append(cur)
            cur = ""
        else:
            cur += ch
    if cur.strip():
        out.append(cur)
    return [p.strip() for p in out]


def layout(k: Kind):
    """Heap storage layout: list of (suffix, sort)."""
    if isinstance(k, KPrim):
        return [("", k.sort)]
    if isinstance(k, KNone):
        return []
    if isinstance(k, KSeq):
        return [("", f"(Seq {elem_sort(k.elem)})")]
    if isinstance(k, (KRef, KList, KDeque, KSet, KDict)):
        return [("", INT)]
    if isinstance(k, KOpt):
        return [("$none", BOOL)] + layout(k.inner)
    if isinstance(k, KTuple):
        out = []
        for i, it in enumerate(k.items):
            out += [(f"${i}{suf}", so) for suf, so in layout(it)]
        return out
    raise ValueError(k)


def elem_sort(k: Kind) -> str:
    if isinstance(k, KOpt) and k.inner is K_BYTES:
        return SEQI          # Optional bytes as a dict key (None encoded as [-1])
    lay = layout(k)
    if len(lay) != 1:
        raise ValueError(f"container element kind {k!r} needs a single-component layout")
    return lay[0][1]


# ---- values ------------------------------------------------------------------------------

class Value:
    kind: Kind = None


class VInt(Value):
    kind = K_INT

    def __init__(self, t: T):
        assert t.sort == INT, t
        self.t = t

    def __repr__(self):
        return f"VInt({self.t.s})"


class VBool(Value):
    kind = K_BOOL

    def __init__(self, t: T):
        assert t.sort == BOOL, t
        self.t = t

    def __repr__(self):
        return f"VBool({self.t.s})"


class VFloat(Value):
    kind = K_FLOAT

    def __init__(self, t: T):
        assert t.sort == REAL, t
        self.t = t


class VBytes(Value):
    kind = K_BYTES

    def __init__(self, t: T):
        assert t.sort == SEQI, t
        self.t = t

    def __repr__(self):
        return f"VBytes({self.t.s})"


class VStr(Value):
    kind = K_STR

    def __init__(self, t: T, lit=None):
        assert t.sort == STR, t
        self.t = t
        self.lit = lit         # python str if this is a literal

    def __repr__(self):
        return f"VStr({self.lit!r})" if self.lit is not None else f"VStr({self.t.s})"


class VAny(Value):
    kind = K_ANY

    def __init__(self, t: T, tag=None):
        self.t = t
        self.tag = tag
        if tag:
            self.kind = KPrim("Any:" + tag, INT)


class VNoneT(Value):
    kind = K_NONE

    def __repr__(self):
        return "VNone"


VNone = VNoneT()


class VRef(Value):
    def __init__(self, t: T, cls: str, exact=False):
        assert t.sort == INT
        self.t = t
        self.cls = cls          # static class name (the object may be of a subclass unless exact)
        self.exact = exact
        self.kind = KRef(cls)

    def __repr__(self):
        return f"VRef({self.cls}:{self.t.s})"


class VOpt(Value):
    def __init__(self, isnone: T, inner: Value):
        self.isnone = isnone
        self.inner = inner
        self.kind = KOpt(inner.kind)

    def __repr__(self):
        return f"VOpt({self.isnone.s}? {self.inner!r})"


class VTuple(Value):
    def __init__(self, items):
        self.items = list(items)
        self.kind = KTuple([i.kind for i in self.items])

    def __repr__(self):
        return f"VTuple({self.items!r})"


class VList(Value):
    """Reference to a heap list."""

    def __init__(self, t: T, elem: Kind):
        self.t = t
        self.elem = elem
        self.kind = KList(elem)

    def __repr__(self):
        return f"VList({self.t.s}:{self.elem!r})"


class VDeque(Value):
    def __init__(self, t: T, elem: Kind):
        self.t = t
        self.elem = elem
        self.kind = KDeque(elem)


class VSet(Value):
    def __init__(self, t: T, elem: Kind):
        self.t = t
        self.elem = elem
        self.kind = KSet(elem)


class VSetv(Value):
    """a pure (mathematical) set of ints: characteristic array (Array Int Bool); spec level only"""
    kind = KPrim("setv", "(Array Int Bool)")

    def __init__(self, t: T):
        self.t = t


class VDict(Value):
    def __init__(self, t: T, k: Kind, v: Kind):
        self.t = t
        self.k = k
        self.v = v
        self.kind = KDict(k, v)

    def __repr__(self):
        return f"VDict({self.t.s})"


class VSeq(Value):
    """An immutable pure sequence value (spec-level, or a list snapshot such as list(d.values()))."""

    def __init__(self, t: T, elem: Kind):
        self.t = t
        self.elem = elem
        self.kind = KList(elem)


class VPy(Value):
    """A python-level constant object: module, class, function, bound method, builtin."""
    kind = None

    def __init__(self, what: str, obj=None, extra=None):
        self.what = what       # 'module' | 'class' | 'func' | 'bound' | 'builtin' | 'extclass' | 'specfn' | 'const'
        self.obj = obj
        self.extra = extra

    def __repr__(self):
        return f"VPy({self.what},{self.obj!r})"


class VExc(Value):
    def __init__(self, cls: str, args=None, origin=None):
        self.cls = cls
        self.args = args or []
        self.origin = origin     # text describing where it was raised
        self.kind = KRef(cls)

    def __repr__(self):
        return f"VExc({self.cls} @ {self.origin})"


def to_comps(v: Value, k: Kind, default):
    """Flatten value v (already of a kind compatible with k) to heap components.
    default(sort) gives an arbitrary term for don't-care components."""
    if isinstance(k, KPrim):
        if isinstance(v, VBool) and k is K_INT:
            from .smt import Ite
            return [Ite(v.t, I(1), I(0))]
        if not hasattr(v, "t"):
            from .state import Unsupported
            raise Unsupported(f"a value of kind {getattr(v, 'kind', v)!r} stored where {k!r} is declared")
        if v.t.sort != k.sort:
            raise TypeError(f"cannot store {v!r} as {k!r}")
        return [v.t]
    if isinstance(k, KNone):
        return []
    if isinstance(k, KSeq):
        return [v.t]
    if isinstance(k, (KRef, KList, KDeque, KSet, KDict)):
        if not hasattr(v, "t"):
            raise TypeError(f"cannot store {v!r} as {k!r}")
        return [v.t]
    if isinstance(k, KOpt):
        if v is VNone:
            return [TRUE] + [default(so) for _, so in layout(k.inner)]
        if isinstance(v, VOpt):
            return [v.isnone] + to_comps(v.inner, k.inner, default)
        return [FALSE] + to_comps(v, k.inner, default)
    if isinstance(k, KTuple):
        assert isinstance(v, VTuple) and len(v.items) == len(k.items), (v, k)
        out = []
        for it, ik in zip(v.items, k.items):
            out += to_comps(it, ik, default)
        return out
    raise TypeError((v, k))


def from_comps(k: Kind, comps):
    """Inverse of to_comps; consumes from the list `comps` (a list of T)."""
    comps = list(comps)

    def take(kk):
        if isinstance(kk, KPrim):
            t = comps.pop(0)
            if kk.name.startswith("Any"):
                return VAny(t, kk.name[4:] or None)
            return {INT: VInt, BOOL: VBool, SEQI: VBytes, STR: VStr, REAL: VFloat}[kk.sort](t)
        if isinstance(kk, KNone):
            return VNone
        if isinstance(kk, KRef):
            return VRef(comps.pop(0), kk.cls)
        if isinstance(kk, KSeq):
            return VSeq(comps.pop(0), kk.elem)
        if isinstance(kk, KList):
            return VList(comps.pop(0), kk.elem)
        if isinstance(kk, KDeque):
            return VDeque(comps.pop(0), kk.elem)
        if isinstance(kk, KSet):
            return VSet(comps.pop(0), kk.elem)
        if isinstance(kk, KDict):
            return VDict(comps.pop(0), kk.k, kk.v)
        if isinstance(kk, KOpt):
            n = comps.pop(0)
            inner = take(kk.inner)
            if n.s == "false":
                return inner
            return VOpt(n, inner)
        if isinstance(kk, KTuple):
            return VTuple([take(i) for i in kk.items])
        raise TypeError(kk)

    return take(k)
