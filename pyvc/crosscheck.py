"""CPython cross-check of proved contracts (thorough tier; a guard for the verifier, not a way to decide a property).

For every contract whose obligations were all discharged, random inputs are built as real python objects, the REAL function
from $REPO/src is called and the contract (requires / ensures / raises) is evaluated natively by the replay evaluator of
pyvc.native.  The SMT proof says the contract holds for EVERY input that satisfies the preconditions, so a native violation on
any sample means that the verifier, one of its models of the builtins, or the native evaluator is wrong: it is reported as a
checker error (exit 3), never as a property violation.  Contracts whose parameters have no native constructor (tables,
sockets, ghost state) are skipped and counted."""
from __future__ import annotations

import json
import os
import subprocess
import sys
import tempfile

from .native import VERIF


def cross_check_native(names, spec_modules, n=120, seed=20260924, timeout=900):
    from .spec import REG
    from .front import repo_root
    jobs = []
    for name in names:
        c = REG.contracts.get(name)
        if c is None or c.trusted or "@" in name:
            continue
        jobs.append({"name": name, "params": {k: repr(v) for k, v in c.params.items()},
                     "ghost": {k: repr(v) for k, v in c.ghost.items()},
                     "requires": [cl.expr for cl in c.requires + c.assume_pre],
                     "ensures": [[cl.label, cl.expr] for cl in c.ensures],
                     "raises": [[x.exc, x.when, x.mode] for x in c.raises],
                     "returns": repr(c.returns) if c.returns is not None else None})
    job = {"contracts": jobs, "macros": {k: [v[0], v[1]] for k, v in REG.macros.items()}, "n": n, "seed": seed,
           "specs": list(spec_modules), "repo": repo_root()}
    with tempfile.NamedTemporaryFile("w", suffix=".json", delete=False) as f:
        json.dump(job, f, default=str)
        jp = f.name
    try:
        env = dict(os.environ)
        env["PYTHONPATH"] = os.path.join(repo_root(), "src") + os.pathsep + VERIF
        env["TZ"] = "UTC"
        p = subprocess.run([sys.executable, "-m", "pyvc.native", "--crosscheck", jp], capture_output=True, text=True,
                           timeout=timeout, env=env, cwd=VERIF)
        lines = p.stdout.strip().splitlines()
        if not lines:
            return {"error": "no output: " + p.stderr[-600:]}
        try:
            per = json.loads(lines[-1])
        except json.JSONDecodeError:
            return {"error": "unparsable output: " + lines[-1][:300]}
    except subprocess.TimeoutExpired:
        return {"error": f"cross-check did not finish within {timeout} s"}
    finally:
        os.unlink(jp)
    exercised = {k: v for k, v in per.items() if v["ran"] > 0}
    return {"samples_per_contract": n, "seed": seed, "contracts_offered": len(jobs),
            "contracts_exercised": len(exercised),
            "samples_run": sum(v["ran"] for v in per.values()),
            "samples_outside_precondition": sum(v["pre_false"] for v in per.values()),
            "samples_hitting_machine_limits": sum(v.get("resource", 0) + v.get("timeouts", 0) for v in per.values()),
            "contracts_without_native_constructor": sorted(k for k, v in per.items() if v["ran"] == 0 and v["pre_false"] == 0),
            "contracts_never_inside_precondition": sorted(k for k, v in per.items() if v["ran"] == 0 and v["pre_false"] > 0),
            "disagreements": [{"contract": k, **(v["first"] or {}), "count": v["violated"]} for k, v in per.items() if v["violated"]],
            "per_contract": {k: [v["ran"], v["pre_false"], v["no_replay"]] for k, v in exercised.items()}}
