"""Sidecar specification registry: class models, contracts, loop specs, spec functions,
macros and lemmas.  Spec files under /verif/specs call these functions at import time."""
from __future__ import annotations

from collections import OrderedDict

from .values import parse_kind


class Model:
    def __init__(self, name, fields, builtin=False, bases=(), dynamic=None, open_attrs=False):
        self.name = name
        # open_attrs: attribute names outside the model may exist on the object (hasattr with a literal unknown name is an
        # uninterpreted predicate instead of an unsupported construct)
        self.open_attrs = open_attrs
        self.fields = OrderedDict((k, parse_kind(v)) for k, v in (fields or {}).items())
        self.builtin = builtin
        self.bases = list(bases)
        self.dynamic = OrderedDict((k, parse_kind(v)) for k, v in (dynamic or {}).items())


class Clause:
    def __init__(self, label, expr):
        self.label = label
        self.expr = expr

    def __repr__(self):
        return f"{self.label}: {self.expr}"


def _clauses(items, prefix):
    out = []
    for i, it in enumerate(items or []):
        if isinstance(it, Clause):
            out.append(it)
        elif isinstance(it, tuple):
            out.append(Clause(it[0], it[1]))
        else:
            out.append(Clause(f"{prefix}{i + 1}", it))
    return out


class Raise:
    def __init__(self, exc, when="True", mode="may"):
        assert mode in ("may", "iff", "only_if")
        self.exc = exc
        self.when = when
        self.mode = mode     # iff: raised exactly when `when`; only_if: raised => when; may: unconstrained


class Contract:
    def __init__(self, qualname, params, returns=None, requires=(), ensures=(), raises=(),
                 modifies=(), trusted=False, inline=False, allocates=False, ghost=None,
                 hints=(), props=(), ensures_exc=None, note="", pure=False, assume_pre=(),
                 entry_facts=(), checks_only=False, ghost_modifies=(), ghost_ensures=(), ghost_out=None,
                 ghost_ensures_exc=None, hints_for=None):
        self.qualname = qualname
        self.params = OrderedDict((k, parse_kind(v)) for k, v in params.items())
        self.returns = parse_kind(returns) if returns is not None else None
        self.requires = _clauses(requires, "pre")
        self.ensures = _clauses(ensures, "post")
        self.raises = [r if isinstance(r, Raise) else Raise(*r) for r in raises]
        self.modifies = list(modifies)
        self.trusted = trusted
        self.inline = inline
        self.allocates = allocates
        self.ghost = OrderedDict((k, parse_kind(v)) for k, v in (ghost or {}).items())
        self.hints = list(hints)
        # lemma instances needed by ONE postcondition only (label -> hints): added to the path just for that obligation,
        # so heavy lemma terms do not burden the other obligations of the function nor its call sites
        self.hints_for = {k: list(v) for k, v in (hints_for or {}).items()}
        self.props = list(props)
        self.ensures_exc = {k: _clauses(v, f"post_{k}_") for k, v in (ensures_exc or {}).items()}
        self.note = note
        self.pure = pure
        self.assume_pre = _clauses(assume_pre, "assume")
        self.entry_facts = list(entry_facts)
        self.checks_only = checks_only
        # ghost effects: part of the *definition* of a ghost log (e.g. "the sequence of calls of f"):
        # applied at call sites, not checked against the body
        self.ghost_modifies = list(ghost_modifies)
        self.ghost_ensures = _clauses(ghost_ensures, "ghost")
        # the same on exceptional exits (exception class -> clauses), e.g. "the call is logged even when it raises"
        self.ghost_ensures_exc = {k: _clauses(v, f"ghost_{k}_") for k, v in (ghost_ensures_exc or {}).items()}
        # existential witnesses named after locals of the function at its return: name -> (local, kind)
        self.ghost_out = OrderedDict((k, (v[0], parse_kind(v[1]))) for k, v in (ghost_out or {}).items())


class LoopSpec:
    def __init__(self, qualname, ordinal, invariants=(), decreases=None, modifies=(),
                 ghost=None, hints=(), havoc_locals=None, step=(), step_ret=(), local_kinds=None, post_hints=(), step_brk=(), entry_snap=None, step_back=()):
        self.qualname = qualname
        self.ordinal = ordinal
        self.invariants = _clauses(invariants, f"inv{ordinal}_")
        self.decreases = decreases
        self.modifies = list(modifies)
        self.ghost = OrderedDict((k, parse_kind(v)) for k, v in (ghost or {}).items())
        self.hints = list(hints)
        # lemma instances over the state at the END of an iteration (before the invariants are re-checked)
        self.post_hints = list(post_hints)
        self.havoc_locals = havoc_locals
        self.local_kinds = OrderedDict((k, parse_kind(v)) for k, v in (local_kinds or {}).items())
        # step clauses: checked at the end of every iteration (back edge, break, return inside the loop);
        # prev(e) is e evaluated at the start of that iteration
        self.step = _clauses(step, f"step{ordinal}_")
        self.step_ret = _clauses(step_ret, f"stepret{ordinal}_")     # only at `return` inside the loop
        self.step_brk = _clauses(step_brk, f"stepbrk{ordinal}_")     # only at `break`
        self.step_back = _clauses(step_back, f"stepback{ordinal}_")  # only at back edges (end of body / continue)
        # names bound to the values of spec expressions at LOOP ENTRY (usable in the invariants/steps of this loop and of
        # loops nested in it): e.g. {"n1": "len(xs)"}
        self.entry_snap = OrderedDict(entry_snap or {})
        # a stated reason why the body of this `for` loop cannot mutate the list it iterates over (an aliasing precondition
        # that the contract language cannot express): the stability of the iterated list is then ASSUMED and reported,
        # instead of being an obligation of every iteration
        self.assume_iter_stable = None


class Registry:
    def __init__(self):
        self.models: dict[str, Model] = {}
        self.contracts: dict[str, Contract] = {}
        self.loops: dict[tuple, LoopSpec] = {}
        self.specfns: dict[str, object] = {}
        self.macros: dict[str, tuple] = {}
        self.lemmas: dict[str, object] = {}
        self.inline: set[str] = set()
        self.assumptions: list[str] = []
        self.exc_parents: dict[str, str] = {}
        self.lemma_obs: dict[str, dict] = {}
        self.globals: dict[str, object] = {}
        self.regions: dict[tuple, dict] = {}
        self.inline_ctor: set[str] = set()
        self.flags: dict[str, bool] = {}
        self.obj_invariants: dict[str, str] = {}
        self.struct_facts: dict[str, str] = {}
        self.interference: dict[tuple, dict] = {}     # switches for known-finding exclusions (see driver)
        self.kind_hints: dict = {}

    # the functions below are what spec files use -------------------------------------
    def model(self, name, fields=None, builtin=False, bases=(), dynamic=None, open_attrs=None):
        if name in self.models:
            m = self.models[name]
            if open_attrs is not None:
                m.open_attrs = open_attrs
            for k, v in (fields or {}).items():
                m.fields[k] = parse_kind(v)
            for k, v in (dynamic or {}).items():
                m.dynamic[k] = parse_kind(v)
            return m
        m = Model(name, fields, builtin, bases, dynamic, bool(open_attrs))
        self.models[name] = m
        return m

    def contract(self, qualname, **kw):
        c = Contract(qualname, **kw)
        self.contracts[qualname] = c
        return c

    def loop(self, qualname, ordinal, **kw):
        ls = LoopSpec(qualname, ordinal, **kw)
        self.loops[(qualname, ordinal)] = ls
        return ls

    def specfn(self, name):
        def deco(f):
            self.specfns[name] = f
            return f
        return deco

    def macro(self, name, params, expr):
        self.macros[name] = (list(params), expr)

    def lemma(self, name):
        def deco(f):
            self.lemmas[name] = f
            return f
        return deco

    def lemma_ob(self, name, vars, assumes=(), shows=(), props=(), hints=(), note=""):
        """A lemma over spec functions/contracts, proved once as its own obligation set."""
        self.lemma_obs[name] = dict(name=name, vars=OrderedDict((k, parse_kind(v)) for k, v in vars.items()),
                                    assumes=_clauses(assumes, "assume"), shows=_clauses(shows, "show"),
                                    props=list(props), hints=list(hints), note=note)

    def region(self, qualname, stmt_type, ordinal, assigns, note=""):
        """Abstract the `ordinal`-th statement of type `stmt_type` (If/For/While/Try, source order) of a
        function: it only assigns the given locals (name -> kind) to arbitrary values, has no heap effect
        and raises nothing.  Checked syntactically (only Name targets, all declared); listed as assumption."""
        self.regions[(qualname, stmt_type, ordinal)] = dict(
            assigns=OrderedDict((k, parse_kind(v)) for k, v in assigns.items()), note=note)

    def interfere(self, owner, field, lock_field, kind):
        """Rely condition of a lock-protected field (Owicki-Gries, lock-restricted): whenever the field is read without
        holding <obj>.<lock_field>, and whenever that lock is acquired, another thread may have applied `kind`
        ('append': value := value ++ arbitrary; 'drop-prefix': value := value[n:] for an arbitrary n)."""
        self.interference[(owner, field)] = dict(lock=lock_field, kind=kind)

    def object_invariant(self, cls, expr):
        """A class invariant (established by __init__, preserved by every method that writes the fields - both proved -
        and no other writers): assumed for every object of the class read from the heap or received as an argument."""
        self.obj_invariants[cls] = expr

    def struct_fact(self, cls, expr):
        """A structural fact about the objects of a class that no method can break (e.g. two container attributes that
        are assigned once, in __init__, to new containers are distinct objects): assumed for every object of the class,
        also inside the class' own methods (not inside __init__).  Must be backed by a ground (AST) obligation."""
        self.struct_facts[cls] = expr

    def global_value(self, name, kind):
        """A module-level object of the package modelled as an (arbitrary, pre-existing) value of `kind`."""
        self.globals[name] = parse_kind(kind)

    def inline_fn(self, *qualnames):
        self.inline.update(qualnames)

    def assume(self, text):
        """Record an unchecked assumption (listed in every evidence file that loads this spec)."""
        if text not in self.assumptions:
            self.assumptions.append(text)

    def exception(self, name, parent):
        self.exc_parents[name] = parent


REG = Registry()
