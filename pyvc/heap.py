"""Functional heap: one SMT array per (model class, field, component)."""
from __future__ import annotations

from .smt import (T, INT, BOOL, SEQI, STR, REAL, TRUE, FALSE, I, And, Or, Not, Eq, Lt, Le, Add,
                  select, store, arr, seq_empty)
from .state import State, Unsupported
from .values import (Kind, KPrim, KRef, KOpt, KList, KDeque, KSet, KDict, KTuple, KNone, K_INT,
                     layout, elem_sort, to_comps, from_comps, VRef, VOpt, VNone, VList, VDict,
                     VDeque, VSet, VInt, Value, parse_kind)


class HeapMixin:
    # self.prog, self.reg, self.decls are provided by Exec

    # ---- class helpers --------------------------------------------------------------
    def class_names_mro(self, cls_name: str):
        """Names along the MRO: source classes first, then model bases (builtins)."""
        out = []
        try:
            ci = self.prog.cls(cls_name)
            out = [c.name for c in ci.mro()]
        except KeyError:
            out = [cls_name]
        # model-declared bases (for builtin/external classes)
        i = 0
        while i < len(out):
            m = self.reg.models.get(out[i])
            if m:
                for b in m.bases:
                    if b not in out:
                        out.append(b)
            i += 1
        return out

    def field_decl(self, cls_name: str, field: str):
        """-> (owner model name, kind, is_dynamic) or None"""
        for n in self.class_names_mro(cls_name):
            m = self.reg.models.get(n)
            if m is None:
                continue
            if field in m.fields:
                return (n, m.fields[field], False)
            if field in m.dynamic:
                return (n, m.dynamic[field], True)
        return None

    def class_id(self, name: str) -> T:
        ids = self.__dict__.setdefault("_class_ids", {})
        if name not in ids:
            ids[name] = len(ids) + 1
        return I(ids[name])

    def subclass_names(self, cls_name: str):
        try:
            ci = self.prog.cls(cls_name)
        except KeyError:
            return [cls_name]
        return [ci.name] + [c.name for c in ci.all_subclasses()]

    def type_of(self, st: State, ref: T) -> T:
        a = self.heap_array(st, "$type", INT, INT)
        return select(a, ref)

    def is_instance_term(self, st: State, ref: T, cls_name: str) -> T:
        ty = self.type_of(st, ref)
        names = self.subclass_names(cls_name)
        return Or(*[Eq(ty, self.class_id(n)) for n in names])

    # ---- arrays ------------------------------------------------------------------------
    def heap_array(self, st: State, key: str, ksort: str, vsort: str) -> T:
        if key not in st.heap:
            # same initial constant on every path: declared once per key
            import re as _re
            pfx = getattr(self, "stale_prefix", None)
            name = "H0$" + (pfx or "") + _re.sub(r"[^A-Za-z0-9_$.!]", "_", key)
            t = self.decls.const(name, arr(ksort, vsort))
            if not pfx:             # (a stale run of a memoised function reads an earlier, unrelated heap)
                self.initial_heap.setdefault(key, t)
            st.heap[key] = t
        return st.heap[key]

    def arbitrary(self, sort: str, base="any") -> T:
        return self.decls.fresh(base, sort)

    # ---- object fields --------------------------------------------------------------------
    def read_field(self, st: State, obj: VRef, field: str) -> Value:
        d = self.field_decl(obj.cls, field)
        if d is None:
            raise Unsupported(f"no model for field {obj.cls}.{field}")
        owner, kind, dyn = d
        comps = []
        for suf, so in layout(kind):
            a = self.heap_array(st, f"{owner}.{field}{suf}", INT, so)
            comps.append(select(a, obj.t))
        v = from_comps(kind, comps)
        self.add_ref_facts(st, v)
        return v

    def container_tag(self, v) -> T:
        """type tag of a container object: category + element sort (typed heap: a list is never a deque/dict)"""
        if isinstance(v, VDict):
            return self.class_id(f"$dict:{elem_sort(v.k)}:{'/'.join(so for _, so in layout(v.v))}")
        cat = {VList: "list", VDeque: "deque", VSet: "set"}[type(v)]
        return self.class_id(f"${cat}:{elem_sort(v.elem)}")

    def add_ref_facts(self, st: State, v: Value):
        """Heap closure: references read from the heap denote allocated objects."""
        if isinstance(v, (VList, VDict, VDeque, VSet)):
            st.pc.append(Eq(self.type_of(st, v.t), self.container_tag(v)))
        elif isinstance(v, VOpt) and isinstance(v.inner, (VList, VDict, VDeque, VSet)):
            st.pc.append(Or(v.isnone, Eq(self.type_of(st, v.inner.t), self.container_tag(v.inner))))
        if isinstance(v, VRef) and v.cls in self.reg.obj_invariants and not self.verifying.startswith(v.cls + "."):
            from .speceval import SpecEnv
            key = ("inv", v.t.s, id(st.heap.get(v.cls)))
            if not getattr(self, "_in_inv", False):
                self._in_inv = True
                try:
                    st.pc.append(self.spec_bool(SpecEnv(st, {"self": v}), self.reg.obj_invariants[v.cls]))
                finally:
                    self._in_inv = False
        if isinstance(v, VRef) and v.cls in self.reg.struct_facts and not self.verifying.split("#")[0].endswith(".__init__"):
            from .speceval import SpecEnv
            if not getattr(self, "_in_inv", False):
                self._in_inv = True
                try:
                    st.pc.append(self.spec_bool(SpecEnv(st, {"self": v}), self.reg.struct_facts[v.cls]))
                finally:
                    self._in_inv = False
        if isinstance(v, (VRef, VList, VDict, VDeque, VSet)):
            st.pc.append(And(Lt(I(0), v.t), Lt(v.t, st.alloc)))
            if isinstance(v, VRef) and not self.reg.models.get(v.cls, None) is None and self.reg.models[v.cls].builtin:
                return
            if isinstance(v, VRef):
                names = self.subclass_names(v.cls)
                if len(names) <= 12:
                    st.pc.append(self.is_instance_term(st, v.t, v.cls))
        elif isinstance(v, VOpt):
            inner = v.inner
            if isinstance(inner, (VRef, VList, VDict, VDeque, VSet)):
                st.pc.append(Or(v.isnone, And(Lt(I(0), inner.t), Lt(inner.t, st.alloc))))

    def has_dyn(self, st: State, obj: VRef, field: str) -> T:
        d = self.field_decl(obj.cls, field)
        if d is None or not d[2]:
            raise Unsupported(f"{obj.cls}.{field} is not a dynamic attribute in the model")
        a = self.heap_array(st, f"{d[0]}.{field}$has", INT, BOOL)
        return select(a, obj.t)

    def write_field(self, st: State, obj: VRef, field: str, value: Value) -> State:
        d = self.field_decl(obj.cls, field)
        if d is None:
            raise Unsupported(f"no model for field {obj.cls}.{field} (write)")
        owner, kind, dyn = d
        st = st.copy()
        comps = to_comps(value, kind, lambda so: self.arbitrary(so, "dc"))
        for (suf, so), c in zip(layout(kind), comps):
            key = f"{owner}.{field}{suf}"
            a = self.heap_array(st, key, INT, so)
            st.heap[key] = store(a, obj.t, c)
        if dyn:
            key = f"{owner}.{field}$has"
            a = self.heap_array(st, key, INT, BOOL)
            st.heap[key] = store(a, obj.t, TRUE)
        return st

    def del_dyn(self, st: State, obj: VRef, field: str) -> State:
        d = self.field_decl(obj.cls, field)
        st = st.copy()
        key = f"{d[0]}.{field}$has"
        a = self.heap_array(st, key, INT, BOOL)
        st.heap[key] = store(a, obj.t, FALSE)
        return st

    def havoc_field(self, st: State, obj_t: T, cls: str, field: str) -> State:
        d = self.field_decl(cls, field)
        if d is None:
            raise Unsupported(f"no model for field {cls}.{field} (havoc)")
        owner, kind, dyn = d
        st = st.copy()
        for suf, so in layout(kind) + ([("$has", BOOL)] if dyn else []):
            key = f"{owner}.{field}{suf}"
            a = self.heap_array(st, key, INT, so)
            st.heap[key] = store(a, obj_t, self.arbitrary(so, f"hv_{field}"))
        return st

    def havoc_whole_field(self, st: State, cls: str, field: str) -> State:
        d = self.field_decl(cls, field)
        if d is None:
            raise Unsupported(f"no model for field {cls}.{field} (havoc*)")
        owner, kind, dyn = d
        st = st.copy()
        for suf, so in layout(kind) + ([("$has", BOOL)] if dyn else []):
            key = f"{owner}.{field}{suf}"
            self.heap_array(st, key, INT, so)
            st.heap[key] = self.arbitrary(arr(INT, so), f"hvall_{field}")
        return st

    # ---- open attribute store (objects whose attribute set is not fixed by the class) ---------
    # three heap arrays indexed by object, then by attribute NAME: present?, is None?, value token.  A computed-name
    # setattr is a store, a computed-name getattr a select: the store carries values.
    OPEN_KEYS = (("$open.has", BOOL), ("$open.none", BOOL), ("$open.val", INT))

    def open_row(self, st: State, key: str, so: str, obj_t: T) -> T:
        return select(self.heap_array(st, key, INT, arr(STR, so)), obj_t)

    def open_read(self, st: State, obj_t: T, name_t: T):
        """-> (has, isnone, token) of attribute `name` of object `obj`"""
        return tuple(select(self.open_row(st, key, so, obj_t), name_t) for key, so in self.OPEN_KEYS)

    def open_write(self, st: State, obj_t: T, name_t: T, isnone: T, tok: T) -> State:
        st = st.copy()
        for (key, so), v in zip(self.OPEN_KEYS, (TRUE, isnone, tok)):
            a = self.heap_array(st, key, INT, arr(STR, so))
            st.heap[key] = store(a, obj_t, store(select(a, obj_t), name_t, v))
        return st

    def open_havoc(self, st: State, obj_t=None) -> State:
        st = st.copy()
        for key, so in self.OPEN_KEYS:
            a = self.heap_array(st, key, INT, arr(STR, so))
            if obj_t is None:
                st.heap[key] = self.arbitrary(arr(INT, arr(STR, so)), "hvopen")
            else:
                st.heap[key] = store(a, obj_t, self.arbitrary(arr(STR, so), "hvopen1"))
        return st

    # ---- allocation -------------------------------------------------------------------------
    def alloc_ref(self, st: State) -> tuple[State, T]:
        st = st.copy()
        r = self.decls.fresh("new", INT)
        st.pc.append(Eq(r, st.alloc))
        st.alloc = Add(r, I(1))
        return st, r

    def alloc_obj(self, st: State, cls: str) -> tuple[State, VRef]:
        st, r = self.alloc_ref(st)
        a = self.heap_array(st, "$type", INT, INT)
        st.heap["$type"] = store(a, r, self.class_id(cls))
        return st, VRef(r, cls, exact=True)

    # ---- containers ---------------------------------------------------------------------------
    def _seq_key(self, elem: Kind, what="list"):
        if not isinstance(what, str):
            what = "deque" if isinstance(what, VDeque) else "list"
        so = elem_sort(elem)
        return f"${what}${so}", f"(Seq {so})"

    def seq_items(self, st: State, c) -> T:
        key, sort = self._seq_key(c.elem, c)
        return select(self.heap_array(st, key, INT, sort), c.t)

    def set_seq_items(self, st: State, c, items: T) -> State:
        key, sort = self._seq_key(c.elem, c)
        st = st.copy()
        a = self.heap_array(st, key, INT, sort)
        st.heap[key] = store(a, c.t, items)
        return st

    def new_list(self, st: State, elem: Kind, items: T = None):
        st, r = self.alloc_ref(st)
        v = VList(r, elem)
        self._tag(st, v)
        key, sort = self._seq_key(elem)
        if items is None:
            items = seq_empty(sort)
        st = self.set_seq_items(st, v, items)
        return st, v

    def set_content(self, st: State, v: VSet) -> T:
        so = elem_sort(v.elem)
        return select(self.heap_array(st, f"$set${so}", INT, f"(Array {so} Bool)"), v.t)

    def set_set_content(self, st: State, v: VSet, content: T) -> State:
        so = elem_sort(v.elem)
        st = st.copy()
        a = self.heap_array(st, f"$set${so}", INT, f"(Array {so} Bool)")
        st.heap[f"$set${so}"] = store(a, v.t, content)
        return st

    def new_set(self, st: State, elem: Kind, content: T):
        st, r = self.alloc_ref(st)
        v = VSet(r, elem)
        self._tag(st, v)
        return self.set_set_content(st, v, content), v

    def _tag(self, st: State, v):
        a = self.heap_array(st, "$type", INT, INT)
        st.heap["$type"] = store(a, v.t, self.container_tag(v))

    def deque_maxlen(self, st: State, d: VDeque) -> T:
        return select(self.heap_array(st, "$deque$maxlen", INT, INT), d.t)

    def new_deque(self, st: State, elem: Kind, maxlen: T):
        st, r = self.alloc_ref(st)
        v = VDeque(r, elem)
        self._tag(st, v)
        key, sort = self._seq_key(elem, "deque")
        st = self.set_seq_items(st, v, seq_empty(sort))
        a = self.heap_array(st, "$deque$maxlen", INT, INT)
        st.heap["$deque$maxlen"] = store(a, r, maxlen)
        return st, v

    # dicts: domain array + one value array per component of the value kind
    def _dict_keys(self, d: VDict):
        ks = elem_sort(d.k)
        dom = f"$dict$dom${ks}${repr(d.v)}"
        vals = [(f"$dict$val${ks}${repr(d.v)}{suf}", so) for suf, so in layout(d.v)]
        return ks, dom, vals

    def dict_dom(self, st: State, d: VDict) -> T:
        ks, dom, _ = self._dict_keys(d)
        return select(self.heap_array(st, dom, INT, arr(ks, BOOL)), d.t)

    def dict_has(self, st: State, d: VDict, k: T) -> T:
        return select(self.dict_dom(st, d), k)

    def dict_get(self, st: State, d: VDict, k: T) -> Value:
        ks, dom, vals = self._dict_keys(d)
        comps = []
        for key, so in vals:
            a = select(self.heap_array(st, key, INT, arr(ks, so)), d.t)
            comps.append(select(a, k))
        v = from_comps(d.v, comps)
        self.add_ref_facts(st, v)
        return v

    def dict_set(self, st: State, d: VDict, k: T, v: Value) -> State:
        ks, dom, vals = self._dict_keys(d)
        st = st.copy()
        da = self.heap_array(st, dom, INT, arr(ks, BOOL))
        st.heap[dom] = store(da, d.t, store(select(da, d.t), k, TRUE))
        comps = to_comps(v, d.v, lambda so: self.arbitrary(so, "dc"))
        for (key, so), c in zip(vals, comps):
            a = self.heap_array(st, key, INT, arr(ks, so))
            st.heap[key] = store(a, d.t, store(select(a, d.t), k, c))
        return st

    def dict_del(self, st: State, d: VDict, k: T) -> State:
        ks, dom, vals = self._dict_keys(d)
        st = st.copy()
        da = self.heap_array(st, dom, INT, arr(ks, BOOL))
        st.heap[dom] = store(da, d.t, store(select(da, d.t), k, FALSE))
        return st

    def new_dict(self, st: State, k: Kind, v: Kind):
        st, r = self.alloc_ref(st)
        d = VDict(r, k, v)
        self._tag(st, d)
        ks, dom, vals = self._dict_keys(d)
        da = self.heap_array(st, dom, INT, arr(ks, BOOL))
        empty = T(f"((as const {arr(ks, BOOL)}) false)", arr(ks, BOOL))
        st.heap[dom] = store(da, r, empty)
        return st, d
