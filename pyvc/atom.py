"""Atomicity obligations (DESIGN 2.9): lock coverage of read-modify-write regions on the AST, and a
deterministic line-granularity scheduler used to replay a failed obligation as a concrete schedule."""
from __future__ import annotations

import ast
import sys
import threading


def accesses(fn: ast.FunctionDef, field: str):
    """[(lineno, is_store, [lock attrs held lexically])] for every self.<field> in fn"""
    out = []

    def walk(node, held):
        if isinstance(node, ast.With):
            locks = []
            for it in node.items:
                ce = it.context_expr
                if isinstance(ce, ast.Attribute) and isinstance(ce.value, ast.Name) and ce.value.id == "self":
                    locks.append(ce.attr)
            for ch in node.body:
                walk(ch, held + locks)
            return
        if isinstance(node, ast.Attribute) and node.attr == field and isinstance(node.value, ast.Name) \
                and node.value.id == "self":
            out.append((node.lineno, isinstance(node.ctx, (ast.Store, ast.Del)), list(held)))
        if isinstance(node, ast.AugAssign) and isinstance(node.target, ast.Attribute) and node.target.attr == field:
            out.append((node.lineno, False, list(held)))      # the implicit read of +=
        for ch in ast.iter_child_nodes(node):
            walk(ch, held)
    for st in fn.body:
        walk(st, [])
    return out


def lock_attrs_of_class(ci):
    """attributes assigned from threading.Lock()/RLock() in __init__"""
    out = set()
    init = ci.methods.get("__init__")
    if init is None:
        return out
    for n in ast.walk(init.node):
        if isinstance(n, ast.Assign) and isinstance(n.value, ast.Call):
            f = ast.unparse(n.value.func)
            if f in ("threading.Lock", "threading.RLock", "Lock", "RLock"):
                for t in n.targets:
                    if isinstance(t, ast.Attribute) and isinstance(t.value, ast.Name) and t.value.id == "self":
                        out.add(t.attr)
    return out


def check_rmw_atomic(prog, cls_name, method, field):
    """AT1: every access of self.<field> in <method> lies inside `with self.<lock>` for one lock of the class.
    -> (ok, detail, witness)"""
    ci = prog.cls(cls_name)
    fi = ci.methods[method]
    acc = accesses(fi.node, field)
    locks = lock_attrs_of_class(ci)
    if not acc:
        return False, f"{cls_name}.{method} does not access self.{field}", None
    common = None
    outside = []
    for ln, st, held in acc:
        h = set(held) & locks
        if not h:
            outside.append(ln)
        common = h if common is None else (common & h)
    if outside or not common:
        return False, (f"accesses of self.{field} outside any lock-protected region at lines {sorted(set(outside))} "
                       f"(locks of the class: {sorted(locks)})"), {"lines": sorted(set(ln for ln, _, _ in acc)),
                                                                    "outside": sorted(set(outside))}
    # all accesses hold the lock - but they must also lie in ONE atomic region: a value of the field carried in a local
    # from one `with` block into a store of the field in another block is a read-modify-write that other threads can
    # interleave with (seed C16-16: "roll the counter back" after a failed join)
    regions = []          # (With node, [stmts])
    def walk(node):
        if isinstance(node, ast.With) and any(isinstance(it.context_expr, ast.Attribute) and it.context_expr.attr in common
                                              for it in node.items):
            regions.append(node)
            return
        for ch in ast.iter_child_nodes(node):
            walk(ch)
    walk(fi.node)
    def mentions_field(n):
        return any(isinstance(x, ast.Attribute) and x.attr == field and isinstance(x.value, ast.Name) and x.value.id == "self"
                   for x in ast.walk(n))
    touching = [r for r in regions if mentions_field(r)]
    if len(touching) > 1:
        for a in touching:
            tainted = set()
            for n in ast.walk(a):
                if isinstance(n, (ast.Assign, ast.AnnAssign)) and n.value is not None and mentions_field(n.value):
                    tgts = n.targets if isinstance(n, ast.Assign) else [n.target]
                    tainted |= {t.id for t in tgts if isinstance(t, ast.Name)}
            for b in touching:
                if b is a:
                    continue
                for n in ast.walk(b):
                    if isinstance(n, (ast.Assign, ast.AugAssign)):
                        tgts = n.targets if isinstance(n, ast.Assign) else [n.target]
                        if any(isinstance(t, ast.Attribute) and t.attr == field for t in tgts) and \
                                any(isinstance(x, ast.Name) and x.id in tainted for x in ast.walk(n.value)):
                            return False, (f"self.{field} is read in the atomic region at line {a.lineno} and a value derived "
                                           f"from that read is stored back in ANOTHER atomic region at line {n.lineno}: the "
                                           f"read-modify-write is not atomic (identifiers drawn in between are handed out again)"), \
                                {"read_region": a.lineno, "write_line": n.lineno}
        return None, (f"self.{field} is accessed in {len(touching)} separate atomic regions of {cls_name}.{method}; "
                      f"the one-region rule does not apply to this shape"), None
    return True, f"all {len(acc)} accesses under self.{sorted(common)[0]}, in one atomic region", None


# ---- deterministic line scheduler (replay only) ------------------------------------------------------

class LineScheduler:
    """Runs callables in real threads but lets exactly one advance, one source line of the traced code
    objects at a time, in the order given by `schedule` (a list of thread indices)."""

    def __init__(self, funcs, code_objects):
        self.funcs = funcs
        self.codes = set(code_objects)
        self.n = len(funcs)
        self.go = [threading.Semaphore(0) for _ in funcs]
        self.at_line = threading.Semaphore(0)
        self.done = [False] * self.n
        self.results = [None] * self.n
        self.errors = [None] * self.n

    def _tracer(self, idx):
        def local(frame, event, arg):
            if event == "line" and frame.f_code in self.codes:
                self.at_line.release()
                self.go[idx].acquire()
            return local

        def glob(frame, event, arg):
            if frame.f_code in self.codes:
                return local
            return None
        return glob

    def _run(self, idx):
        sys.settrace(self._tracer(idx))
        try:
            self.results[idx] = self.funcs[idx]()
        except BaseException as e:   # noqa
            self.errors[idx] = e
        finally:
            sys.settrace(None)
            self.done[idx] = True
            self.at_line.release()

    def run(self, schedule):
        """-> (results, steps actually taken).  Threads not mentioned run to completion at the end, in order."""
        ths = [threading.Thread(target=self._run, args=(i,), daemon=True) for i in range(self.n)]
        started = [False] * self.n
        taken = []

        blocked = [False] * self.n

        def step(i):
            """let thread i run one traced line; False if it is finished or blocked (e.g. on a lock)"""
            if self.done[i]:
                return False
            if blocked[i]:
                # it was released earlier and is waiting for a lock: see whether it got to a line meanwhile
                if self.at_line.acquire(timeout=0.05):
                    blocked[i] = False
                    taken.append(i)
                    return True
                return False
            if not started[i]:
                started[i] = True
                ths[i].start()
            else:
                self.go[i].release()
            if self.at_line.acquire(timeout=0.3):
                taken.append(i)
                return True
            blocked[i] = True          # no line boundary reached: blocked on a lock held by a paused thread
            return False
        for i in schedule:
            step(i)
        guard = 0
        while not all(self.done) and guard < 2000:
            progressed = False
            for i in range(self.n):
                if not self.done[i] and step(i):
                    progressed = True
            guard += 1
            if not progressed and all(self.done[i] or blocked[i] for i in range(self.n)):
                break          # genuine deadlock of the code under test
        return list(self.results), taken


def search_schedules(make, code_objects, check, max_len=12, nthreads=2):
    """Enumerate line schedules (prefixes; the rest runs sequentially) until `check(results)` is violated.
    make() -> list of zero-argument callables on a fresh object.  -> (schedule, results) or None"""
    import itertools
    for ln in range(1, max_len + 1):
        for sched in itertools.product(range(nthreads), repeat=ln):
            funcs = make()
            res, taken = LineScheduler(funcs, code_objects).run(list(sched))
            if not check(res):
                return list(sched), res
    return None
