"""Function-by-function verification: generates the obligations of one function under contract."""
from __future__ import annotations

import os

import ast
import time

from .smt import (T, INT, BOOL, REAL, SEQI, STR, TRUE, FALSE, I, And, Or, Not, Eq, Ne, Lt, Le, Add, Implies, Ite,
                  Decls, select, arr, R)
from .state import State, Out, Obligation, Unsupported, Frame
from .values import *
from .spec import Registry, Contract
from .front import Program, FuncInfo, loops_of
from .heap import HeapMixin
from .speceval import SpecEvalMixin, SpecEnv
from .expr import ExprMixin
from .stmt import StmtMixin
from .calls import CallMixin
from . import models  # noqa: registers trusted models


class FunctionResult:
    def __init__(self, name):
        self.name = name
        self.obligations: list[Obligation] = []
        self.covers: list[Obligation] = []
        self.unsupported = None          # message if the function could not be translated
        self.paths = 0
        self.exit_kinds = {}
        self.inlined = set()
        self.auto_inlined = set()
        self.used_contracts = set()
        self.dispatch_sites = {}
        self.decls: Decls = None
        self.gen_seconds = 0.0
        self.input_terms = []            # names of input constants, for model extraction
        self.param_terms = {}
        self.observe = []
        self.regions_used = set()
        self.refine_facts = []


class Exec(HeapMixin, SpecEvalMixin, ExprMixin, StmtMixin, CallMixin):

    def __init__(self, prog: Program, reg: Registry, max_steps=200000):
        self.prog = prog
        self.reg = reg
        self.max_steps = max_steps
        self.kind_hints = getattr(reg, "kind_hints", {})
        self.merging = True
        self.reset("?")

    def frame_witness(self):
        """the arbitrary pre-existing object of this function's frame obligation (one constant per verified function, so
        that call sites can instantiate a callee's universal 'older objects are untouched' clause for exactly this object)"""
        if getattr(self, "_frame_obj", None) is None:
            self._frame_obj = self.decls.const("frame_obj$", INT)
        return self._frame_obj

    def reset(self, fname):
        self._frame_obj = None
        self.decls = Decls()
        self.initial_heap = {}
        self.obligations = []
        self.steps = 0
        self.depth = 0
        self.cur_module = None
        self.cur_func_name = fname
        self.verifying = fname
        self.loop_ordinal = {}
        self.inlined = set()
        self.auto_inlined = set()
        self.used_contracts = set()
        self.dispatch_sites = {}
        self.entry_state = None
        self.entry_names = {}
        self._class_ids = {}
        self.refine_facts = []
        self.refine_seen = set()
        self.global_vals = {}
        self.region_index = {}
        self.active_interference = ()
        self.last_locals = {}
        self.regions_used = set()
        self.global_facts = []
        self._boot_state = None

    # ---- obligations -----------------------------------------------------------------------------
    def oblige(self, st: State, goal: T, kind: str, clause: str, meta=None) -> State:
        if goal.s == "true":
            # still count it: a syntactically trivial obligation is discharged by construction
            ob = Obligation(self.verifying, clause, kind, [], TRUE, st.trace, meta)
            ob.result = dict(result="unsat", solver="trivial", seconds=0.0)
            self.obligations.append(ob)
            return st
        ob = Obligation(self.verifying, clause, kind, st.pc, goal, st.trace, meta)
        self.obligations.append(ob)
        return st.assume(goal)

    # ---- fresh symbolic values ---------------------------------------------------------------------
    def fresh_value(self, st: State, kind: Kind, name: str) -> Value:
        if isinstance(kind, KNone):
            return VNone
        if isinstance(kind, KOpt):
            n = self.decls.fresh(name + "_isnone", BOOL)
            return VOpt(n, self.fresh_value(st, kind.inner, name))
        if isinstance(kind, KTuple):
            return VTuple([self.fresh_value(st, k, f"{name}_{i}") for i, k in enumerate(kind.items)])
        exact = isinstance(kind, KRef) and kind.cls.endswith("!")
        if exact:
            kind = KRef(kind.cls[:-1])
        comps = [self.decls.fresh(name + suf, so) for suf, so in layout(kind)]
        v = from_comps(kind, comps)
        self.add_ref_facts(st, v)
        if isinstance(v, VRef):
            if exact:
                v.exact = True
                st.pc.append(Eq(self.type_of(st, v.t), self.class_id(v.cls)))
            else:
                st.pc.append(self.is_instance_term(st, v.t, v.cls))
        return v

    def intro_ghost(self, st: State, ghost: dict) -> State:
        if not ghost:
            return st
        st = st.copy()
        for n, kind in ghost.items():
            if n not in st.ghost:
                st.ghost[n] = self.fresh_value(st, kind, "gh_" + n)
        return st

    def apply_hints(self, st: State, hints, env: SpecEnv):
        """Hints instantiate lemmas / axioms explicitly: each hint is a spec expression whose value
        (a Bool) is a *proved lemma instance* (lemma functions return facts) and is added to the path."""
        for h in hints:
            try:
                v = self.spec_eval(env, h)
            except RuntimeError as e:
                if "is unbound" in str(e):
                    continue          # hint mentions a ghost that does not exist at this point
                raise
            if isinstance(v, VBool):
                st.pc.append(v.t)

    # ---- verifying one function ------------------------------------------------------------------------
    def verify(self, c: Contract) -> FunctionResult:
        t0 = time.time()
        res = FunctionResult(c.qualname)
        self.reset(c.qualname)
        try:
            fi = self.prog.func(c.qualname.split("#")[0])
        except KeyError as e:
            res.unsupported = f"function not found in source: {e}"
            res.decls = self.decls
            return res
        try:
            self._verify(c, fi, res)
        except Unsupported as u:
            res.unsupported = str(u)
        except RecursionError:
            res.unsupported = "recursion limit in the executor"
        res.obligations = self.obligations
        res.inlined = set(self.inlined)
        res.auto_inlined = set(getattr(self, 'auto_inlined', set()))
        res.used_contracts = set(self.used_contracts)
        res.dispatch_sites = dict(self.dispatch_sites)
        res.regions_used = set(self.regions_used)
        res.refine_facts = list(self.refine_facts)
        res.decls = self.decls
        res.gen_seconds = time.time() - t0
        return res

    def verify_lemma(self, lem: dict) -> FunctionResult:
        t0 = time.time()
        name = "lemma:" + lem["name"]
        res = FunctionResult(name)
        self.reset(name)
        try:
            st = self.initial_state(None)
            names = {n: self.fresh_value(st, k, "p_" + n) for n, k in lem["vars"].items()}
            res.observe = self.observe(st, names)
            for cl in lem["assumes"]:
                st = st.assume(self.spec_bool(SpecEnv(st, names), cl.expr))
            self.apply_hints(st, lem["hints"], SpecEnv(st, names))
            res.covers.append(Obligation(name, "assumptions-satisfiable", "cover", st.pc, TRUE, ()))
            for cl in lem["shows"]:
                g = self.spec_bool(SpecEnv(st, names), cl.expr)
                self.oblige(st, g, "lemma", cl.label)
            res.paths = 1
        except Unsupported as u:
            res.unsupported = str(u)
        res.obligations = self.obligations
        res.decls = self.decls
        res.refine_facts = list(self.refine_facts)
        res.gen_seconds = time.time() - t0
        return res

    def observe(self, st: State, params, depth=3):
        """Terms whose model values describe the inputs (for native replay): (path, term, kind-name)."""
        out = []

        def walk(path, v, d):
            if isinstance(v, (VInt, VBool, VBytes, VFloat, VAny)):
                out.append((path, v.t, type(v).__name__))
            elif isinstance(v, VStr):
                out.append((path, v.t, "VStr"))
                from .models import _ufun
                from .smt import STR as _S
                for pred in ("is_ipv4", "is_ipv6", "encodable", "canon_ipv4", "canon_ipv6"):
                    out.append((f"{path}#{pred}", _ufun(self, pred, [_S], BOOL, v.t), "VBool"))
                out.append((f"{path}#contains_dot", _ufun(self, "str_contains", [_S, _S], BOOL, v.t,
                                                          self.decls.str_lit(".")), "VBool"))
                out.append((f"{path}#contains_colon", _ufun(self, "str_contains", [_S, _S], BOOL, v.t,
                                                            self.decls.str_lit(":")), "VBool"))
            elif isinstance(v, VOpt):
                out.append((path + "?none", v.isnone, "VBool"))
                walk(path, v.inner, d)
            elif isinstance(v, VTuple):
                for i, it in enumerate(v.items):
                    walk(f"{path}[{i}]", it, d)
            elif isinstance(v, (VList, VDeque)):
                out.append((path + "@ref", v.t, "ref"))
                try:
                    out.append((path + "@items", self.seq_items(st, v), "seq:" + repr(v.elem)))
                except Exception:
                    pass
            elif isinstance(v, VRef):
                out.append((path + "@ref", v.t, "ref:" + v.cls))
                out.append((path + "@type", self.type_of(st, v.t), "type"))
                if d <= 0:
                    return
                seen = set()
                for n in self.class_names_mro(v.cls):
                    m = self.reg.models.get(n)
                    if not m:
                        continue
                    for f in list(m.fields) + list(m.dynamic):
                        if f in seen:
                            continue
                        seen.add(f)
                        try:
                            if f in m.dynamic:
                                out.append((f"{path}.{f}?has", self.has_dyn(st, v, f), "VBool"))
                            walk(f"{path}.{f}", self.read_field(st, v, f), d - 1)
                        except Unsupported:
                            pass
        for n, v in params.items():
            walk(n, v, depth)
        return out

    def initial_state(self, fi) -> State:
        st = State()
        st.alloc = self.decls.const("alloc0", INT)
        st.pc.append(Lt(I(0), st.alloc))
        st.clock = self.decls.const("clock0", REAL)
        st.pc.append(Le(R(0), st.clock))
        st.frame = Frame(fi, fi.module if fi else None, fi.cls if fi else None)
        return st

    def _verify(self, c: Contract, fi: FuncInfo, res: FunctionResult):
        self.cur_module = fi.module
        self.cur_func_name = self.short_name(fi)
        self.active_interference = tuple((i[0], i[1]) for i in (getattr(c, "interference", ()) or ()))
        self.interference_kinds = {(i[0], i[1]): {"kind": i[2]} for i in (getattr(c, "interference", ()) or ()) if len(i) > 2}
        st = self.initial_state(fi)
        self._boot_state = st
        for gname, gkind in self.reg.globals.items():
            self.global_vals[gname] = self.fresh_value(st, gkind, "glob_" + gname)
        params = {}
        for n, kind in c.params.items():
            params[n] = self.fresh_value(st, kind, "p_" + n)
        for n, kind in c.ghost.items():
            params[n] = self.fresh_value(st, kind, "g_" + n)
        res.param_terms = params
        st.ghost = {n: params[n] for n in c.ghost}
        # bind python parameters
        a = fi.node.args
        pnames = [p.arg for p in a.posonlyargs + a.args + a.kwonlyargs]
        given = {n: params[n] for n in pnames if n in params}
        if fi.kind == "classmethod":
            given[pnames[0]] = VPy("class", fi.cls)
        if a.vararg or a.kwarg:
            bound = dict(given)
        else:
            bound = self.bind_params(st, fi, [], given, "entry")
        if a.vararg is not None:
            bound[a.vararg.arg] = params.get(a.vararg.arg, VTuple([]))
        if a.kwarg is not None:
            bound[a.kwarg.arg] = VPy("kwargs", {})
        # assume the precondition
        env = SpecEnv(st, dict(params))
        for cl in c.requires + c.assume_pre:
            st = st.assume(self.spec_bool(SpecEnv(st, dict(params)), cl.expr))
        self.apply_hints(st, c.entry_facts, SpecEnv(st, dict(params)))
        entry = st.copy()
        res.observe = self.observe(entry, params)
        self.entry_state = entry
        self.entry_names = dict(params)
        # vacuity: the precondition must be satisfiable
        cov = Obligation(c.qualname, "requires-satisfiable", "cover", entry.pc, TRUE, ())
        res.covers.append(cov)

        outs = self.exec_function_body(st, fi, bound)
        res.paths = len(outs)
        iff = [r for r in c.raises if r.mode == "iff"]
        for idx, o in enumerate(outs):
            res.exit_kinds[o.kind] = res.exit_kinds.get(o.kind, 0) + 1
            fin = o.st.note(f"exit:{o.kind}")
            res.covers.append(Obligation(c.qualname, f"path{idx}:{o.kind}", "cover", fin.pc, TRUE, fin.trace))
            names = dict(params)
            if o.kind == "ret":
                names["result"] = o.val
                for gname, (lv, gkind) in c.ghost_out.items():
                    gv = getattr(self, "last_locals", {}).get(id(o.st), {}).get(lv, VNone)
                    if gv is VNone and isinstance(gkind, KOpt):
                        # the local is None at this return and the witness is declared Optional: it IS None
                        names[gname] = VOpt(TRUE, self.fresh_value(fin, gkind.inner, "gout_none_" + gname))
                        continue
                    if gv is VNone or gv is None:
                        gv = self.fresh_value(fin, gkind, "gout_none_" + gname)
                    names[gname] = gv if isinstance(gkind, KOpt) else self.unwrap(gv)
                if c.returns is not None:
                    names["result"] = self.check_result_kind(fin, o.val, c.returns)
                if c.ghost_ensures:
                    # ghost effects are definitional (the real code never touches ghost fields): apply them at exit
                    # (only the ghost locations those definitions talk about; ghost logs kept by callee contracts, which
                    # are listed in ghost_modifies for the frame only, keep the values the body gave them)
                    defd = [loc for loc in c.ghost_modifies
                            if any(loc.split(" if ")[0].rsplit(".", 1)[-1] in gcl.expr for gcl in c.ghost_ensures)]
                    fin = self.havoc_locations(fin, defd, SpecEnv(entry, dict(params)))
                    for gcl in c.ghost_ensures:
                        fin = fin.assume(self.spec_bool(SpecEnv(fin, names, entry, dict(params)), gcl.expr))
                self.apply_hints(fin, c.hints, SpecEnv(fin, names, entry, dict(params)))
                for lbl, when in getattr(c, "must_raise", ()):
                    # one-directional rejection clauses (`when` => the call does not return normally), each under its own
                    # id and checked before the iff clauses, so that a known finding on the full domain clause cannot hide
                    # a wider acceptance
                    self.oblige(fin.copy(), Not(self.spec_bool(SpecEnv(entry, dict(params)), when)), "raises",
                                f"must-raise-when:{lbl}")
                for r in iff:
                    cond = self.spec_bool(SpecEnv(entry, dict(params)), r.when)
                    fin = self.oblige(fin, Not(cond), "raises", f"must-raise:{r.exc}")
                for cl in c.ensures:
                    g = self.spec_bool(SpecEnv(fin, names, entry, dict(params)), cl.expr)
                    extra = getattr(c, "hints_for", {}).get(cl.label)
                    if extra:
                        tmp = fin.copy()
                        self.apply_hints(tmp, extra, SpecEnv(tmp, names, entry, dict(params)))
                        self.oblige(tmp, g, "post", cl.label)
                        fin = fin.assume(g)
                    else:
                        fin = self.oblige(fin, g, "post", cl.label)
                if not c.ensures and not iff:
                    self.oblige(fin, TRUE, "post", "returns-normally")
                self.frame_obligations(fin, entry, c, params)
            elif o.kind == "exc":
                exc: VExc = o.val
                allowed = [r for r in c.raises if self.exc_isa(exc.cls, r.exc) and
                           not (getattr(exc, "any_sub", False) and r.exc != exc.cls and not self.exc_isa(exc.cls, r.exc))]
                if not allowed:
                    # an exception class outside the raises clause escapes on a feasible path?
                    fin = self.oblige(fin, FALSE, "raises", f"no-escape:{exc.cls}",
                                      meta={"exception": exc.cls, "origin": exc.origin})
                    continue
                conds = []
                for r in allowed:
                    if r.mode in ("iff", "only_if"):
                        conds.append(self.spec_bool(SpecEnv(entry, dict(params)), r.when))
                    else:
                        conds.append(TRUE)
                fin = self.oblige(fin, Or(*conds), "raises", f"raise-condition:{exc.cls}",
                                  meta={"exception": exc.cls, "origin": exc.origin})
                gex = [cl for r in allowed for cl in getattr(c, "ghost_ensures_exc", {}).get(r.exc, [])]
                if gex:
                    defd = [loc for loc in c.ghost_modifies
                            if any(loc.split(" if ")[0].rsplit(".", 1)[-1] in gcl.expr for gcl in gex)]
                    fin = self.havoc_locations(fin, defd, SpecEnv(entry, dict(params)))
                    for gcl in gex:
                        fin = fin.assume(self.spec_bool(SpecEnv(fin, names, entry, dict(params)), gcl.expr))
                for r in allowed:
                    for cl in c.ensures_exc.get(r.exc, []):
                        g = self.spec_bool(SpecEnv(fin, names, entry, dict(params)), cl.expr)
                        fin = self.oblige(fin, g, "post", cl.label)
                self.frame_obligations(fin, entry, c, params)
            else:
                raise Unsupported(f"outcome {o.kind} at function exit")

    def check_result_kind(self, st, v: Value, kind: Kind) -> Value:
        v = self.coerce(st, v, kind)
        if isinstance(kind, KOpt) and not isinstance(kind.inner, KNone):
            if v is VNone:
                v = VOpt(TRUE, self.fresh_value(st, kind.inner, "none_result"))
            elif not isinstance(v, VOpt):
                v = VOpt(FALSE, v)
        return v

    # ---- frame --------------------------------------------------------------------------------------------
    def frame_obligations(self, fin: State, entry: State, c: Contract, params):
        """Nothing outside `modifies` changed: pointwise on an arbitrary pre-existing object."""
        env = SpecEnv(entry, dict(params))
        self._frame_check(fin, env, list(c.modifies) + list(c.ghost_modifies), self.initial_heap.get, entry.alloc,
                          "frame", "unchanged-outside-modifies")

    def loop_frame_obligations(self, end: State, head: State, ls, env):
        """One iteration of a loop body changes nothing outside the loop's `modifies` (relative to the state at the head of
        that iteration, for an arbitrary object that existed then).  Without this, a body that writes a location the loop
        spec does not list would be analysed with the pre-loop value of that location at every loop head."""
        def base(key):
            t = head.heap.get(key)
            return t if t is not None else self.initial_heap.get(key)
        self._frame_check(end, env, list(ls.modifies), base, head.alloc, "loopframe",
                          f"loop{ls.ordinal}-body-writes-only-what-the-loop-spec-lists")

    def _frame_check(self, fin: State, env, locs, base_of, alloc_bound, kind_, label_):
        permitted = {}      # heap key -> list of obj terms, or None for 'whole field'
        for loc in locs:
            for item in self.parse_location(env, loc):
                kind = item[0]
                if kind == "seq*":
                    permitted[self._seq_key(item[2], item[1])[0]] = None
                elif kind == "dict*":
                    ks, dom, vals = self._dict_keys(VDict(I(0), item[1].k, item[1].v))
                    for key in [dom] + [v[0] for v in vals]:
                        permitted[key] = None
                elif kind == "field*":
                    d = self.field_decl(item[1], item[2])
                    for suf, so in layout(d[1]) + ([("$has", BOOL)] if d[2] else []):
                        permitted[f"{d[0]}.{item[2]}{suf}"] = None
                elif kind == "open*":
                    for key, _so in self.OPEN_KEYS:
                        permitted[key] = None
                elif kind == "open":
                    for key, _so in self.OPEN_KEYS:
                        if permitted.get(key, []) is not None:
                            permitted.setdefault(key, []).append(item[1].t)
                elif kind == "field":
                    d = self.field_decl(item[1].cls, item[2])
                    if d is None:
                        raise Unsupported(f"modifies: no model for {item[1].cls}.{item[2]}")
                    if item[3] is not None:
                        item = (item[0], VRef(Ite(item[3], item[1].t, I(0)), item[1].cls), item[2], None)
                    for suf, so in layout(d[1]) + ([("$has", BOOL)] if d[2] else []):
                        key = f"{d[0]}.{item[2]}{suf}"
                        if permitted.get(key, []) is not None:
                            permitted.setdefault(key, []).append(item[1].t)
                elif kind in ("list", "deque"):
                    key, _ = self._seq_key(item[1].elem, item[1])
                    if permitted.get(key, []) is not None:
                        permitted.setdefault(key, []).append(
                            item[1].t if item[3] is None else Ite(item[3], item[1].t, I(0)))
                elif kind == "set":
                    key = f"$set${elem_sort(item[1].elem)}"
                    if permitted.get(key, []) is not None:
                        permitted.setdefault(key, []).append(item[1].t)
                elif kind == "dict":
                    ks, dom, vals = self._dict_keys(item[1])
                    for key in [dom] + [v[0] for v in vals]:
                        if permitted.get(key, []) is not None:
                            permitted.setdefault(key, []).append(
                                item[1].t if item[3] is None else Ite(item[3], item[1].t, I(0)))
        o = None
        goals = []
        for key, final in fin.heap.items():
            init = base_of(key)
            if init is None or final.s == init.s:
                continue
            if key == "$type":
                continue          # only allocation writes types (of new objects)
            perm = permitted.get(key, [])
            if perm is None:
                continue
            if o is None:
                o = self.frame_witness() if kind_ == "frame" else self.decls.fresh("loopframe_obj", INT)
            cond = And(Lt(I(0), o), Lt(o, alloc_bound), *[Ne(o, p) for p in perm])
            goals.append((key, Implies(cond, Eq(select(final, o), select(init, o)))))
        if goals and os.environ.get("VERIF_FRAME_SPLIT"):
            for k_, g_ in goals:          # development aid: one obligation per heap key
                self.oblige(fin, g_, kind_, label_ + ":" + k_, meta={"keys": [k_]})
        elif goals:
            self.oblige(fin, And(*[g for _, g in goals]), kind_, label_,
                        meta={"keys": [k for k, _ in goals]})
