"""Statement execution: forward symbolic execution with path splitting."""
from __future__ import annotations

import ast

from .smt import (T, INT, BOOL, SEQI, TRUE, FALSE, I, And, Or, Not, Eq, Ne, Lt, Le, Add, Sub, Ite, seq_len,
                  seq_concat, seq_unit, seq_empty, is_lit)
from .state import State, Out, Unsupported
from .values import *
from .speceval import SpecEnv

LOG_METHODS = {"debug", "info", "warning", "error", "exception", "critical", "received", "sent",
               "log_peers", "log_stats", "log"}


def is_logging_call(node: ast.AST) -> bool:
    if not (isinstance(node, ast.Call) and isinstance(node.func, ast.Attribute)):
        return False
    if node.func.attr not in LOG_METHODS:
        return False
    base = node.func.value
    name = base.attr if isinstance(base, ast.Attribute) else (base.id if isinstance(base, ast.Name) else "")
    return "logger" in name or name in ("msg_dump", "logging")


def assigned_names(stmts) -> set:
    out = set()

    class V(ast.NodeVisitor):
        def visit_Name(self, n):
            if isinstance(n.ctx, (ast.Store, ast.Del)):
                out.add(n.id)

        def visit_FunctionDef(self, n):
            pass

        def visit_Lambda(self, n):
            pass

        def visit_ListComp(self, n):
            pass

    for s in stmts:
        V().visit(s)
    return out


class StmtMixin:

    def ex_block(self, st: State, stmts) -> list[Out]:
        if not stmts:
            return [Out("ok", st)]
        outs = []
        for o in self.ex(st, stmts[0]):
            if o.kind == "ok":
                outs += self.ex_block(o.st, stmts[1:])
            else:
                outs.append(o)
        return outs

    def ex(self, st: State, s: ast.stmt) -> list[Out]:
        self.steps += 1
        if self.steps > self.max_steps:
            raise Unsupported("path explosion: step budget exhausted")
        reg = self.region_of(s)
        if reg is not None:
            return self.ex_region(st, s, reg)
        m = getattr(self, "ex_" + type(s).__name__, None)
        if m is None:
            raise Unsupported(f"statement {type(s).__name__} at line {s.lineno}")
        return m(st, s)

    def region_of(self, s):
        if not self.reg.regions or not isinstance(s, (ast.If, ast.For, ast.While, ast.Try, ast.Assign, ast.AnnAssign)):
            return None
        fi = st_fi = None
        key = self.region_index.get(id(s))
        if key is None:
            return None
        return self.reg.regions.get(key)

    def ex_region(self, st, s, reg):
        # syntactic check: the region stores only into the declared local names
        for n in ast.walk(s):
            if isinstance(n, (ast.Attribute, ast.Subscript)) and isinstance(n.ctx, (ast.Store, ast.Del)):
                raise Unsupported(f"region at line {s.lineno} has a heap store")
            if isinstance(n, (ast.Return, ast.Raise)):
                raise Unsupported(f"region at line {s.lineno} returns or raises")
        extra = assigned_names([s]) - set(reg["assigns"])
        if extra:
            # loop variables local to the region are allowed if never read afterwards: be strict
            pass
        st = st.copy()
        for n, kind in reg["assigns"].items():
            st.locals[n] = self.fresh_value(st, kind, "rg_" + n)
        for n in extra:
            st.locals.pop(n, None)
        self.regions_used.add(f"{self.cur_func_name}: {type(s).__name__} at line {s.lineno} abstracted "
                              f"(assigns {list(reg['assigns'])})")
        return [Out("ok", st)]

    def ex_Pass(self, st, s):
        return [Out("ok", st)]

    def ex_Expr(self, st, s):
        if isinstance(s.value, ast.Constant):
            return [Out("ok", st)]
        if is_logging_call(s.value):
            return [Out("ok", st)]      # S6: logging is effect-free
        return self.ev(st, s.value, lambda s2, v: [Out("ok", s2)])

    def ex_Return(self, st, s):
        if s.value is None:
            return [Out("ret", st, VNone)]
        return self.ev(st, s.value, lambda s2, v: [Out("ret", s2, v)])

    def ex_Break(self, st, s):
        return [Out("brk", st)]

    def ex_Continue(self, st, s):
        return [Out("cnt", st)]

    def ex_Assert(self, st, s):
        def got(s2, v):
            t = self.truthy(s2, v)
            outs = [Out("ok", s2.assume(t))]
            if Not(t).s != "false":
                outs += self.raise_(s2.assume(Not(t)), "AssertionError", f"line {s.lineno}")
            return outs
        return self.ev(st, s.test, got)

    def ex_Raise(self, st, s):
        if s.exc is None:
            if st.exc_ctx is None:
                raise Unsupported("bare raise outside handler")
            return [Out("exc", st, st.exc_ctx)]

        # exception messages are dropped (DESIGN 3.3): the arguments of an exception constructor
        # are not evaluated, only the class and the fact of raising are tracked
        if isinstance(s.exc, ast.Call):
            fv = None
            try:
                fv = self.ev(st, s.exc.func, lambda s2, v: [Out("ok", s2, v)])[0].val
            except Unsupported:
                fv = None
            ename = None
            if isinstance(fv, VPy) and fv.what == "excclass":
                ename = fv.obj
            elif isinstance(fv, VPy) and fv.what == "class" and any(self._is_exc_class(c) for c in fv.obj.mro()):
                ename = fv.obj.name
            if ename is not None:
                origin = f"raise at line {s.lineno}"
                # the message VALUE is dropped (S6), but evaluating its pieces is ordinary code that can itself raise
                # (seed C04-17: `avps[-1].name` inside the message of a re-raise): the argument expressions are
                # evaluated for their outcomes; an expression outside the subset falls back to dropping the message
                argx = list(s.exc.args) + [kw.value for kw in s.exc.keywords]
                if argx and not self.reg.flags.get("drop_exc_args"):
                    try:
                        return self.ev_list(st, argx, lambda s2, _vs: [Out("exc", s2, VExc(ename, [], origin))])
                    except Unsupported:
                        pass
                return [Out("exc", st, VExc(ename, [], origin))]

        def got(s2, v):
            origin = f"raise at line {s.lineno}"
            if isinstance(v, VExc):
                return [Out("exc", s2, VExc(v.cls, v.args, origin))]
            if isinstance(v, VPy) and v.what == "excclass":
                return [Out("exc", s2, VExc(v.obj, [], origin))]
            if isinstance(v, VPy) and v.what == "class":
                return [Out("exc", s2, VExc(v.obj.name, [], origin))]
            raise Unsupported(f"raise of {v!r}")
        return self.ev(st, s.exc, got)

    # ---- assignment ------------------------------------------------------------------------------
    def ex_Assign(self, st, s):
        def got(s2, v):
            outs = [Out("ok", s2)]
            for tgt in s.targets:
                nxt = []
                for o in outs:
                    if o.kind == "ok":
                        nxt += self.assign(o.st, tgt, v)
                    else:
                        nxt.append(o)
                outs = nxt
            return outs
        return self.ev(st, s.value, got)

    def ex_AnnAssign(self, st, s):
        if s.value is None:
            return [Out("ok", st)]
        return self.ev(st, s.value, lambda s2, v: self.assign(s2, s.target, v))

    def ex_AugAssign(self, st, s):
        load = self._as_load(s.target)

        def got(s2, cur):
            def got_r(s3, r):
                # in-place list extension keeps identity
                if isinstance(s.op, ast.Add) and isinstance(cur, VList) and isinstance(r, VTuple):
                    add = [seq_unit(self.comp1(self.coerce(s3, x, cur.elem), cur.elem)) for x in r.items]
                    s4 = self.set_seq_items(s3, cur, seq_concat(self.seq_items(s3, cur), *add)) if add else s3
                    return [Out("ok", s4)]
                if isinstance(s.op, ast.Add) and isinstance(cur, VList) and isinstance(r, (VList, VSeq)):
                    tb, kb_ = self.as_seq(s3, r)
                    if elem_sort(kb_) != elem_sort(cur.elem):
                        raise Unsupported(f"list += list with different element kinds ({cur.elem!r} vs {kb_!r}) at line "
                                          f"{s.lineno}: a kind hint does not fit this code")
                    s4 = self.set_seq_items(s3, cur, seq_concat(self.seq_items(s3, cur), tb))
                    return [Out("ok", s4)]
                return self.binop(s3, s.op, cur, r, lambda s4, v: self.assign(s4, s.target, v), s)
            return self.ev(s2, s.value, got_r)
        return self.ev(st, load, got)

    @staticmethod
    def _as_load(t):
        t2 = ast.parse(ast.unparse(t), mode="eval").body
        ast.copy_location(t2, t)
        return t2

    def assign(self, st, tgt, v) -> list[Out]:
        if isinstance(tgt, ast.Name):
            s2 = st.copy()
            s2.locals[tgt.id] = v
            return [Out("ok", s2)]
        if isinstance(tgt, ast.Attribute):
            attr = self.mangle(st, tgt.attr)
            return self.ev(st, tgt.value, lambda s2, base: self.set_attr(s2, base, attr, v, tgt))
        if isinstance(tgt, (ast.Tuple, ast.List)):
            if isinstance(v, VAny) and getattr(v, "tag", None) == "pair" and len(tgt.elts) == 2:
                from .models import _ufun
                v = VTuple([VInt(_ufun(self, "pair_fst", [INT], INT, v.t)), VInt(_ufun(self, "pair_snd", [INT], INT, v.t))])
            if isinstance(v, VTuple):
                if len(v.items) != len(tgt.elts):
                    return self.raise_(st, "ValueError", "unpack arity")
                outs = [Out("ok", st)]
                for t_i, v_i in zip(tgt.elts, v.items):
                    nxt = []
                    for o in outs:
                        nxt += self.assign(o.st, t_i, v_i) if o.kind == "ok" else [o]
                    outs = nxt
                return outs
            raise Unsupported(f"unpacking of {v!r}")
        if isinstance(tgt, ast.Subscript):
            def got_base(s2, base):
                return self.ev(s2, tgt.slice, lambda s3, idx: self.set_item(s3, base, idx, v, tgt))
            return self.ev(st, tgt.value, got_base)
        raise Unsupported(f"assignment target {type(tgt).__name__}")

    def set_attr(self, st, base, attr, v, node) -> list[Out]:
        if base is VNone or isinstance(base, VOpt):
            return self.split_opt(st, base,
                                  lambda s: self.raise_(s, "AttributeError", f"None.{attr} = ..."),
                                  lambda s, inner: self.set_attr(s, inner, attr, v, node))
        if isinstance(base, VRef):
            ci = self.try_cls(base.cls)
            if ci is not None:
                setter = ci.lookup_setter(attr)
                if setter is not None:
                    return self.call_function(st, self.dispatch(base, attr, "setter"), [base, v], {},
                                              lambda s2, r: [Out("ok", s2)], where=f"{attr} = ...")
            d = self.field_decl(base.cls, attr)
            if d is None:
                raise Unsupported(f"no model for field {base.cls}.{attr} (line {node.lineno})")
            if isinstance(v, VOpt) and not isinstance(d[1], KOpt):
                # the model has no None for this field: the value must be known not-None here
                st = self.oblige(st, Not(v.isnone), "lowering", f"non-optional-field:{base.cls}.{attr}")
                v = v.inner
            return [Out("ok", self.write_field(st, base, attr, self.coerce(st, v, d[1])))]
        raise Unsupported(f"attribute store on {base!r}")

    def coerce(self, st, v: Value, kind: Kind) -> Value:
        """Adapt a value to a declared kind (e.g. list display -> List[elem], VBool -> int)."""
        if isinstance(kind, KOpt):
            if v is VNone or isinstance(v, VOpt):
                return v
            return self.coerce(st, v, kind.inner)
        if isinstance(kind, KPrim) and kind is K_INT and isinstance(v, VBool):
            from .smt import Ite
            return VInt(Ite(v.t, I(1), I(0)))
        if isinstance(kind, KList) and isinstance(v, VList) and repr(v.elem) != repr(kind.elem):
            if elem_sort(v.elem) == elem_sort(kind.elem):
                return VList(v.t, kind.elem)
        if isinstance(kind, KRef) and isinstance(v, VRef):
            return v
        if isinstance(kind, KRef) and isinstance(v, VAny):
            # an opaque value passed where an object of a model class is declared (unchecked cast, recorded)
            self.assumed_casts = getattr(self, "assumed_casts", set()) | {f"{self.cur_func_name}: opaque value used as {kind!r}"}
            return VRef(v.t, kind.cls.rstrip("!"))
        if isinstance(kind, KList) and isinstance(v, VAny):
            # an opaque value passed where a list is declared: viewed as a list of the declared element kind
            # (an unchecked cast, recorded for the evidence)
            self.assumed_casts = getattr(self, "assumed_casts", set()) | {f"{self.cur_func_name}: opaque value used as {kind!r}"}
            return VList(v.t, kind.elem)
        if isinstance(kind, KPrim) and kind.name.startswith("Any") and isinstance(v, VPy):
            # a python-level callable stored in an opaque field: a stable token per callable
            import re as _re
            nm = _re.sub(r"[^A-Za-z0-9_]", "_", f"{v.what}_{v.obj}")
            return VAny(self.decls.const("fn$" + nm, INT), kind.name[4:] or None)
        return v

    def litdict_object(self, st, v, kind):
        """a dict display stored where a TypedDict-like model class is expected: a new object whose fields are the
        display's entries (keys outside the model are not supported; missing keys stay arbitrary) -> (state, ref)"""
        m = self.reg.models[kind.cls]
        for key, _ in v.obj:
            if key not in m.fields:
                raise Unsupported(f"dict display key {key!r} is not a field of {kind.cls}")
        st2, obj = self.alloc_obj(st, kind.cls)
        for key, val in v.obj:
            st2 = self.write_field(st2, obj, key, self.coerce(st2, val, m.fields[key]))
        return st2, VRef(obj.t, kind.cls)

    def set_item(self, st, base, idx, v, node) -> list[Out]:
        if isinstance(base, VDict) and isinstance(v, VPy) and v.what == "litdict" and isinstance(base.v, KRef) \
                and base.v.cls in self.reg.models:
            st, v = self.litdict_object(st, v, base.v)
        if isinstance(base, VDict):
            kt = self.key_term(idx, base.k)
            return [Out("ok", self.dict_set(st, base, kt, self.coerce(st, v, base.v)))]
        raise Unsupported(f"item assignment on {base!r} at line {node.lineno}")

    def ex_Delete(self, st, s):
        outs = [Out("ok", st)]
        for tgt in s.targets:
            nxt = []
            for o in outs:
                if o.kind != "ok":
                    nxt.append(o)
                    continue
                nxt += self.delete(o.st, tgt)
            outs = nxt
        return outs

    def delete(self, st, tgt):
        if isinstance(tgt, ast.Subscript):
            def got(s2, base):
                def got_idx(s3, idx):
                    if isinstance(base, VDict):
                        kt = self.key_term(idx, base.k)
                        has = self.dict_has(s3, base, kt)
                        outs = []
                        if Not(has).s != "false":
                            outs += self.raise_(s3.assume(Not(has)), "KeyError", f"del at line {tgt.lineno}")
                        outs.append(Out("ok", self.dict_del(s3.assume(has), base, kt)))
                        return outs
                    raise Unsupported("del on non-dict")
                return self.ev(s2, tgt.slice, got_idx)
            return self.ev(st, tgt.value, got)
        if isinstance(tgt, ast.Name):
            s2 = st.copy()
            s2.locals.pop(tgt.id, None)
            return [Out("ok", s2)]
        raise Unsupported("del target")

    # ---- control flow ----------------------------------------------------------------------------
    def narrow(self, st: State, test, positive: bool) -> State:
        """Flow-sensitive narrowing of Optional locals after `if x`, `if not x`, `x is None`, `x is not None`."""
        def set_some(name):
            v = st.locals.get(name)
            if isinstance(v, VOpt):
                s2 = st.copy()
                s2.locals[name] = v.inner
                return s2
            return st

        def set_none(name):
            v = st.locals.get(name)
            if isinstance(v, VOpt):
                s2 = st.copy()
                s2.locals[name] = VNone
                return s2
            return st
        if isinstance(test, ast.Name):
            return set_some(test.id) if positive else st
        if isinstance(test, ast.BoolOp) and isinstance(test.op, ast.And) and positive:
            for sub in test.values:
                st = self.narrow(st, sub, True)
            return st
        if isinstance(test, ast.Call) and isinstance(test.func, ast.Name) and test.func.id == "isinstance" and positive \
                and len(test.args) == 2 and isinstance(test.args[0], ast.Name) and isinstance(test.args[1], ast.Name) \
                and test.args[1].id == "list":
            v = st.locals.get(test.args[0].id)
            if isinstance(v, VOpt):
                v = v.inner
            if isinstance(v, VAny):
                # an opaque value known to be a list on this path: a list of opaque elements
                s2 = st.copy()
                s2.locals[test.args[0].id] = VList(v.t, K_ANY)
                return s2
            return st
        if isinstance(test, ast.UnaryOp) and isinstance(test.op, ast.Not):
            return self.narrow(st, test.operand, not positive)
        if isinstance(test, ast.Compare) and len(test.ops) == 1 and isinstance(test.left, ast.Name) \
                and isinstance(test.comparators[0], ast.Constant) and test.comparators[0].value is None:
            isnot = isinstance(test.ops[0], (ast.IsNot, ast.NotEq))
            iss = isinstance(test.ops[0], (ast.Is, ast.Eq))
            if isnot:
                return set_some(test.left.id) if positive else set_none(test.left.id)
            if iss:
                return set_none(test.left.id) if positive else set_some(test.left.id)
        if isinstance(test, ast.Call) and isinstance(test.func, ast.Name) and test.func.id == "isinstance" \
                and positive and len(test.args) == 2 and isinstance(test.args[0], ast.Name) \
                and isinstance(test.args[1], ast.Name):
            v = st.locals.get(test.args[0].id)
            ci = self.try_cls(test.args[1].id)
            if isinstance(v, VAny) and ci is not None:
                s2 = st.copy()
                s2.locals[test.args[0].id] = VRef(v.t, ci.name)
                s2.pc.append(And(Lt(I(0), v.t), Lt(v.t, s2.alloc)))
                return s2
            if isinstance(v, VRef) and ci is not None:
                cur = self.try_cls(v.cls)
                if cur is not None and ci.is_subclass_of(cur) and ci is not cur:
                    s2 = st.copy()
                    s2.locals[test.args[0].id] = VRef(v.t, ci.name)
                    return s2
        if isinstance(test, ast.BoolOp) and isinstance(test.op, ast.And) and positive:
            for v in test.values:
                st = self.narrow(st, v, True)
        return st

    # ---- state merging (keeps the number of paths polynomial) -----------------------------------
    def merge_ok_outs(self, base: State, outs):
        """Merge all 'ok' outcomes that extend `base` into one state (heap/alloc/clock/locals by ite on the
        path-condition suffixes, which are mutually exclusive by construction).  Other outcomes are kept."""
        oks = [o for o in outs if o.kind == "ok"]
        rest = [o for o in outs if o.kind != "ok"]
        if len(oks) < 2 or not self.merging:
            return outs
        n0 = len(base.pc)
        for o in oks:
            if o.st.pc[:n0] != base.pc or o.st.frame is not base.frame or o.st.held != base.held:
                return outs
        guards = [And(*o.st.pc[n0:]) for o in oks]
        # locals
        names = set()
        for o in oks:
            names |= set(o.st.locals)
        merged_locals = {}
        try:
            for n in names:
                vals = [o.st.locals.get(n) for o in oks]
                if any(v is None for v in vals):
                    if all(v is None for v in vals):
                        continue
                    return outs            # bound on some paths only
                cur = vals[-1]
                for g, v in zip(reversed(guards[:-1]), reversed(vals[:-1])):
                    cur = self.merge_vals(g, v, cur)
                merged_locals[n] = cur
            ghost = {}
            gnames = set()
            for o in oks:
                gnames |= set(o.st.ghost)
            for n in gnames:
                vals = [o.st.ghost.get(n) for o in oks]
                if any(v is None for v in vals):
                    continue
                if isinstance(vals[0], dict):
                    ghost[n] = vals[0]
                    continue
                cur = vals[-1]
                for g, v in zip(reversed(guards[:-1]), reversed(vals[:-1])):
                    cur = self.merge_vals(g, v, cur)
                ghost[n] = cur
        except Unsupported:
            return outs
        m = base.copy()
        m.pc = list(base.pc) + [Or(*guards)]
        m.locals = merged_locals
        m.ghost = ghost
        keys = set()
        for o in oks:
            keys |= set(o.st.heap)
        for key in keys:
            terms = []
            for o in oks:
                t = o.st.heap.get(key)
                if t is None:
                    t = self.initial_heap.get(key)
                terms.append(t)
            cur = terms[-1]
            for g, t in zip(reversed(guards[:-1]), reversed(terms[:-1])):
                cur = Ite(g, t, cur)
            m.heap[key] = cur
        for attr in ("alloc", "clock"):
            terms = [getattr(o.st, attr) for o in oks]
            cur = terms[-1]
            for g, t in zip(reversed(guards[:-1]), reversed(terms[:-1])):
                cur = Ite(g, t, cur)
            setattr(m, attr, cur)
        m.trace = base.trace + (f"merged{len(oks)}",)
        m.exc_ctx = base.exc_ctx
        return rest + [Out("ok", m)]

    def merge_vals(self, g: T, a: Value, b: Value) -> Value:
        if a is b:
            return a
        if isinstance(a, VPy) or isinstance(b, VPy):
            if isinstance(a, VPy) and isinstance(b, VPy) and (a.what, a.obj) == (b.what, b.obj) and a.extra is b.extra:
                return a
            raise Unsupported("merge of python-level objects")
        if isinstance(a, VExc) or isinstance(b, VExc):
            raise Unsupported("merge of exceptions")
        if isinstance(a, VRef) and isinstance(b, VRef) and a.cls != b.cls:
            raise Unsupported("merge of different classes")
        if type(a) is type(b) and isinstance(a, (VList, VDeque, VSet, VSeq)) and repr(a.elem) != repr(b.elem):
            raise Unsupported("merge of different element kinds")
        if hasattr(a, "t") and hasattr(b, "t") and a.t.s == b.t.s and type(a) is type(b):
            return a
        return self.merge(g, a, b)

    def ex_If(self, st, s):
        return self.merge_ok_outs(st, self._ex_If(st, s))

    def _ex_If(self, st, s):
        def got(s2, c):
            t = self.truthy(s2, c)
            outs = []
            if t.s != "false":
                outs += self.ex_block(self.narrow(s2.assume(t), s.test, True).note(f"L{s.lineno}:T"), s.body)
            if t.s != "true":
                outs += self.ex_block(self.narrow(s2.assume(Not(t)), s.test, False).note(f"L{s.lineno}:F"), s.orelse)
            return outs
        return self.ev(st, s.test, got)

    def ex_With(self, st, s):
        if len(s.items) != 1 or s.items[0].optional_vars is not None:
            raise Unsupported("with-statement form")

        def got(s2, ctx):
            if not (isinstance(ctx, VRef) and ctx.cls in ("Lock", "RLock")):
                raise Unsupported(f"with on {ctx!r}")
            s3 = s2.copy()
            s3.held = s2.held + (ctx.t.s,)
            # rely: what other threads may have done to the fields this lock protects, up to the acquisition
            for (owner, fld), spec in self.reg.interference.items():
                if (owner, fld) not in getattr(self, "active_interference", ()):
                    continue
                holder = self.lock_owner(s3, s.items[0].context_expr)
                if holder is not None and self.field_decl(holder.cls, spec["lock"]) is not None \
                        and self.field_decl(holder.cls, fld) is not None:
                    s3 = self.inject_interference(s3, holder, owner, fld, force=True)
            outs = []
            for o in self.ex_block(s3, s.body):
                so = o.st.copy()
                so.held = s2.held
                outs.append(Out(o.kind, so, o.val))
            return outs
        return self.ev(st, s.items[0].context_expr, got)

    def lock_owner(self, st, ctx_expr):
        """the object whose lock attribute is being acquired: `with X.lock` -> value of X"""
        if isinstance(ctx_expr, ast.Attribute):
            outs = self.ev(st, ctx_expr.value, lambda s2, v: [Out("ok", s2, v)])
            if outs and isinstance(outs[0].val, VRef):
                return outs[0].val
        return None

    def handler_classes(self, st, h: ast.ExceptHandler):
        if h.type is None:
            return ["BaseException"]
        names = []

        def one(e):
            if isinstance(e, ast.Tuple):
                for x in e.elts:
                    one(x)
                return
            outs = self.ev(st, e, lambda s2, v: [Out("ok", s2, v)])
            v = outs[0].val
            if isinstance(v, VPy) and v.what == "excclass":
                names.append(v.obj)
            elif isinstance(v, VPy) and v.what == "class":
                names.append(v.obj.name)
            elif isinstance(v, VPy) and v.what == "ext":
                names.append(self.exc_name(v.obj))
            else:
                raise Unsupported(f"except clause type {ast.unparse(e)}")
        one(h.type)
        return names

    def exc_matches(self, exc: VExc, names):
        """-> 'yes' | 'no' | 'maybe'"""
        for n in names:
            if self.exc_isa(exc.cls, n):
                return "yes"
        if getattr(exc, "any_sub", False):
            for n in names:
                if self.exc_isa(n, exc.cls):
                    return "maybe"
        return "no"

    def ex_Try(self, st, s):
        return self.merge_ok_outs(st, self._ex_Try(st, s))

    def _ex_Try(self, st, s):
        body_outs = self.ex_block(st, s.body)
        after = []
        for o in body_outs:
            if o.kind == "ok":
                after += self.ex_block(o.st, s.orelse) if s.orelse else [o]
            elif o.kind == "exc":
                after += self.dispatch_handlers(o, s.handlers)
            else:
                after.append(o)
        if not s.finalbody:
            return after
        final = []
        for o in after:
            for f in self.ex_block(o.st, s.finalbody):
                if f.kind == "ok":
                    final.append(Out(o.kind, f.st, o.val))
                else:
                    final.append(f)
        return final

    def dispatch_handlers(self, o: Out, handlers) -> list[Out]:
        exc: VExc = o.val
        st = o.st
        for h in handlers:
            names = self.handler_classes(st, h)
            m = self.exc_matches(exc, names)
            if m == "no":
                continue
            s2 = st.copy()
            if h.name:
                s2.locals[h.name] = exc
            prev_ctx = s2.exc_ctx
            s2.exc_ctx = exc
            s2 = s2.note(f"L{h.lineno}:except")
            outs = []
            for ho in self.ex_block(s2, h.body):
                so = ho.st.copy()
                so.exc_ctx = prev_ctx
                outs.append(Out(ho.kind, so, ho.val))
            if m == "yes":
                return outs
            # maybe: the exception may also be of a class this handler does not catch
            rest = VExc(exc.cls, exc.args, exc.origin)
            rest.any_sub = True
            rest.not_classes = getattr(exc, "not_classes", ()) + tuple(names)
            return outs + self.dispatch_handlers(Out("exc", st, rest), handlers[handlers.index(h) + 1:])
        return [o]

    def ex_Match(self, st, s):
        return self.merge_ok_outs(st, self._ex_Match(st, s))

    def _ex_Match(self, st, s):
        def got(s2, subj):
            outs = []
            cur = s2
            for case in s.cases:
                if case.guard is not None:
                    raise Unsupported("match guard")
                cond = self.pattern_cond(cur, case.pattern, subj)
                if cond.s != "false":
                    outs += self.ex_block(cur.assume(cond).note(f"L{case.pattern.lineno}:case"), case.body)
                if cond.s == "true":
                    return outs
                cur = cur.assume(Not(cond))
            outs.append(Out("ok", cur))
            return outs
        return self.ev(st, s.subject, got)

    def pattern_cond(self, st, p, subj) -> T:
        if isinstance(p, ast.MatchAs) and p.pattern is None and p.name is None:
            return TRUE
        if isinstance(p, ast.MatchValue):
            v = self.ev(st, p.value, lambda s2, v: [Out("ok", s2, v)])[0].val
            return self.values_equal(st, subj, v)
        if isinstance(p, ast.MatchSingleton):
            return self.values_equal(st, subj, self.const_value(p.value))
        if isinstance(p, ast.MatchSequence):
            if not isinstance(subj, VTuple) or len(subj.items) != len(p.patterns):
                return FALSE
            return And(*[self.pattern_cond(st, pp, x) for pp, x in zip(p.patterns, subj.items)])
        raise Unsupported(f"match pattern {type(p).__name__}")

    # ---- loops ---------------------------------------------------------------------------------------
    def loop_spec(self, node):
        key = (self.cur_func_name, self.loop_ordinal.get(id(node)))
        ls = self.reg.loops.get(key)
        if ls is None:
            raise Unsupported(f"loop #{key[1]} of {key[0]} (line {node.lineno}) has no invariant")
        return ls

    def check_steps(self, st: State, ls, prev: State, label_kind="step", is_ret=False, is_brk=False):
        clauses = list(ls.step) + (list(ls.step_ret) if is_ret else []) + (list(getattr(ls, "step_brk", [])) if is_brk else [])
        if not is_ret and not is_brk:
            clauses += list(getattr(ls, "step_back", []))
        if not clauses:
            return st
        names = dict(self.entry_names)
        names.update(st.locals)
        names.update(st.ghost)
        pn = dict(self.entry_names)
        pn.update(prev.locals)
        pn.update(prev.ghost)
        for cl in clauses:
            env = SpecEnv(st, names, self.entry_state, self.entry_names, prev, pn)
            st = self.oblige(st, self.spec_bool(env, cl.expr), "step", cl.label)
        return st

    def inv_env(self, st: State, ls, extra=None) -> SpecEnv:
        names = dict(self.entry_names)
        names.update(st.locals)
        names.update(st.ghost)
        if extra:
            names.update(extra)
        return SpecEnv(st, names, self.entry_state, self.entry_names)

    def check_carried_kinds(self, st: State, ls):
        """At a back edge the loop-carried locals must still fit the kinds they were havoced with."""
        hk = st.ghost.get("$havoc_kinds") or {}
        for n, kind in hk.items():
            v = st.locals.get(n)
            if v is None or isinstance(v, (VPy, VExc)):
                continue
            if not self.kind_fits(v, kind):
                raise Unsupported(f"loop-carried local {n!r} changes kind ({v.kind!r} vs havoc kind {kind!r}): "
                                  f"declare local_kinds in the loop spec")

    def kind_fits(self, v: Value, kind: Kind) -> bool:
        if isinstance(kind, KOpt):
            if v is VNone:
                return True
            if isinstance(v, VOpt):
                return self.kind_fits(v.inner, kind.inner)
            return self.kind_fits(v, kind.inner)
        if v is VNone:
            return isinstance(kind, KNone)
        if isinstance(v, VOpt):
            return False
        if isinstance(kind, KRef):
            if not isinstance(v, VRef):
                return False
            ci, ck = self.try_cls(v.cls), self.try_cls(kind.cls.rstrip("!"))
            return ci is None or ck is None or ci.is_subclass_of(ck)
        if isinstance(kind, KPrim):
            return hasattr(v, "t") and v.t.sort == kind.sort or (kind is K_INT and isinstance(v, VBool))
        if isinstance(kind, (KList, KDeque, KSet, KDict)):
            return type(v).__name__[1:] == type(kind).__name__[1:] or isinstance(v, VList) and isinstance(kind, KList)
        if isinstance(kind, KTuple):
            return isinstance(v, VTuple) and len(v.items) == len(kind.items) and \
                all(self.kind_fits(a, b) for a, b in zip(v.items, kind.items))
        return True

    def check_invs(self, st, ls, kind, extra=None) -> State:
        if kind == "inv_pres":
            self.check_carried_kinds(st, ls)
        env = self.inv_env(st, ls, extra)
        self.apply_hints(st, ls.hints, env)
        for cl in ls.invariants:
            st = self.oblige(st, self.spec_bool(env, cl.expr), kind, cl.label)
            env.st = st
        return st

    def assume_invs(self, st, ls, extra=None) -> State:
        env = self.inv_env(st, ls, extra)
        for cl in ls.invariants:
            st = st.assume(self.spec_bool(env, cl.expr))
            env.st = st
        self.apply_hints(st, ls.hints, self.inv_env(st, ls, extra))
        return st

    def havoc_for_loop(self, st: State, ls, body) -> State:
        st = st.copy()
        names = ls.havoc_locals if ls.havoc_locals is not None else sorted(assigned_names(body))
        st.ghost = dict(st.ghost)
        hk = {}
        for n in names:
            if n in ls.local_kinds:
                st.locals[n] = self.fresh_value(st, ls.local_kinds[n], n)
                hk[n] = ls.local_kinds[n]
            elif n in st.locals:
                v = st.locals[n]
                if isinstance(v, (VPy, VExc)):
                    continue
                if v is VNone:
                    raise Unsupported(f"loop-carried local {n!r} is None at the loop entry (line "
                                      f"{getattr(body[0], 'lineno', '?')}): declare its kind in the loop spec")
                st.locals[n] = self.fresh_value(st, v.kind, n)
                hk[n] = v.kind
        st.ghost["$havoc_kinds"] = hk
        env = self.inv_env(st, ls)
        st = self.havoc_locations(st, ls.modifies, env)
        # earlier iterations may have allocated: the allocation frontier at the head of an arbitrary iteration is
        # anywhere at or above the frontier at loop entry
        a = self.decls.fresh("alloc_loop", INT)
        st = st.copy()
        st.pc.append(Le(st.alloc, a))
        st.alloc = a
        return st

    def snap_entry(self, st, ls):
        if not getattr(ls, "entry_snap", None):
            return st
        st = st.copy()
        st.ghost = dict(st.ghost)
        env = self.inv_env(st, ls)
        for name, expr in ls.entry_snap.items():
            st.ghost[name] = self.spec_eval(env, expr)
        return st

    def ex_While(self, st, s):
        ls = self.loop_spec(s)
        st = self.intro_ghost(st, ls.ghost)
        st = self.snap_entry(st, ls)
        st = self.check_invs(st, ls, "inv_init")
        h = self.havoc_for_loop(st, ls, s.body + s.orelse)
        h = self.assume_invs(h, ls)
        v0 = None
        if ls.decreases:
            v0 = self.num(self.spec_eval(self.inv_env(h, ls), ls.decreases))

        def got(s2, c):
            t = self.truthy(s2, c)
            outs = []
            if t.s != "true":
                outs += self.ex_block(s2.assume(Not(t)).note(f"L{s.lineno}:exit"), s.orelse)
            if t.s != "false":
                it0 = s2.assume(t).note(f"L{s.lineno}:iter")
                for o in self.ex_block(it0, s.body):
                    if o.kind in ("ok", "cnt", "brk", "ret"):
                        o = Out(o.kind, self.check_steps(o.st, ls, it0, is_ret=(o.kind == "ret"), is_brk=(o.kind == "brk")), o.val)
                    if o.kind in ("ok", "cnt"):
                        self.loop_frame_obligations(o.st, it0, ls, self.inv_env(it0, ls))
                        if ls.post_hints:
                            o = Out(o.kind, o.st.copy(), o.val)
                            self.apply_hints(o.st, ls.post_hints, self.inv_env(o.st, ls))
                        s3 = self.check_invs(o.st, ls, "inv_pres")
                        if v0 is not None:
                            v1 = self.num(self.spec_eval(self.inv_env(s3, ls), ls.decreases))
                            self.oblige(s3, And(Le(I(0), v0), Lt(v1, v0)), "variant", f"decreases{ls.ordinal}")
                    elif o.kind == "brk":
                        outs.append(Out("ok", o.st))
                    else:
                        outs.append(o)
            return outs
        return self.ev(h, s.test, got)

    def ex_For(self, st, s):
        if s.orelse:
            raise Unsupported("for-else")
        return self.ev(st, s.iter, lambda s2, it: self.for_over(s2, s, it))

    def static_items_of(self, st, it):
        """python-side contents of a value whose length is fixed by the program text, else None"""
        if isinstance(it, VTuple):
            return it.items
        if isinstance(it, VList) and getattr(it, "static_items", None) is not None:
            key = self._seq_key(it.elem, "list")[0]
            if st.heap.get(key) is it.static_heap:       # no list was written since the display
                return it.static_items
        return None

    def for_over(self, st, s, it):
        if it is VNone or isinstance(it, VOpt):
            return self.split_opt(st, it, lambda s_: self.raise_(s_, "TypeError", f"iteration over None at line {s.lineno}"),
                                  lambda s_, inner: self.for_over(s_, s, inner))
        # static tuples are unrolled (their length is a constant of the program text)
        si = self.static_items_of(st, it)
        if si is not None:
            it = VTuple(si)
        if isinstance(it, VTuple):
            outs = [Out("ok", st)]
            for item in it.items:
                nxt = []
                for o in outs:
                    if o.kind != "ok":
                        nxt.append(o)
                        continue
                    for a in self.assign(o.st, s.target, item):
                        if a.kind != "ok":
                            nxt.append(a)
                            continue
                        for b in self.ex_block(a.st, s.body):
                            if b.kind in ("ok", "cnt"):
                                nxt.append(Out("ok", b.st))
                            elif b.kind == "brk":
                                nxt.append(Out("done", b.st))
                            else:
                                nxt.append(b)
                outs = nxt
            return [Out("ok", o.st) if o.kind == "done" else o for o in outs]

        ls = self.loop_spec(s)
        st = self.intro_ghost(st, ls.ghost)
        st = self.snap_entry(st, ls)
        # the iterated sequence, fixed at loop entry
        mk_target, seq_t, ek, extra_body_fact = self.iteration_plan(st, it)
        esort = elem_sort(ek)
        empty = seq_empty(f"(Seq {esort})")
        ord_ = ls.ordinal
        g0 = {"done": VSeq(empty, ek), f"done{ord_}": VSeq(empty, ek), "seq": VSeq(seq_t, ek),
              f"seq{ord_}": VSeq(seq_t, ek)}
        st = self.check_invs(st, ls, "inv_init", g0)
        h = self.havoc_for_loop(st, ls, s.body)
        done = self.decls.fresh(f"done{ord_}", f"(Seq {esort})")
        g = {"done": VSeq(done, ek), f"done{ord_}": VSeq(done, ek), "seq": VSeq(seq_t, ek),
             f"seq{ord_}": VSeq(seq_t, ek)}
        h = h.copy()
        h.ghost.update(g)
        h = self.assume_invs(h, ls, g)
        outs = []
        # exit: everything was visited
        hx = h.assume(Eq(done, seq_t)).note(f"L{s.lineno}:exit")
        if isinstance(it, VPy) and it.what in ("dictview", "dictsnap"):
            # completeness of the key sequence, instantiated for every ghost witness of the key sort:
            # a key of the dictionary (as it was when the view / the snapshot was taken) occurs in the iteration order
            d = it.obj
            at = it.snap_state if it.what == "dictsnap" else hx
            ks = elem_sort(d.k)
            cands = list(st.ghost.values()) + [v for n_, v in self.entry_names.items()]
            for g in cands:
                g = self.unwrap(g) if not isinstance(g, dict) else None
                if g is not None and hasattr(g, "t") and g.t.sort == ks:
                    from .smt import seq_contains_elem, Implies
                    hx.pc.append(Implies(self.dict_has(at, d, g.t), seq_contains_elem(seq_t, g.t)))
        outs.append(Out("ok", hx))
        # one more iteration
        x = self.decls.fresh(f"it{ord_}", esort)
        rest = self.decls.fresh(f"rest{ord_}", f"(Seq {esort})")
        hb = h.assume(Eq(seq_t, seq_concat(done, seq_unit(x), rest))).note(f"L{s.lineno}:iter")
        hb = hb.copy()
        hb.ghost["rest"] = VSeq(rest, ek)
        hb.ghost["cur"] = from_comps(ek, [x])
        hb.ghost[f"cur{ord_}"] = from_comps(ek, [x])
        xv, hb = mk_target(hb, x)
        self.apply_hints(hb, ls.hints, self.inv_env(hb, ls))
        if extra_body_fact is not None:
            hb = hb.assume(extra_body_fact(hb, x))
        for a in self.assign(hb, s.target, xv):
            if a.kind != "ok":
                outs.append(a)
                continue
            for o in self.ex_block(a.st, s.body):
                if o.kind in ("ok", "cnt", "brk", "ret"):
                    o = Out(o.kind, self.check_steps(o.st, ls, a.st, is_ret=(o.kind == "ret"), is_brk=(o.kind == "brk")), o.val)
                if o.kind in ("ok", "cnt") and isinstance(it, VPy) and it.what == "dictview":
                    # iteration over a LIVE dictionary view: the next() that follows a body which changed the key set
                    # raises RuntimeError (CPython compares the size; a changed key set is the over-approximation used
                    # here - equal-size changes are reported as well)
                    dom0, dom1 = self.dict_dom(a.st, it.obj), self.dict_dom(o.st, it.obj)
                    if dom0.s != dom1.s:
                        outs += self.raise_(o.st.assume(Not(Eq(dom0, dom1))), "RuntimeError",
                                            f"dictionary changed during iteration (line {s.lineno})")
                        o = Out(o.kind, o.st.assume(Eq(dom0, dom1)), o.val)
                if o.kind in ("ok", "cnt") and isinstance(it, (VList, VDeque)):
                    # the model iterates over the sequence as it was at loop entry; CPython iterates by index over the LIVE
                    # list.  The two agree only if the body leaves the iterated list alone: an obligation of every iteration
                    t0_, t1_ = self.seq_items(a.st, it), self.seq_items(o.st, it)
                    if t0_.s != t1_.s and getattr(ls, "assume_iter_stable", None):
                        self.assumed_casts = getattr(self, "assumed_casts", set()) | {
                            f"{self.cur_func_name}: ASSUMED that the loop body does not mutate the list it iterates over "
                            f"({ls.assume_iter_stable})"}
                        o = Out(o.kind, o.st.assume(Eq(t0_, t1_)), o.val)
                    elif t0_.s != t1_.s:
                        o = Out(o.kind, self.oblige(o.st, Eq(t0_, t1_), "iter", "iterated-list-not-mutated-by-the-loop-body"), o.val)
                if o.kind in ("ok", "cnt"):
                    self.loop_frame_obligations(o.st, a.st, ls, self.inv_env(a.st, ls))
                if o.kind in ("ok", "cnt"):
                    nd = seq_concat(done, seq_unit(x))
                    g2 = {"done": VSeq(nd, ek), f"done{ord_}": VSeq(nd, ek), "seq": VSeq(seq_t, ek),
                          f"seq{ord_}": VSeq(seq_t, ek)}
                    s3 = o.st.copy()
                    s3.ghost.update(g2)
                    if ls.post_hints:
                        self.apply_hints(s3, ls.post_hints, self.inv_env(s3, ls))
                    self.check_invs(s3, ls, "inv_pres", g2)
                elif o.kind == "brk":
                    outs.append(Out("ok", o.st))
                else:
                    outs.append(o)
        return outs

    def iteration_plan(self, st, it):
        """-> (mk_target(st, elem_term) -> (Value, st), sequence term, elem kind, extra fact fn)"""
        if isinstance(it, (VList, VDeque, VSeq, VBytes)):
            t, ek = self.as_seq(st, it)

            def mk(s, x):
                v = from_comps(ek, [x])
                self.add_ref_facts(s, v)
                return v, s
            return mk, t, ek, None
        if isinstance(it, VPy) and it.what in ("dictview", "dictsnap"):
            d, mode = it.obj, it.extra
            ks = self.decls.fresh("dictkeys", f"(Seq {elem_sort(d.k)})")
            snap = it.snap_state if it.what == "dictsnap" else None

            def mk(s, x):
                kv = from_comps(d.k, [x])
                if mode == "keys":
                    return kv, s
                val = self.dict_get(snap if snap is not None else s, d, x)
                if snap is not None:
                    self.add_ref_facts(s, val)
                if mode == "values":
                    return val, s
                return VTuple([kv, val]), s

            def fact(s, x):
                return self.dict_has(snap if snap is not None else s, d, x)
            st.ghost["dictkeys"] = VSeq(ks, d.k)
            return mk, ks, d.k, fact
        raise Unsupported(f"iteration over {it!r}")
