"""Trusted models of python builtins and of the few stdlib functions the package uses
(T-engine, T-struct, T-sock, T-utf8, T-time in DESIGN.md).  Each model states exactly when the
operation raises what, and what it returns, in terms of abstract codecs whose axioms are
instantiated at term-creation time (no quantifiers reach the solvers)."""
from __future__ import annotations

import re

from .smt import (T, INT, BOOL, REAL, SEQI, STR, TRUE, FALSE, I, And, Or, Not, Eq, Ne, Lt, Le, Gt, Ge, Add,
                  Sub, Mul, Neg, Ite, Implies, FloorDiv, Mod, app, seq_len, seq_concat, seq_unit, seq_empty,
                  seq_extract, seq_contains_elem, seq_nth, is_lit, lit_val, select, store, arr, to_real)
from .state import State, Out, Unsupported
from .values import *
from .spec import REG

BUILTINS = {}
METHODS = {}
EXT = {}


def builtin(name):
    def d(f):
        BUILTINS[name] = f
        return f
    return d


def method(tname, name):
    def d(f):
        METHODS[(tname, name)] = f
        return f
    return d


def ext(name):
    def d(f):
        EXT[name] = f
        return f
    return d


# =============================================================================================
# abstract word codecs (layer S of DESIGN 2.4); concrete layouts are proved in lemmas (layer W)
# =============================================================================================

WIDTHS = {1: "8", 2: "16", 3: "24", 4: "32", 8: "64"}


def _refine_codec(ex, nbytes, seq: T, val: T):
    """Layer-W instance (concrete big-endian layout) for this codec occurrence.  Kept aside: only
    used to refine a 'sat' answer (better counterexamples, or a proof that needed the layout)."""
    from .smt import seq_nth
    key = (seq.s, val.s)
    if key in ex.refine_seen:
        return
    ex.refine_seen.add(key)
    digits = [seq_nth(seq, I(i)) for i in range(nbytes)]
    total = I(0)
    for i, d in enumerate(digits):
        total = Add(total, Mul(d, I(256 ** (nbytes - 1 - i))))
    rng = And(*[And(Le(I(0), d), Lt(d, I(256))) for d in digits])
    ex.refine_facts.append(Implies(And(Eq(seq_len(seq), I(nbytes)), Le(I(0), val), Lt(val, I(256 ** nbytes))),
                                   And(rng, Eq(val, total))))


def be(ex, st: State, nbytes: int, x: T) -> T:
    name = f"be{WIDTHS[nbytes]}"
    uname = f"u{WIDTHS[nbytes]}"
    ex.decls.fun(name, [INT], SEQI)
    ex.decls.fun(uname, [SEQI], INT)
    t = app(name, SEQI, x)
    st.pc.append(Eq(seq_len(t), I(nbytes)))
    st.pc.append(Implies(And(Le(I(0), x), Lt(x, I(256 ** nbytes))), Eq(app(uname, INT, t), x)))
    _refine_codec(ex, nbytes, t, x)
    return t


def un(ex, st: State, nbytes: int, s: T) -> T:
    name = f"be{WIDTHS[nbytes]}"
    uname = f"u{WIDTHS[nbytes]}"
    ex.decls.fun(name, [INT], SEQI)
    ex.decls.fun(uname, [SEQI], INT)
    t = app(uname, INT, s)
    st.pc.append(And(Le(I(0), t), Lt(t, I(256 ** nbytes))))
    st.pc.append(Implies(Eq(seq_len(s), I(nbytes)), Eq(app(name, SEQI, t), s)))
    _refine_codec(ex, nbytes, s, t)
    return t


for _n, _w in WIDTHS.items():
    def _mk(n):
        def f_be(ex, st, x):
            return VBytes(be(ex, st, n, ex.num(ex.unwrap(x))))

        def f_un(ex, st, s):
            return VInt(un(ex, st, n, ex.unwrap(s).t))
        return f_be, f_un
    _b, _u = _mk(_n)
    REG.specfns[f"be{_w}"] = _b
    REG.specfns[f"u{_w}"] = _u


def zeros(ex, st: State, n: T) -> T:
    """n zero bytes (n may be any int; non-positive gives the empty string)."""
    if is_lit(n):
        v = lit_val(n)
        return seq_empty() if v <= 0 else seq_concat(*[seq_unit(I(0))] * v)
    ex.decls.fun("zeros", [INT], SEQI)
    t = app("zeros", SEQI, n)
    st.pc.append(Eq(seq_len(t), Ite(Lt(n, I(0)), I(0), n)))
    st.pc.append(Implies(Le(n, I(0)), Eq(t, seq_empty())))
    return t


@REG.specfn("zeros")
def _zeros(ex, st, n):
    return VBytes(zeros(ex, st, ex.num(n)))


@REG.specfn("bytes_repeat")
def _bytes_repeat(ex, st, s: VBytes, n: VInt):
    if s.t.s == "(seq.unit 0)":
        return VBytes(zeros(ex, st, n.t))
    raise Unsupported("bytes repetition of something other than b'\\0'")


@REG.specfn("pad4")
def _pad4(ex, st, n):
    """number of padding bytes after n payload bytes: (-n) mod 4"""
    return VInt(Mod(Neg(ex.num(n)), I(4)))


# ---- strings: uninterpreted, with the handful of total functions used ------------------------

def _ufun(ex, name, argsorts, ret, *args):
    ex.decls.fun(name, argsorts, ret)
    return app(name, ret, *args)


@REG.specfn("utf8")
def _utf8(ex, st, s):
    """utf-8 encoding of a str (total on str that contain no lone surrogates: valid_str)"""
    s = ex.unwrap(s)
    t = _ufun(ex, "utf8enc", [STR], SEQI, s.t)
    st.pc.append(Implies(_ufun(ex, "encodable", [STR], BOOL, s.t),
                         And(_ufun(ex, "valid_utf8", [SEQI], BOOL, t),
                             Eq(_ufun(ex, "utf8dec", [SEQI], STR, t), s.t))))
    if getattr(s, "lit", None) is not None:
        from .smt import seq_of_ints
        try:
            st.pc.append(Eq(t, seq_of_ints(s.lit.encode("utf8"))))
            st.pc.append(_ufun(ex, "encodable", [STR], BOOL, s.t))
        except UnicodeEncodeError:
            pass
    return VBytes(t)


@REG.specfn("utf8dec")
def _utf8dec(ex, st, b):
    b = ex.unwrap(b)
    t = _ufun(ex, "utf8dec", [SEQI], STR, b.t)
    st.pc.append(Implies(_ufun(ex, "valid_utf8", [SEQI], BOOL, b.t),
                         And(_ufun(ex, "encodable", [STR], BOOL, t),
                             Eq(_ufun(ex, "utf8enc", [STR], SEQI, t), b.t))))
    return VStr(t)


@REG.specfn("valid_utf8")
def _valid_utf8(ex, st, b):
    return VBool(_ufun(ex, "valid_utf8", [SEQI], BOOL, ex.unwrap(b).t))


@REG.specfn("encodable")
def _encodable(ex, st, s):
    return VBool(_ufun(ex, "encodable", [STR], BOOL, ex.unwrap(s).t))


@REG.specfn("lower")
def _lower(ex, st, s):
    s = ex.unwrap(s)
    if getattr(s, "lit", None) is not None:
        v = s.lit.lower()
        return VStr(ex.decls.str_lit(v), lit=v)
    t = _ufun(ex, "str_lower", [STR], STR, s.t)
    st.pc.append(Eq(_ufun(ex, "str_lower", [STR], STR, t), t))     # idempotent
    return VStr(t)


@REG.specfn("str_less")
def _str_less(ex, st, a, b):
    """strict lexicographic order on str: uninterpreted, irreflexive + asymmetric instances"""
    t = _ufun(ex, "str_lt", [STR, STR], BOOL, a.t, b.t)
    r = _ufun(ex, "str_lt", [STR, STR], BOOL, b.t, a.t)
    st.pc.append(Not(And(t, r)))
    st.pc.append(Implies(Eq(a.t, b.t), And(Not(t), Not(r))))
    st.pc.append(Implies(Ne(a.t, b.t), Or(t, r)))
    return VBool(t)


@REG.specfn("fstring")
def _fstring(ex, st, parts, vals):
    """f-string as an injective constructor over (shape, int/str arguments) — assumption T-fmt."""
    shape = "".join("{}" if p[0] == "expr" else p[1].replace("{", "{{") for p in parts)
    if not vals:
        return VStr(ex.decls.str_lit(shape), lit=shape)
    if all(isinstance(v, VStr) and v.lit is not None for v in vals):
        txt = "".join(vals[p[1]].lit if p[0] == "expr" else p[1] for p in parts)
        return VStr(ex.decls.str_lit(txt), lit=txt)
    sorts = []
    terms = []
    for v in vals:
        v = ex.unwrap(v)
        if isinstance(v, (VInt, VStr, VAny, VRef)):
            sorts.append(v.t.sort)
            terms.append(v.t)
        elif isinstance(v, VBool):
            sorts.append(BOOL)
            terms.append(v.t)
        else:
            # formatting of other values: the resulting text is unknown (opaque string)
            return VStr(ex.arbitrary(STR, "fstr"))
    fname = "fmt$" + re.sub(r"[^A-Za-z0-9]", lambda m: f"x{ord(m.group(0)):02x}", shape)
    ex.decls.fun(fname, sorts, STR)
    t = app(fname, STR, *terms)
    # injectivity through explicit inverses
    for i, (so, a) in enumerate(zip(sorts, terms)):
        inv = f"{fname}$inv{i}"
        ex.decls.fun(inv, [STR], so)
        st.pc.append(Eq(app(inv, so, t), a))
    r = VStr(t)
    r.parts = (parts, vals)
    return r


# =============================================================================================
# builtins
# =============================================================================================

@builtin("len")
def _len(ex, st, args, kwargs, k, where):
    v = args[0]
    if v is VNone or isinstance(v, VOpt):
        return ex.split_opt(st, v, lambda s: ex.raise_(s, "TypeError", f"len(None) at {where}"),
                            lambda s, inner: _len(ex, s, [inner], kwargs, k, where))
    if isinstance(v, VTuple):
        return k(st, VInt(I(len(v.items))))
    if isinstance(v, VDict):
        fn = ex.reg.specfns.get("dict_size")
        if fn is None:
            raise Unsupported("len(dict)")
        return k(st, fn(ex, st, v))
    t, _ = ex.as_seq(st, v)
    return k(st, VInt(seq_len(t)))


@builtin("bool")
def _bool(ex, st, args, kwargs, k, where):
    return k(st, VBool(ex.truthy(st, args[0])))


@builtin("bytes")
def _bytes_ctor(ex, st, args, kwargs, k, where):
    """bytes(x): identity on bytes; bytes(n) = n octets (content left arbitrary, length n; ValueError for n < 0);
    bytes(str) without an encoding is a TypeError; anything else is outside the subset"""
    if not args and not kwargs:
        return k(st, VBytes(seq_empty(SEQI)))
    if len(args) != 1 or kwargs:
        raise Unsupported(f"bytes() with these arguments at {where}")
    v = args[0]
    if v is VNone or isinstance(v, VOpt):
        return ex.split_opt(st, v, lambda s: ex.raise_(s, "TypeError", f"bytes(None) at {where}"),
                            lambda s, inner: _bytes_ctor(ex, s, [inner], kwargs, k, where))
    if isinstance(v, VBytes):
        return k(st, v)
    if isinstance(v, VStr):
        return ex.raise_(st, "TypeError", f"bytes(str) without encoding at {where}")
    if isinstance(v, VInt):
        outs = ex.raise_(st.assume(Lt(v.t, I(0))), "ValueError", f"bytes(negative) at {where}")
        s2 = st.assume(Ge(v.t, I(0)))
        t = ex.arbitrary(SEQI, "bytes_n")
        s2.pc.append(Eq(seq_len(t), v.t))
        return outs + k(s2, VBytes(t))
    raise Unsupported(f"bytes() of {v!r} at {where}")


@builtin("int")
def _int(ex, st, args, kwargs, k, where):
    v = args[0]
    if v is VNone or isinstance(v, VOpt):
        return ex.split_opt(st, v, lambda s: ex.raise_(s, "TypeError", f"int(None) at {where}"),
                            lambda s, inner: _int(ex, s, [inner], kwargs, k, where))
    if isinstance(v, VInt):
        return k(st, v)
    if isinstance(v, VBool):
        return k(st, VInt(Ite(v.t, I(1), I(0))))
    if isinstance(v, VFloat):
        # truncation toward zero
        fl = T(f"(to_int {v.t.s})", INT)
        neg = T(f"(- (to_int (- {v.t.s})))", INT)
        return k(st, VInt(Ite(Ge(v.t, T("0.0", REAL)), fl, neg)))
    raise Unsupported(f"int({v!r}) at {where}")


@builtin("isinstance")
def _isinstance(ex, st, args, kwargs, k, where):
    v, c = args
    if isinstance(v, VOpt):
        return ex.split_opt(st, v, lambda s: k(s, VBool(FALSE)),
                            lambda s, inner: _isinstance(ex, s, [inner, c], kwargs, k, where))
    classes = c.items if isinstance(c, VTuple) else [c]
    res = FALSE
    for cv in classes:
        res = Or(res, _isinst1(ex, st, v, cv, where))
    return k(st, VBool(res))


_PRIM_CLASSES = {"bytes": VBytes, "str": VStr, "list": (VList,), "tuple": VTuple, "float": VFloat,
                 "dict": VDict, "bool": VBool}


def _isinst1(ex, st, v, cv, where) -> T:
    if isinstance(v, VAny):
        # opaque token: instance-of is an uninterpreted predicate of (token, class)
        cname = cv.obj.name if isinstance(cv, VPy) and cv.what == "class" else str(getattr(cv, "obj", cv))
        return _ufun(ex, "tok_isinst", [INT, INT], BOOL, v.t, ex.class_id(cname))
    if isinstance(cv, VPy) and cv.what == "builtin":
        n = cv.obj
        if n == "int":
            return TRUE if isinstance(v, (VInt, VBool)) else FALSE
        if n in _PRIM_CLASSES:
            return TRUE if isinstance(v, _PRIM_CLASSES[n]) else FALSE
        raise Unsupported(f"isinstance(_, {n})")
    if isinstance(cv, VPy) and cv.what == "class":
        if isinstance(v, VRef):
            ci = ex.try_cls(v.cls)
            if ci is not None and ci.is_subclass_of(cv.obj):
                return TRUE
            if ci is not None and not cv.obj.is_subclass_of(ci):
                return FALSE
            if v.exact:
                return FALSE
            return ex.is_instance_term(st, v.t, cv.obj.name)
        if isinstance(v, VExc):
            return TRUE if ex.exc_isa(v.cls, cv.obj.name) else FALSE
        return FALSE
    if isinstance(cv, VPy) and cv.what in ("ext", "extclass"):
        n = cv.obj
        if n in ("datetime.datetime",) and isinstance(v, VRef):
            return TRUE if v.cls == "datetime" else FALSE
        if isinstance(v, VRef):
            return TRUE if v.cls == n.split(".")[-1] else FALSE
        return FALSE
    raise Unsupported(f"isinstance second argument {cv!r} at {where}")


@builtin("hasattr")
def _hasattr(ex, st, args, kwargs, k, where):
    v, name = args
    if isinstance(name, VStr) and name.lit is not None:
        v = ex.unwrap(v) if not isinstance(v, VOpt) else v
        if isinstance(v, VOpt) or v is VNone:
            raise Unsupported("hasattr on Optional")
        return k(st, VBool(ex.hasattr_term(st, v, name.lit)))
    fn = ex.reg.specfns.get("hasattr_dyn")
    if fn is None:
        raise Unsupported(f"hasattr with a computed name at {where}")
    return k(st, fn(ex, st, v, name))


@builtin("getattr")
def _getattr(ex, st, args, kwargs, k, where):
    v, name = args[0], args[1]
    if isinstance(name, VStr) and name.lit is not None:
        return ex.get_attr(st, v, name.lit, k)
    fn = ex.reg.specfns.get("getattr_dyn")
    if fn is None:
        raise Unsupported(f"getattr with a computed name at {where}")
    return fn(ex, st, v, name, k, where)


@builtin("int.from_bytes")
def _int_from_bytes(ex, st, args, kwargs, k, where):
    """int.from_bytes(b, "big"|"little", signed=...): an uninterpreted function of the bytes (per byte order and
    signedness); non-negative when unsigned; never raises for a bytes argument"""
    b = ex.unwrap(args[0])
    order = args[1] if len(args) > 1 else kwargs.get("byteorder")
    signed = kwargs.get("signed")
    if not isinstance(b, VBytes) or not isinstance(order, VStr) or order.lit not in ("big", "little"):
        raise Unsupported(f"int.from_bytes form at {where}")
    sg = "u"
    if signed is not None:
        if not (isinstance(signed, VBool) and signed.t.s in ("true", "false")):
            raise Unsupported(f"int.from_bytes with a computed signed flag at {where}")
        sg = "s" if signed.t.s == "true" else "u"
    t = _ufun(ex, f"int_from_bytes_{order.lit}_{sg}", [SEQI], INT, b.t)
    st = st.copy()
    if sg == "u":
        st.pc.append(Le(I(0), t))
    return k(st, VInt(t))


@builtin("issubclass")
def _issubclass(ex, st, args, kwargs, k, where):
    """issubclass(<class token>, <class of the package>): an uninterpreted predicate of the token and the class"""
    tok, cv = args
    if not isinstance(tok, VAny) or not (isinstance(cv, VPy) and cv.what == "class"):
        raise Unsupported(f"issubclass form at {where}")
    return k(st, VBool(_ufun(ex, "tok_subclass", [INT, INT], BOOL, tok.t, ex.class_id(cv.obj.name))))


@builtin("setattr")
def _setattr(ex, st, args, kwargs, k, where):
    v, name, val = args
    if isinstance(name, VStr) and name.lit is not None:
        outs = []
        for o in ex.set_attr(st, v, name.lit, val, type("N", (), {"lineno": 0})()):
            outs += k(o.st, VNone) if o.kind == "ok" else [o]
        return outs
    fn = ex.reg.specfns.get("setattr_dyn")
    if fn is None:
        raise Unsupported(f"setattr with a computed name at {where}")
    return fn(ex, st, v, name, val, k, where)


@builtin("list")
def _list(ex, st, args, kwargs, k, where):
    if not args:
        hint = ex.kind_hints.get((ex.cur_func_name, "list()"))
        ek = parse_kind(hint).elem if hint else K_ANY
        s2, l = ex.new_list(st, ek)
        return k(s2, l)
    v = args[0]
    if isinstance(v, VTuple):
        ek = v.items[0].kind if v.items else K_ANY
        items = seq_concat(*[seq_unit(ex.comp1(i, ek)) for i in v.items]) if v.items else seq_empty()
        s2, l = ex.new_list(st, ek, items)
        return k(s2, l)
    if isinstance(v, VPy) and v.what == "dictview":
        d, mode = v.obj, v.extra
        # a snapshot of the view: usable as the iterable of a `for` (the elements are those the dictionary held NOW, in
        # an arbitrary order fixed here); any other use of the list is outside the subset
        snap = VPy("dictsnap", d, mode)
        snap.snap_state = st
        return k(st, snap)
    if isinstance(v, VSet):
        s2, l = list_of_set(ex, st, v)
        return k(s2, l)
    t, ek = ex.as_seq(st, v)
    s2, l = ex.new_list(st, ek, t)
    return k(s2, l)


@builtin("hex")
def _hex(ex, st, args, kwargs, k, where):
    return k(st, VStr(ex.arbitrary(STR, "hex")))


@builtin("str")
def _str(ex, st, args, kwargs, k, where):
    return k(st, VStr(ex.arbitrary(STR, "str")))


@builtin("repr")
def _repr(ex, st, args, kwargs, k, where):
    return k(st, VStr(ex.arbitrary(STR, "repr")))


# =============================================================================================
# methods of builtin types
# =============================================================================================

@method("VBytes", "decode")
def _b_decode(ex, st, base, args, kwargs, k, where):
    codec = args[0] if args else kwargs.get("encoding")
    if codec is not None:
        lit = getattr(codec, "lit", None)
        if lit is None:
            raise Unsupported(f"bytes.decode with a computed codec at {where}")
        if lit.lower().replace("_", "-") not in ("utf8", "utf-8"):
            # another codec: an unrelated uninterpreted decoding (may raise UnicodeDecodeError)
            nm = re.sub(r"[^A-Za-z0-9]", "_", lit.lower())
            ok = _ufun(ex, f"valid_{nm}", [SEQI], BOOL, base.t)
            outs = ex.raise_(st.assume(Not(ok)), "UnicodeDecodeError", where)
            return outs + k(st.assume(ok), VStr(_ufun(ex, f"decode_{nm}", [SEQI], STR, base.t)))
    valid = _ufun(ex, "valid_utf8", [SEQI], BOOL, base.t)
    outs = ex.raise_(st.assume(Not(valid)), "UnicodeDecodeError", where)
    s2 = st.assume(valid)
    outs += k(s2, REG.specfns["utf8dec"](ex, s2, base))
    return outs


def _b_case(fname):
    def f(ex, st, base, args, kwargs, k, where):
        # bytes.lower()/upper(): an uninterpreted, length-preserving, idempotent function of the byte string
        t = _ufun(ex, fname, [SEQI], SEQI, base.t)
        st.pc.append(Eq(seq_len(t), seq_len(base.t)))
        st.pc.append(Eq(_ufun(ex, fname, [SEQI], SEQI, t), t))
        return k(st, VBytes(t))
    return f


METHODS[("VBytes", "lower")] = _b_case("bytes_lower")
METHODS[("VBytes", "upper")] = _b_case("bytes_upper")


@method("VBytes", "hex")
def _b_hex(ex, st, base, args, kwargs, k, where):
    t = _ufun(ex, "bytes_hex", [SEQI], STR, base.t)
    st.pc.append(Eq(_ufun(ex, "bytes_fromhex", [STR], SEQI, t), base.t))
    return k(st, VStr(t))


@method("VStr", "encode")
def _s_encode(ex, st, base, args, kwargs, k, where):
    enc = _ufun(ex, "encodable", [STR], BOOL, base.t)
    outs = []
    if getattr(base, "lit", None) is None:
        outs += ex.raise_(st.assume(Not(enc)), "UnicodeEncodeError", where)
    s2 = st.assume(enc)
    outs += k(s2, REG.specfns["utf8"](ex, s2, base))
    return outs


@method("VStr", "lower")
def _s_lower(ex, st, base, args, kwargs, k, where):
    return k(st, REG.specfns["lower"](ex, st, base))


@method("VStr", "replace")
def _s_replace(ex, st, base, args, kwargs, k, where):
    a, b = args
    if base.lit is not None and a.lit is not None and b.lit is not None:
        v = base.lit.replace(a.lit, b.lit)
        return k(st, VStr(ex.decls.str_lit(v), lit=v))
    if a.lit is None or b.lit is None:
        raise Unsupported("str.replace with non-literal arguments")
    fname = "str_replace$" + re.sub(r"[^A-Za-z0-9]", lambda m: f"x{ord(m.group(0)):02x}", a.lit + "$" + b.lit)
    return k(st, VStr(_ufun(ex, fname, [STR], STR, base.t)))


@method("VList", "append")
def _l_append(ex, st, base, args, kwargs, k, where):
    v = args[0]
    if isinstance(base.elem, KPrim) and base.elem.name.startswith("Any") and (v is VNone or isinstance(v, VOpt)):
        # None stored in a list of opaque values: a distinguished token
        nt = ex.decls.const("none$token", INT)
        if v is VNone:
            v = VAny(nt)
        elif hasattr(v.inner, "t") and v.inner.t.sort == INT:
            v = VAny(Ite(v.isnone, nt, v.inner.t))
    c = to_comps(ex.coerce(st, v, base.elem), base.elem, lambda so: ex.arbitrary(so))
    if len(c) != 1:
        raise Unsupported("append of a multi-component value")
    s2 = ex.set_seq_items(st, base, seq_concat(ex.seq_items(st, base), seq_unit(c[0])))
    return k(s2, VNone)


@method("VList", "remove")
def _l_remove(ex, st, base, args, kwargs, k, where):
    """list.remove(x): ValueError when x is not an element; else the FIRST occurrence is dropped (its index i: items[i] == x and
    x does not occur in items[:i])"""
    v = args[0]
    c = to_comps(ex.coerce(st, v, base.elem), base.elem, lambda so: ex.arbitrary(so))
    if len(c) != 1:
        raise Unsupported("remove of a multi-component value")
    items = ex.seq_items(st, base)
    has = seq_contains_elem(items, c[0])
    outs = ex.raise_(st.assume(Not(has)), "ValueError", where)
    i = ex.arbitrary(INT, "rm_ix")
    s2 = st.assume(has)
    s2.pc.append(And(Le(I(0), i), Lt(i, seq_len(items)), Eq(seq_nth(items, i), c[0]),
                     Not(seq_contains_elem(ex.slice_term(items, None, i), c[0]))))
    s2 = ex.set_seq_items(s2, base, seq_concat(ex.slice_term(items, None, i), ex.slice_term(items, Add(i, I(1)), None)))
    outs += k(s2, VNone)
    return outs


@method("VList", "insert")
def _l_insert(ex, st, base, args, kwargs, k, where):
    """list.insert(i, x): items[:i] + [x] + items[i:] with python's clamping of i; never raises"""
    i = ex.num(ex.unwrap(args[0]))
    v = args[1]
    if isinstance(base.elem, KPrim) and base.elem.name.startswith("Any") and (v is VNone or isinstance(v, VOpt)):
        nt = ex.decls.const("none$token", INT)
        if v is VNone:
            v = VAny(nt)
        elif hasattr(v.inner, "t") and v.inner.t.sort == INT:
            v = VAny(Ite(v.isnone, nt, v.inner.t))
    c = to_comps(ex.coerce(st, v, base.elem), base.elem, lambda so: ex.arbitrary(so))
    if len(c) != 1:
        raise Unsupported("insert of a multi-component value")
    items = ex.seq_items(st, base)
    s2 = ex.set_seq_items(st, base, seq_concat(ex.slice_term(items, None, i), seq_unit(c[0]), ex.slice_term(items, i, None)))
    return k(s2, VNone)


@method("VDeque", "append")
def _dq_append(ex, st, base, args, kwargs, k, where):
    v = ex.unwrap_strict(args[0])
    items = ex.seq_items(st, base)
    ml = ex.deque_maxlen(st, base)
    n = seq_len(items)
    # maxlen < 0 stands for "no maxlen" (an unbounded deque)
    full = And(Ge(ml, I(0)), Ge(n, ml))
    new = Ite(full, seq_concat(seq_extract(items, I(1), Sub(n, I(1))), seq_unit(v.t)),
              seq_concat(items, seq_unit(v.t)))
    # maxlen == 0 keeps the deque empty
    new = Ite(Eq(ml, I(0)), seq_empty(items.sort), new)
    return k(ex.set_seq_items(st, base, new), VNone)


@method("VDict", "get")
def _d_get(ex, st, base, args, kwargs, k, where):
    kt = ex.key_term(args[0], base.k)
    has = ex.dict_has(st, base, kt)
    dflt = args[1] if len(args) > 1 else VNone
    outs = []
    s1 = st.assume(has)
    outs += k(s1, ex.dict_get(s1, base, kt))
    if Not(has).s != "false":
        outs += k(st.assume(Not(has)), dflt)
    return outs


@method("VDict", "setdefault")
def _d_setdefault(ex, st, base, args, kwargs, k, where):
    kt = ex.key_term(args[0], base.k)
    has = ex.dict_has(st, base, kt)
    outs = []
    s1 = st.assume(has)
    outs += k(s1, ex.dict_get(s1, base, kt))
    s2 = ex.dict_set(st.assume(Not(has)), base, kt, ex.coerce(st, args[1], base.v))
    outs += k(s2, ex.dict_get(s2, base, kt))
    return outs


@method("VDict", "pop")
def _d_pop(ex, st, base, args, kwargs, k, where):
    kt = ex.key_term(args[0], base.k)
    has = ex.dict_has(st, base, kt)
    outs = []
    s1 = st.assume(has)
    v = ex.dict_get(s1, base, kt)
    outs += k(ex.dict_del(s1, base, kt), v)
    s2 = st.assume(Not(has))
    if len(args) > 1:
        outs += k(s2, args[1])
    else:
        outs += ex.raise_(s2, "KeyError", where)
    return outs


def _dictview(mode):
    def f(ex, st, base, args, kwargs, k, where):
        return k(st, VPy("dictview", base, mode))
    return f


METHODS[("VDict", "items")] = _dictview("items")
METHODS[("VDict", "values")] = _dictview("values")
METHODS[("VDict", "keys")] = _dictview("keys")


# =============================================================================================
# external functions: struct, socket, time, random, os
# =============================================================================================

_INT_FMT = {  # fmt -> (size, signed)
    ">L": (4, False), "!L": (4, False), ">I": (4, False), "!I": (4, False),
    ">l": (4, True), "!l": (4, True), ">i": (4, True), "!i": (4, True),
    ">B": (1, False), "!B": (1, False), ">H": (2, False), "!H": (2, False),
    ">h": (2, True), "!h": (2, True),
    ">Q": (8, False), "!Q": (8, False), ">q": (8, True), "!q": (8, True),
}
_FLOAT_FMT = {">f": 4, "!f": 4, ">d": 8, "!d": 8}


def pack_int(ex, st, size, signed, x: T) -> tuple:
    """-> (in_range condition, bytes term)"""
    full = 256 ** size
    if signed:
        ok = And(Le(I(-(full // 2)), x), Lt(x, I(full // 2)))
        enc = Mod(x, I(full))
    else:
        ok = And(Le(I(0), x), Lt(x, I(full)))
        enc = x
    return ok, be(ex, st, size, enc)


def unpack_int(ex, st, size, signed, s: T) -> T:
    v = un(ex, st, size, s)
    if signed:
        full = 256 ** size
        return Ite(Lt(v, I(full // 2)), v, Sub(v, I(full)))
    return v


def float_enc(ex, st, size, x: T) -> T:
    name = f"f{size * 8}enc"
    dec = f"f{size * 8}dec"
    ex.decls.fun(name, [x.sort], SEQI)
    ex.decls.fun(dec, [SEQI], x.sort)
    ex.decls.fun(f"f{size * 8}exact", [x.sort], BOOL)
    t = app(name, SEQI, x)
    st.pc.append(Eq(seq_len(t), I(size)))
    st.pc.append(Implies(app(f"f{size * 8}exact", BOOL, x), Eq(app(dec, x.sort, t), x)))    # T-float
    return t


def float_dec(ex, st, size, s: T, sort) -> T:
    name = f"f{size * 8}enc"
    dec = f"f{size * 8}dec"
    ex.decls.fun(name, [sort], SEQI)
    ex.decls.fun(dec, [SEQI], sort)
    ex.decls.fun(f"f{size * 8}exact", [sort], BOOL)
    t = app(dec, sort, s)
    st.pc.append(app(f"f{size * 8}exact", BOOL, t))
    st.pc.append(Implies(Eq(seq_len(s), I(size)), Eq(app(name, SEQI, t), s)))                # T-float
    return t


def _fmt_of(v):
    if isinstance(v, VStr) and v.lit is not None:
        return v.lit
    return None


@ext("struct.pack")
def _struct_pack(ex, st, args, kwargs, k, where):
    fmtv = args[0]
    fmt = _fmt_of(fmtv)
    if fmt in _INT_FMT:
        size, signed = _INT_FMT[fmt]
        x = args[1]
        if x is VNone or isinstance(x, VOpt):
            return ex.split_opt(st, x, lambda s: ex.raise_(s, "struct.error", f"pack None at {where}"),
                                lambda s, inner: _struct_pack(ex, s, [fmtv, inner], kwargs, k, where))
        if not isinstance(x, (VInt, VBool)):
            # a non-integer argument is rejected by struct with struct.error
            return ex.raise_(st, "struct.error", f"pack non-int at {where}")
        ok, enc = pack_int(ex, st, size, signed, ex.num(x))
        outs = []
        if Not(ok).s != "false":
            outs += ex.raise_(st.assume(Not(ok)), "struct.error", f"pack out of range at {where}")
        outs += k(st.assume(ok), VBytes(enc))
        return outs
    if fmt in _FLOAT_FMT:
        size = _FLOAT_FMT[fmt]
        x = args[1]
        if not isinstance(x, (VAny, VFloat)):
            return ex.raise_(st, "struct.error", f"pack non-float at {where}")
        ex.decls.fun(f"f{size * 8}fits", [x.t.sort], BOOL)
        fits = app(f"f{size * 8}fits", BOOL, x.t)
        outs = []
        if size == 4:
            outs += ex.raise_(st.assume(Not(fits)), "OverflowError", f"float too large at {where}")
            s2 = st.assume(fits)
        else:
            s2 = st
        outs += k(s2, VBytes(float_enc(ex, s2, size, x.t)))
        return outs
    # address layouts: "!h4s", "!h16s", f"!h{n}s"
    m = re.fullmatch(r"!h(\d+)s", fmt) if fmt else None
    dyn = getattr(fmtv, "parts", None)
    if m or dyn:
        fam, data = args[1], args[2]
        if not isinstance(data, VBytes):
            return ex.raise_(st, "struct.error", f"pack 's' with non-bytes at {where}")
        if m:
            n = I(int(m.group(1)))
        else:
            parts, vals = dyn
            shape = [p if p[0] == "lit" else ("expr",) for p in parts]
            if [p[1] if p[0] == "lit" else None for p in parts] != ["!h", None, "s"]:
                raise Unsupported(f"dynamic struct format at {where}")
            n = ex.num(vals[0])
        ok, enc = pack_int(ex, st, 2, True, ex.num(fam))
        ln = seq_len(data.t)
        body = Ite(Ge(ln, n), seq_extract(data.t, I(0), n), seq_concat(data.t, zeros(ex, st, Sub(n, ln))))
        outs = []
        if Not(ok).s != "false":
            outs += ex.raise_(st.assume(Not(ok)), "struct.error", where)
        outs += k(st.assume(ok), VBytes(seq_concat(enc, body)))
        return outs
    if fmt == "ii":
        return k(st, VBytes(ex.arbitrary(SEQI, "linger")))
    raise Unsupported(f"struct.pack format {fmt!r} at {where}")


@ext("struct.unpack")
def _struct_unpack(ex, st, args, kwargs, k, where):
    fmt = _fmt_of(args[0])
    data = args[1]
    if data is VNone or isinstance(data, VOpt):
        return ex.split_opt(st, data, lambda s: ex.raise_(s, "TypeError", f"unpack None at {where}"),
                            lambda s, inner: _struct_unpack(ex, s, [args[0], inner], kwargs, k, where))
    if not isinstance(data, VBytes):
        return ex.raise_(st, "TypeError", f"unpack of non-bytes at {where}")
    if fmt in _INT_FMT:
        size, signed = _INT_FMT[fmt]
    elif fmt in _FLOAT_FMT:
        size = _FLOAT_FMT[fmt]
    else:
        raise Unsupported(f"struct.unpack format {fmt!r}")
    okl = Eq(seq_len(data.t), I(size))
    outs = ex.raise_(st.assume(Not(okl)), "struct.error", f"unpack size at {where}")
    s2 = st.assume(okl)
    if fmt in _INT_FMT:
        val = VInt(unpack_int(ex, s2, size, signed, data.t))
    else:
        val = VAny(float_dec(ex, s2, size, data.t, INT))
    outs += k(s2, VPy("structresult", val))
    return outs


@ext("time.time")
def _time(ex, st, args, kwargs, k, where):
    t = ex.decls.fresh("now", REAL)
    s2 = st.assume(Le(st.clock, t))
    s2 = s2.copy()
    s2.clock = t
    return k(s2, VFloat(t))


@ext("time.monotonic")
def _monotonic(ex, st, args, kwargs, k, where):
    """time.monotonic(): a clock unrelated to time.time() (an arbitrary real; the virtual clock does not move)"""
    return k(st, VFloat(ex.arbitrary(REAL, "monotonic")))


@ext("time.sleep")
def _sleep(ex, st, args, kwargs, k, where):
    t = ex.decls.fresh("now", REAL)
    s2 = st.assume(Le(st.clock, t)).copy()
    s2.clock = t
    return k(s2, VNone)


@ext("random.randint")
def _randint(ex, st, args, kwargs, k, where):
    lo, hi = ex.num(args[0]), ex.num(args[1])
    r = ex.decls.fresh("rand", INT)
    return k(st.assume(And(Le(lo, r), Le(r, hi))), VInt(r))


@ext("random.getrandbits")
def _getrandbits(ex, st, args, kwargs, k, where):
    n = args[0]
    if not is_lit(n.t):
        raise Unsupported("getrandbits(n) with symbolic n")
    r = ex.decls.fresh("randbits", INT)
    return k(st.assume(And(Le(I(0), r), Lt(r, I(2 ** lit_val(n.t))))), VInt(r))


# ---- sockets (T-sock) ------------------------------------------------------------------------------

@REG.specfn("str_contains")
def _str_contains(ex, st, hay, needle):
    hay, needle = ex.unwrap(hay), ex.unwrap(needle)
    if getattr(hay, "lit", None) is not None and getattr(needle, "lit", None) is not None:
        return VBool(TRUE if needle.lit in hay.lit else FALSE)
    return VBool(_ufun(ex, "str_contains", [STR, STR], BOOL, hay.t, needle.t))


def _addr_fns(ex, fam: int):
    n = 4 if fam == 4 else 16
    return (f"is_ipv{fam}", f"pton{fam}", f"ntop{fam}", f"canon_ipv{fam}", n)


def pton(ex, st, fam, s: T) -> T:
    isip, p, q, canon, n = _addr_fns(ex, fam)
    t = _ufun(ex, p, [STR], SEQI, s)
    valid = _ufun(ex, isip, [STR], BOOL, s)
    st.pc.append(Implies(valid, And(Eq(seq_len(t), I(n)),
                                    Implies(_ufun(ex, canon, [STR], BOOL, s),
                                            Eq(_ufun(ex, q, [SEQI], STR, t), s)))))
    sep = ex.decls.str_lit("." if fam == 4 else ":")
    st.pc.append(Implies(valid, _ufun(ex, "str_contains", [STR, STR], BOOL, s, sep)))
    return t


def ntop(ex, st, fam, b: T) -> T:
    isip, p, q, canon, n = _addr_fns(ex, fam)
    t = _ufun(ex, q, [SEQI], STR, b)
    st.pc.append(Implies(Eq(seq_len(b), I(n)),
                         And(_ufun(ex, isip, [STR], BOOL, t), _ufun(ex, canon, [STR], BOOL, t),
                             Eq(_ufun(ex, p, [STR], SEQI, t), b))))
    return t


for _fam in (4, 6):
    def _mk2(fam):
        def f_pton(ex, st, s):
            return VBytes(pton(ex, st, fam, ex.unwrap(s).t))

        def f_ntop(ex, st, b):
            return VStr(ntop(ex, st, fam, ex.unwrap(b).t))

        def f_is(ex, st, s):
            return VBool(_ufun(ex, f"is_ipv{fam}", [STR], BOOL, ex.unwrap(s).t))

        def f_canon(ex, st, s):
            return VBool(_ufun(ex, f"canon_ipv{fam}", [STR], BOOL, ex.unwrap(s).t))
        return f_pton, f_ntop, f_is, f_canon
    _a, _b2, _c, _d = _mk2(_fam)
    REG.specfns[f"pton{_fam}"] = _a
    REG.specfns[f"ntop{_fam}"] = _b2
    REG.specfns[f"is_ipv{_fam}"] = _c
    REG.specfns[f"canon_ipv{_fam}"] = _d


def _family(v):
    if isinstance(v, VPy) and v.what == "ext":
        return {"socket.AF_INET": 4, "socket.AF_INET6": 6}.get(v.obj)
    return None


@ext("socket.inet_pton")
def _inet_pton(ex, st, args, kwargs, k, where):
    fam = _family(args[0])
    s = args[1]
    if fam is None:
        raise Unsupported(f"inet_pton family at {where}")
    if not isinstance(s, VStr):
        return ex.raise_(st, "TypeError", f"inet_pton of non-str at {where}")
    valid = _ufun(ex, f"is_ipv{fam}", [STR], BOOL, s.t)
    outs = ex.raise_(st.assume(Not(valid)), "OSError", f"illegal IP address string at {where}")
    s2 = st.assume(valid)
    outs += k(s2, VBytes(pton(ex, s2, fam, s.t)))
    return outs


@ext("socket.inet_aton")
def _inet_aton(ex, st, args, kwargs, k, where):
    """socket.inet_aton: accepts every dotted quad (with the result of inet_pton) AND other spellings ("10.1", "0x7f.1",
    trailing text after a space) - for those the result is some 4 bytes"""
    s = args[0]
    if not isinstance(s, VStr):
        return ex.raise_(st, "TypeError", f"inet_aton of non-str at {where}")
    strict = _ufun(ex, "is_ipv4", [STR], BOOL, s.t)
    loose = _ufun(ex, "aton_accepts", [STR], BOOL, s.t)
    ok = Or(strict, loose)
    outs = ex.raise_(st.assume(Not(ok)), "OSError", f"illegal IP address string at {where}")
    s2 = st.assume(strict)
    outs += k(s2, VBytes(pton(ex, s2, 4, s.t)))
    s3 = st.assume(And(Not(strict), loose))
    t = ex.arbitrary(SEQI, "aton")
    outs += k(s3.assume(Eq(seq_len(t), I(4))), VBytes(t))
    return outs


@ext("socket.inet_ntop")
def _inet_ntop(ex, st, args, kwargs, k, where):
    fam = _family(args[0])
    b = args[1]
    if fam is None:
        raise Unsupported(f"inet_ntop family at {where}")
    if not isinstance(b, VBytes):
        return ex.raise_(st, "TypeError", f"inet_ntop of non-bytes at {where}")
    n = 4 if fam == 4 else 16
    okl = Eq(seq_len(b.t), I(n))
    outs = ex.raise_(st.assume(Not(okl)), "ValueError", f"invalid length of packed IP address at {where}")
    s2 = st.assume(okl)
    outs += k(s2, VStr(ntop(ex, s2, fam, b.t)))
    return outs


# ---- datetime (T-time: process TZ=UTC, naive datetimes, whole seconds) -----------------------------

REG.model("datetime", builtin=True, fields={"ts": "int"})
DT_MIN, DT_MAX = -62135596800, 253402300799


@ext("datetime.datetime.fromtimestamp")
def _fromtimestamp(ex, st, args, kwargs, k, where):
    x = ex.unwrap_strict(args[0])
    t = ex.num(x)
    ok = And(Le(I(DT_MIN), t), Le(t, I(DT_MAX)))
    outs = []
    if Not(ok).s != "false":
        outs += ex.raise_(st.assume(Not(ok)), "ValueError", f"year out of range at {where}")
    s2, obj = ex.alloc_obj(st.assume(ok), "datetime")
    s2 = ex.write_field(s2, obj, "ts", VInt(t))
    outs += k(s2, obj)
    return outs


def _dt_timestamp(ex, st, base, args, kwargs, k, where):
    ts = ex.read_field(st, base, "ts")
    return k(st, VFloat(to_real(ts.t)))


REG.contract("datetime.timestamp", trusted=True, params={"self": "datetime"}, returns="float",
             ensures=["result == self.ts"])


def _float_specfns():
    for size in (4, 8):
        bits = size * 8

        def mk(size, bits):
            def enc(ex, st, x):
                return VBytes(float_enc(ex, st, size, ex.unwrap(x).t))

            def dec(ex, st, b):
                return VAny(float_dec(ex, st, size, ex.unwrap(b).t, INT))

            def fits(ex, st, x):
                ex.decls.fun(f"f{bits}fits", [INT], BOOL)
                return VBool(app(f"f{bits}fits", BOOL, ex.unwrap(x).t))

            def exact(ex, st, x):
                ex.decls.fun(f"f{bits}exact", [INT], BOOL)
                return VBool(app(f"f{bits}exact", BOOL, ex.unwrap(x).t))
            return enc, dec, fits, exact
        e, d, f, x = mk(size, bits)
        REG.specfns[f"f{bits}enc"] = e
        REG.specfns[f"f{bits}dec"] = d
        REG.specfns[f"f{bits}fits"] = f
        REG.specfns[f"f{bits}exact"] = x


_float_specfns()


@method("litdict", "items")
def _litdict_items(ex, st, base, args, kwargs, k, where):
    return k(st, VTuple([VTuple([VStr(ex.decls.str_lit(key), lit=key), v]) for key, v in base.obj]))


@method("constdict", "get")
def _constdict_get(ex, st, base, args, kwargs, k, where):
    # a module-level constant table (e.g. VENDORS): the looked-up value is opaque, possibly None
    return k(st, VOpt(ex.arbitrary(BOOL, "tbl_none"), VAny(ex.arbitrary(INT, "tbl_val"))))


def joined_fn_name(sep: str, gen) -> str:
    """name of the uninterpreted function standing for `sep.join(<elt> for <target> in xs)`: determined by the
    separator and the text of the element expression and target (a deterministic function of xs only if the element
    expression mentions nothing but the target's names - checked)"""
    import ast as _ast
    import hashlib
    g = gen.generators[0]
    tnames = {n.id for n in _ast.walk(g.target) if isinstance(n, _ast.Name)}
    used = {n.id for n in _ast.walk(gen.elt) if isinstance(n, _ast.Name)}
    if not used <= tnames:
        raise Unsupported(f"join over a generator whose element mentions other names: {sorted(used - tnames)}")
    key = sep + "|" + _ast.dump(gen.elt) + "|" + _ast.dump(g.target)
    return "joined$" + hashlib.sha1(key.encode()).hexdigest()[:10]


@method("VStr", "join")
def _s_join(ex, st, base, args, kwargs, k, where):
    a = args[0] if args else None
    if isinstance(a, VPy) and a.what == "genexp" and base.lit is not None:
        it = ex.unwrap(a.extra)
        if isinstance(it, VTuple):
            raise Unsupported("join over a static tuple")
        t, ek = ex.as_seq(st, it)
        fn = joined_fn_name(base.lit, a.obj)
        return k(st, VStr(_ufun(ex, fn, [f"(Seq {elem_sort(ek)})"], STR, t)))
    return k(st, VStr(ex.arbitrary(STR, "joined")))


@method("VStr", "endswith")
def _s_endswith(ex, st, base, args, kwargs, k, where):
    a = args[0]
    if base.lit is not None and getattr(a, "lit", None) is not None:
        return k(st, VBool(TRUE if base.lit.endswith(a.lit) else FALSE))
    return k(st, VBool(_ufun(ex, "str_endswith", [STR, STR], BOOL, base.t, a.t)))


@method("VInt", "to_bytes")
def _i_to_bytes(ex, st, base, args, kwargs, k, where):
    n = args[0] if args else kwargs.get("length")
    if not (isinstance(n, VInt) and is_lit(n.t)) or lit_val(n.t) not in WIDTHS:
        raise Unsupported(f"int.to_bytes length at {where}")
    size = lit_val(n.t)
    order = (args[1] if len(args) > 1 else kwargs.get("byteorder"))
    if not (isinstance(order, VStr) and order.lit == "big"):
        raise Unsupported("int.to_bytes byteorder")
    ok = And(Le(I(0), base.t), Lt(base.t, I(256 ** size)))
    outs = []
    if Not(ok).s != "false":
        outs += ex.raise_(st.assume(Not(ok)), "OverflowError", where)
    s2 = st.assume(ok)
    outs += k(s2, VBytes(be(ex, s2, size, base.t)))
    return outs


@REG.specfn("str_slice")
def _str_slice(ex, st, s, lo, hi):
    lo = lo if lo is not None else I(0)
    hi = hi if hi is not None else I(-1)
    return VStr(_ufun(ex, "str_slice", [STR, INT, INT], STR, s.t, lo, hi))


@ext("collections.deque")
def _deque_new(ex, st, args, kwargs, k, where):
    ml = kwargs.get("maxlen")
    if args:
        raise Unsupported(f"deque() form at {where}")
    hint = ex.kind_hints.get((ex.cur_func_name, "deque"))
    ek = parse_kind(hint).elem if hint else K_INT
    mlt = I(-1) if (ml is None or ml is VNone) else ex.num(ex.unwrap_strict(ml))     # -1: unbounded
    s2, d = ex.new_deque(st, ek, mlt)
    return k(s2, d)


@REG.specfn("fstr")
def _fstr_spec(ex, st, shape, *vals):
    """spec-side twin of an f-string: fstr("{}:{}", a, b) denotes the same term as f"{a}:{b}" in code"""
    txt = shape.lit
    parts = []
    i = 0
    n = 0
    for piece in re.split(r"(\{\})", txt):
        if piece == "{}":
            parts.append(("expr", n))
            n += 1
        elif piece:
            parts.append(("lit", piece))
    return _fstring(ex, st, parts, list(vals))


@REG.specfn("maxlen")
def _maxlen(ex, st, d):
    return VInt(ex.deque_maxlen(st, ex.unwrap(d)))


@ext("logging.getLogger")
def _get_logger(ex, st, args, kwargs, k, where):
    return k(st, VPy("ext", "logger-object"))


@REG.specfn("is_prefix")
def _is_prefix(ex, st, a, b):
    ta, _ = ex.as_seq(st, ex.unwrap(a))
    tb, _ = ex.as_seq(st, ex.unwrap(b))
    return VBool(app("seq.prefixof", BOOL, ta, tb))


# =============================================================================================
# sets of ints: heap objects (VSet) with a characteristic array as content; pure set values VSetv in specs.
# Intersection/union are z3 array combinators ((_ map and) / (_ map or)): obligations that use them are
# discharged by the two z3 versions only (cvc5 1.0.3 has no array map).
# =============================================================================================
SETI = "(Array Int Bool)"
EMPTY_SETI = T(f"((as const {SETI}) false)", SETI)


def listset(ex, st, items: T) -> T:
    """the set of the elements of an int sequence: uninterpreted, with the emptiness facts instantiated here:
    len == 0 -> empty set; len > 0 -> the first and the last element are members"""
    ex.decls.fun("listset", ["(Seq Int)"], SETI)
    t = app("listset", SETI, items)
    n = seq_len(items)
    st.pc.append(Implies(Eq(n, I(0)), Eq(t, EMPTY_SETI)))
    st.pc.append(Implies(Gt(n, I(0)), And(select(t, app("seq.nth", INT, items, I(0))),
                                          select(t, app("seq.nth", INT, items, Sub(n, I(1)))))))
    return t


def _set_content_of(ex, st, v, where="") -> T:
    v = ex.unwrap(v)
    if isinstance(v, VSetv):
        return v.t
    if isinstance(v, VSet):
        return ex.set_content(st, v)
    if isinstance(v, (VList, VSeq, VDeque)):
        t, ek = ex.as_seq(st, v)
        if elem_sort(ek) != INT:
            raise Unsupported(f"set of non-int elements at {where}")
        return listset(ex, st, t)
    raise Unsupported(f"not a set-like value: {v!r} at {where}")


@builtin("set")
def _set(ex, st, args, kwargs, k, where):
    if not args:
        s2, v = ex.new_set(st, K_INT, EMPTY_SETI)
        return k(s2, v)
    v = args[0]
    if v is VNone or isinstance(v, VOpt):
        return ex.split_opt(st, v, lambda s: ex.raise_(s, "TypeError", f"set(None) at {where}"),
                            lambda s, inner: _set(ex, s, [inner], kwargs, k, where))
    s2, r = ex.new_set(st, K_INT, _set_content_of(ex, st, v, where))
    return k(s2, r)


@method("VSet", "add")
def _set_add(ex, st, base, args, kwargs, k, where):
    v = ex.unwrap_strict(args[0])
    if isinstance(v, VAny):
        fn = ex.reg.specfns.get("any_as_int")
        if fn is None:
            raise Unsupported(f"set.add of an opaque value at {where}")
        v = fn(ex, st, v)
    if not isinstance(v, VInt):
        raise Unsupported(f"set.add of {v!r} at {where}")
    return k(ex.set_set_content(st, base, store(ex.set_content(st, base), v.t, TRUE)), VNone)


def set_binop(ex, st, op, a, b):
    """& and | on sets: a new set object"""
    import ast as _ast
    ca, cb = _set_content_of(ex, st, a), _set_content_of(ex, st, b)
    fn = "and" if isinstance(op, _ast.BitAnd) else "or"
    return ex.new_set(st, K_INT, T(f"((_ map {fn}) {ca.s} {cb.s})", SETI))


def list_of_set(ex, st, v: VSet):
    """list(s): a new list whose element set is s (order unspecified; duplicates impossible but not stated)"""
    items = ex.arbitrary("(Seq Int)", "setlist")
    st = st.copy()
    st.pc.append(Eq(listset(ex, st, items), ex.set_content(st, v)))
    return ex.new_list(st, K_INT, items)


@REG.specfn("setv")
def _setv(ex, st, v):
    return VSetv(_set_content_of(ex, st, v))


@REG.specfn("set_inter")
def _set_inter(ex, st, a, b):
    return VSetv(T(f"((_ map and) {_set_content_of(ex, st, a).s} {_set_content_of(ex, st, b).s})", SETI))


@REG.specfn("set_union")
def _set_union(ex, st, a, b):
    return VSetv(T(f"((_ map or) {_set_content_of(ex, st, a).s} {_set_content_of(ex, st, b).s})", SETI))


@REG.specfn("set_empty")
def _set_empty(ex, st, a):
    return VBool(Eq(_set_content_of(ex, st, a), EMPTY_SETI))
