"""Calls: contracts at call sites (modular), inlining of designated accessors, decorators
read from source, constructors, dynamic dispatch, builtins."""
from __future__ import annotations

import ast

from .smt import (T, INT, BOOL, REAL, SEQI, TRUE, FALSE, I, And, Or, Not, Eq, Ne, Lt, Le, Gt, Add, Sub, Neg, Ite, Implies,
                  seq_len, seq_concat, seq_unit, seq_empty, is_lit, lit_val)
from .state import State, Out, Unsupported, Frame
from .values import *
from .speceval import SpecEnv
from .front import FuncInfo, ClassInfo

NON_SOURCE_DECORATORS = {"property", "classmethod", "staticmethod", "dataclasses.dataclass"}


class CallMixin:

    # ---- contract lookup ------------------------------------------------------------------------
    def short_name(self, fi: FuncInfo) -> str:
        if fi.kind == "slice":
            base, sl = fi.qualname.split("@", 1)
            return f"{fi.cls.name}.{base.rsplit('.', 1)[-1]}@{sl}" if fi.cls else fi.qualname
        suffix = ".fset" if fi.kind == "setter" else ""
        if fi.cls is not None:
            return f"{fi.cls.name}.{fi.node.name}{suffix}"
        return fi.node.name

    def contract_of(self, name: str):
        cur = self.reg.contracts.get(self.verifying)
        ov = getattr(cur, "call_overrides", None) if cur is not None else None
        if ov and name in ov:
            return ov[name]
        return self.reg.contracts.get(name)

    def find_contract_for_ext(self, cls: str, attr: str):
        cur = self.reg.contracts.get(self.verifying)
        ov = getattr(cur, "call_overrides", None) if cur is not None else None
        for n in self.class_names_mro(cls):
            if ov and f"{n}.{attr}" in ov:
                return ov[f"{n}.{attr}"]
            c = self.reg.contracts.get(f"{n}.{attr}")
            if c is not None:
                return c
        return None

    def dispatch(self, base: VRef, attr: str, kind: str):
        """Resolve base.attr to a call target: ('src', FuncInfo, contract-name) or ('ext', contract)."""
        ci = self.try_cls(base.cls)
        if ci is None:
            c = self.find_contract_for_ext(base.cls, attr)
            if c is None:
                raise Unsupported(f"no trusted contract for {base.cls}.{attr}")
            return ("ext", c)
        if kind == "setter":
            fi = ci.lookup_setter(attr)
        else:
            r = ci.lookup(attr)
            fi = r[1] if r and r[0] in ("method", "getter") else None
        if fi is None:
            c = self.find_contract_for_ext(base.cls, attr)
            if c is not None:
                return ("ext", c)
            raise Unsupported(f"cannot resolve {base.cls}.{attr}")
        # closed-world dynamic dispatch (S3): overrides in subclasses found in the source
        overriding = []
        if not base.exact:
            for sub in ci.all_subclasses():
                table = sub.setters if kind == "setter" else (sub.getters if fi.kind == "getter" else sub.methods)
                if attr in table:
                    overriding.append(sub)
        name = self.short_name(fi)
        if overriding:
            # a behavioural contract on the static class' method is required; each override is
            # verified against it separately (refinement obligations)
            c = self.contract_of(name)
            if c is None or c.inline:
                raise Unsupported(f"dynamic dispatch on {name} with overrides "
                                  f"{[s.name for s in overriding][:4]} needs a behavioural contract")
            self.dispatch_sites.setdefault(name, set()).update(s.name for s in overriding)
            return ("contract", fi, c)
        return ("src", fi, name)

    # ---- the call expression -------------------------------------------------------------------------
    def eval_call(self, st: State, e: ast.Call, k):
        where = f"L{e.lineno}:{ast.unparse(e.func)[:40]}"
        if isinstance(e.func, ast.Name) and e.func.id == "super" and not e.args:
            fr = st.frame
            return k(st, VPy("super", (fr.cls, st.locals.get("self"))))

        def got_f(s2, f):
            pos = [a for a in e.args]
            star = [a for a in pos if isinstance(a, ast.Starred)]
            plain = [a.value if isinstance(a, ast.Starred) else a for a in pos]
            kw_names = [kw.arg for kw in e.keywords]
            kw_exprs = [kw.value for kw in e.keywords]

            def got_args(s3, vals):
                args = []
                for a, v in zip(pos, vals[:len(pos)]):
                    if isinstance(a, ast.Starred):
                        if isinstance(v, VTuple):
                            args += v.items
                        else:
                            raise Unsupported("*args of a non-tuple")
                    else:
                        args.append(v)
                kwargs = {}
                for n, v in zip(kw_names, vals[len(pos):]):
                    if n is None:
                        if isinstance(v, VPy) and v.what == "kwargs":
                            kwargs.update(v.obj)
                        else:
                            raise Unsupported("**kwargs of unknown value")
                    else:
                        kwargs[n] = v
                return self.call_value(s3, f, args, kwargs, k, where, e)
            # d.setdefault(k, {}) / d.setdefault(k, []): an empty display takes the value kind of the dictionary it goes into
            if isinstance(f, VPy) and f.what == "bound_builtin" and f.obj in ("setdefault", "get") and len(plain) == 2 \
                    and isinstance(plain[1], (ast.Dict, ast.List)) and not getattr(plain[1], "keys", getattr(plain[1], "elts", None)) \
                    and hasattr(f.extra, "v"):
                self.kind_hints.setdefault((self.cur_func_name, plain[1].lineno), f.extra.v)
            return self.ev_list(s2, plain + kw_exprs, got_args)
        return self.ev(st, e.func, got_f)

    def call_value(self, st, f, args, kwargs, k, where, node=None):
        if not isinstance(f, VPy):
            if isinstance(f, VOpt) or f is VNone:
                return self.split_opt(st, f, lambda s: self.raise_(s, "TypeError", f"None() at {where}"),
                                      lambda s, inner: self.call_value(s, inner, args, kwargs, k, where, node))
            if isinstance(f, VAny):
                hk = self.reg.specfns.get("call_opaque")
                if hk:
                    return hk(self, st, f, args, kwargs, k, where)
            raise Unsupported(f"call of {f!r} at {where}")
        w = f.what
        if w == "builtin":
            return self.call_builtin(st, f.obj, args, kwargs, k, where, node)
        if w == "func":
            return self.call_function(st, ("src", f.obj, self.short_name(f.obj)), args, kwargs, k, where=where)
        if w == "func_raw":
            return self.call_function(st, ("raw", f.obj, self.short_name(f.obj)), args, kwargs, k, where=where)
        if w == "bound" and f.obj == "get" and args and isinstance(args[0], VStr) and args[0].lit is not None \
                and self.field_decl(f.extra.cls, args[0].lit) is not None:
            return k(st, self.read_field(st, f.extra, args[0].lit))       # TypedDict.get("key")
        if w == "bound":
            base = f.extra
            tgt = self.dispatch(base, f.obj, "method")
            if tgt[0] in ("src", "raw") and getattr(tgt[1], "kind", None) == "staticmethod":
                return self.call_function(st, tgt, args, kwargs, k, where=where)      # obj.static(...) binds no self
            return self.call_function(st, tgt, [base] + args, kwargs, k, where=where)
        if w == "clsattr":
            ci: ClassInfo = f.extra
            r = ci.lookup(f.obj)
            fi = r[1]
            if fi.kind == "classmethod":
                return self.call_function(st, ("src", fi, self.short_name(fi)), [VPy("class", ci)] + args,
                                          kwargs, k, where=where)
            # staticmethod or unbound method call: args as given
            return self.call_function(st, ("src", fi, self.short_name(fi)), args, kwargs, k, where=where)
        if w == "superbound":
            cls, selfv = f.extra
            for c in cls.mro()[1:]:
                if f.obj in c.methods:
                    fi = c.methods[f.obj]
                    return self.call_function(st, ("src", fi, self.short_name(fi)), [selfv] + args, kwargs, k,
                                              where=where)
            # builtin base (e.g. threading.Thread.__init__): trusted contract or no-op
            for bn in self.class_names_mro(cls.name):
                c = self.reg.contracts.get(f"{bn}.{f.obj}")
                if c is not None:
                    return self.apply_contract(st, c, [selfv] + args, kwargs, k, where)
            if f.obj in ("__post_init__", "__init__"):
                return k(st, VNone)
            raise Unsupported(f"super().{f.obj} at {where}")
        if w == "class":
            return self.construct(st, f.obj, args, kwargs, k, where)
        if w == "extclass":
            return self.construct_ext(st, f.obj, args, kwargs, k, where)
        if w == "excclass":
            return k(st, VExc(f.obj, args, where))
        if w in ("ext", "module"):
            return self.call_ext(st, f.obj, args, kwargs, k, where)
        if w == "bound_builtin":
            return self.call_builtin_method(st, f.extra, f.obj, args, kwargs, k, where)
        if w == "lambda":
            return self.inline_lambda(st, f, args, k)
        if w == "specfn":
            return k(st, f.obj(self, st, *args))
        if w == "opaque_method":
            return self.reg.specfns["call_opaque_method"](self, st, f, args, kwargs, k, where)
        raise Unsupported(f"call of {f!r} at {where}")

    # ---- calling a source function ---------------------------------------------------------------------
    def call_function(self, st, tgt, args, kwargs, k, where=""):
        kind = tgt[0]
        if kind == "ext":
            return self.apply_contract(st, tgt[1], args, kwargs, k, where)
        if kind == "contract":
            return self.apply_contract(st, tgt[2], args, kwargs, k, where, fi=tgt[1])
        fi: FuncInfo = tgt[1]
        name = tgt[2]
        c = self.contract_of(name)
        raw = kind == "raw"
        if c is not None and not c.inline and not raw:
            if fi.kind == "classmethod" and args and isinstance(args[0], VPy) and args[0].what == "class" \
                    and fi.node.args.args[0].arg not in c.params:
                args = args[1:]
            return self.apply_contract(st, c, args, kwargs, k, where, fi=fi)
        if (c is not None and c.inline) or name in self.reg.inline or raw:
            return self.inline_call(st, fi, args, kwargs, k, where, raw=raw)
        # a function of the package without any contract (typically a helper that a change has just extracted): its
        # real body is executed at the call site (sound: it IS the code; never for recursive helpers), and the fact is
        # reported in the evidence under "auto_inlined"
        stack = getattr(self, "_auto_inline_stack", None)
        if stack is None:
            stack = self._auto_inline_stack = []
        if c is None and name not in stack and not self.reg.flags.get("no_auto_inline"):
            stack.append(name)
            try:
                outs = self.inline_call(st, fi, args, kwargs, k, where)
            finally:
                stack.pop()
            self.auto_inlined.add(name)
            return outs
        raise Unsupported(f"call to {name} at {where}: no contract and not marked inline")

    def bind_params(self, st, fi: FuncInfo, args, kwargs, where):
        """python argument binding for the subset used here -> (dict name->Value, state)"""
        a = fi.node.args
        names = [p.arg for p in a.posonlyargs + a.args]
        bound = {}
        args = list(args)
        if len(args) > len(names) and a.vararg is None:
            raise Unsupported(f"too many positional arguments for {fi.qualname} at {where}")
        for n, v in zip(names, args):
            bound[n] = v
        if a.vararg is not None:
            bound[a.vararg.arg] = VTuple(args[len(names):])
        kwargs = dict(kwargs)
        for n in names + [p.arg for p in a.kwonlyargs]:
            if n in kwargs:
                if n in bound:
                    raise Unsupported(f"duplicate argument {n}")
                bound[n] = kwargs.pop(n)
        if a.kwarg is not None:
            bound[a.kwarg.arg] = VPy("kwargs", kwargs)
            kwargs = {}
        if kwargs:
            raise Unsupported(f"unexpected keyword arguments {list(kwargs)} for {fi.qualname}")
        # defaults
        defaults = a.defaults
        for p, d in zip(names[len(names) - len(defaults):], defaults):
            if p not in bound:
                bound[p] = self.eval_const_expr(d, fi.module)
        for p, d in zip(a.kwonlyargs, a.kw_defaults):
            if p.arg not in bound and d is not None:
                bound[p.arg] = self.eval_const_expr(d, fi.module)
        missing = [n for n in names + [p.arg for p in a.kwonlyargs] if n not in bound]
        if missing:
            raise Unsupported(f"missing arguments {missing} for {fi.qualname} at {where}")
        return bound

    MEMO_DECORATORS = ("functools.lru_cache", "lru_cache", "functools.cache", "cache")

    def is_memoised(self, fi: FuncInfo) -> bool:
        return any(d.split("(")[0] in self.MEMO_DECORATORS for d in fi.decorators)

    def source_decorators(self, fi: FuncInfo):
        out = []
        for d in fi.decorators:
            if d in NON_SOURCE_DECORATORS or d.endswith(".setter") or d.startswith("wraps"):
                continue
            if d.split("(")[0] in self.MEMO_DECORATORS:
                continue            # modelled in exec_function_body (a hit returns what an EARLIER state produced)
            r = self.prog.resolve_name(fi.module, d)
            if r and r[0] == "func":
                out.append(r[1])
            else:
                raise Unsupported(f"decorator {d} on {fi.qualname}")
        return out

    def exec_function_body(self, st: State, fi: FuncInfo, bound: dict, raw=False) -> list[Out]:
        """Execute fi (with its source-level decorators applied, read from the real source)."""
        if not raw and self.is_memoised(fi) and not getattr(self, "_in_memo", False):
            # functools.lru_cache / cache: a call either runs the body now (miss) or returns, without any effect, the value
            # an earlier call with equal arguments RETURNED - computed in an arbitrary earlier heap (hit).  Exceptions are
            # not cached.  (Arguments are compared by ==/hash: the same symbolic values are used.)
            self._in_memo = True
            try:
                outs = self.exec_function_body(st, fi, bound, raw)
                stale = st.copy()
                self._stale_runs = getattr(self, "_stale_runs", 0) + 1
                self.stale_prefix = f"stale{self._stale_runs}$"
                # every heap array the body can touch was declared by the run above (same code): all of them are replaced
                known = dict(self.initial_heap)
                known.update(stale.heap)
                for key, t in list(known.items()):
                    stale.heap[key] = self.decls.fresh("stale_" + "".join(ch if ch.isalnum() else "_" for ch in key), t.sort)
                try:
                    for o in self.exec_function_body(stale, fi, bound, raw):
                        if o.kind != "ret":
                            continue
                        hit = st.copy()
                        hit.pc = list(o.st.pc)
                        outs.append(Out("ret", hit.note("memoised:hit"), o.val))
                finally:
                    self.stale_prefix = None
                return outs
            finally:
                self._in_memo = False
        decos = [] if raw else self.source_decorators(fi)
        if decos:
            if len(decos) != 1:
                raise Unsupported("stacked source decorators")
            deco = decos[0]
            inner = [n for n in deco.node.body if isinstance(n, ast.FunctionDef)]
            if len(inner) != 1:
                raise Unsupported(f"decorator {deco.qualname} shape")
            wrapper = inner[0]
            wfi = FuncInfo(f"{deco.qualname}.{wrapper.name}", wrapper, deco.module, fi.cls, "function", [])
            # bind the wrapper's parameters from the original call's bound arguments
            a = fi.node.args
            pos_names = [p.arg for p in a.posonlyargs + a.args]
            wa = wrapper.args
            wnames = [p.arg for p in wa.args]
            wl = {}
            vals = [bound[n] for n in pos_names]
            for n, v in zip(wnames, vals):
                wl[n] = v
            if wa.vararg is not None:
                wl[wa.vararg.arg] = VTuple(vals[len(wnames):])
            if wa.kwarg is not None:
                wl[wa.kwarg.arg] = VPy("kwargs", {})
            wl[deco.node.args.args[0].arg] = VPy("func_raw", fi)
            return self._run_body(st, wfi, wl)
        return self._run_body(st, fi, bound)

    def _run_body(self, st: State, fi: FuncInfo, bound: dict) -> list[Out]:
        s2 = st.copy()
        saved = (st.locals, st.frame)
        s2.locals = dict(bound)
        s2.frame = Frame(fi, fi.module, fi.cls)
        prev = (self.cur_module, self.cur_func_name)
        self.cur_module = fi.module
        # loop specs are keyed by the short name of the *source* function being executed
        self.cur_func_name = self.short_name(fi) if (fi.qualname in self.prog.functions or fi.kind == "slice") \
            else self.cur_func_name
        self.register_loops(fi)
        try:
            outs = self.ex_block(s2, fi.node.body)
        finally:
            self.cur_module, self.cur_func_name = prev
        res = []
        for o in outs:
            so = o.st.copy()
            if self.depth == 0:
                self.last_locals[id(so)] = dict(o.st.locals)
            so.locals, so.frame = saved
            if o.kind == "ok" or (o.kind == "cnt" and fi.kind == "slice"):
                res.append(Out("ret", so, VNone))
            elif o.kind in ("ret", "exc"):
                res.append(Out(o.kind, so, o.val))
            else:
                raise Unsupported(f"{o.kind} escaped function body {fi.qualname}")
        return res

    def register_loops(self, fi: FuncInfo):
        from .front import loops_of
        for i, n in enumerate(loops_of(fi.node)):
            self.loop_ordinal[id(n)] = i
        counts = {}
        name = self.short_name(fi) if fi.qualname in self.prog.functions else None
        if name:
            for n in ast.walk(fi.node):
                if isinstance(n, (ast.If, ast.For, ast.While, ast.Try, ast.Assign, ast.AnnAssign)):
                    tn = type(n).__name__
                    counts[tn] = counts.get(tn, 0)
                    self.region_index[id(n)] = (name, tn, counts[tn])
                    counts[tn] += 1

    def inline_call(self, st, fi, args, kwargs, k, where, raw=False):
        self.depth += 1
        if self.depth > 12:
            self.depth -= 1
            raise Unsupported(f"inline depth exceeded at {fi.qualname}")
        try:
            bound = self.bind_params(st, fi, args, kwargs, where)
            outs = []
            saved_module = self.cur_module
            for o in self.exec_function_body(st, fi, bound, raw=raw):
                self.cur_module = saved_module
                if o.kind == "ret":
                    outs += k(o.st, o.val)
                else:
                    outs.append(o)
            self.inlined.add(self.short_name(fi))
            return outs
        finally:
            self.depth -= 1

    def inline_lambda(self, st, f: VPy, args, k):
        node: ast.Lambda = f.obj
        names = [p.arg for p in node.args.args]
        s2 = st.copy()
        saved = st.locals
        s2.locals = dict(f.extra)
        s2.locals.update(dict(zip(names, args)))

        def done(s3, v):
            s4 = s3.copy()
            s4.locals = saved
            return k(s4, v)
        return self.ev(s2, node.body, done)

    # ---- constructors --------------------------------------------------------------------------------------
    def construct(self, st, ci: ClassInfo, args, kwargs, k, where):
        # exception classes defined in source
        if any(self._is_exc_class(c) for c in ci.mro()):
            return k(st, VExc(ci.name, args, where))
        c = self.contract_of(f"{ci.name}.__new__")
        if c is not None:        # whole-constructor contract (allocation + __init__)
            return self.apply_contract(st, c, args, kwargs, k, where)
        s2, obj = self.alloc_obj(st, ci.name)
        r = ci.lookup("__init__")
        if r is None or r[0] != "method":
            if args or kwargs:
                raise Unsupported(f"{ci.name}() with arguments but no __init__ in source")
            return k(s2, obj)
        fi = r[1]
        if self.short_name(fi) in self.reg.inline_ctor:
            # constructing a statically known class: execute the real __init__ (its polymorphic hooks then
            # resolve to the exact class' overrides) instead of using its behavioural contract
            return self.inline_call(s2, fi, [obj] + args, kwargs, lambda s3, _r: k(s3, obj), where)
        return self.call_function(s2, ("src", fi, self.short_name(fi)), [obj] + args, kwargs,
                                  lambda s3, _r: k(s3, obj), where=where)

    def _is_exc_class(self, ci: ClassInfo):
        return any(b in ("Exception", "BaseException") or b.endswith("Error") and self.try_cls(b) is None
                   for b in ci.base_names)

    def construct_ext(self, st, name, args, kwargs, k, where):
        c = self.contract_of(f"{name}.__new__")
        if c is None:
            raise Unsupported(f"no trusted constructor contract for {name} at {where}")
        return self.apply_contract(st, c, args, kwargs, k, where)

    # ---- applying a contract at a call site --------------------------------------------------------------
    def bind_contract_args(self, c, args, kwargs, where, fi=None):
        names = list(c.params.keys())
        bound = {}
        if len(args) > len(names):
            raise Unsupported(f"too many arguments for contract {c.qualname} at {where}")
        for n, v in zip(names, args):
            bound[n] = v
        for n, v in kwargs.items():
            if n not in c.params:
                raise Unsupported(f"contract {c.qualname} has no parameter {n}")
            bound[n] = v
        for n in names:
            if n not in bound:
                dflt = None
                if fi is not None:
                    a = fi.node.args
                    pn = [p.arg for p in a.posonlyargs + a.args]
                    if n in pn:
                        i = pn.index(n) - (len(pn) - len(a.defaults))
                        if i >= 0:
                            dflt = self.eval_const_expr(a.defaults[i], fi.module)
                    for p, d in zip(a.kwonlyargs, a.kw_defaults):
                        if p.arg == n and d is not None:
                            dflt = self.eval_const_expr(d, fi.module)
                if dflt is None and isinstance(c.params[n], KOpt):
                    dflt = VNone
                if dflt is None:
                    raise Unsupported(f"missing argument {n} for contract {c.qualname} at {where}")
                bound[n] = dflt
        return bound

    def check_arg_kinds(self, st, c, bound, where):
        """Arguments must fit the declared kinds; an Optional passed for a non-Optional parameter
        is a TypeError/AttributeError candidate that we conservatively reject as unsupported
        unless the value is known non-None on this path."""
        out = {}
        for n, kind in c.params.items():
            v = bound[n]
            if v is VNone and not isinstance(kind, (KOpt, KNone)) and not (isinstance(kind, KPrim) and kind.name.startswith("Any")):
                # a definite None passed for a parameter that is not Optional: the same precondition obligation, which
                # fails on every path that gets here
                st = self.oblige(st, FALSE, "pre", f"{c.qualname}:arg-{n}-not-None", meta={"where": where})
                v = self.fresh_value(st, kind, "none_arg_" + n)
            if isinstance(v, VOpt) and not isinstance(kind, KOpt):
                # demand non-None as a precondition obligation
                st = self.oblige(st, Not(v.isnone), "pre", f"{c.qualname}:arg-{n}-not-None", meta={"where": where})
                v = v.inner
            v = self.coerce(st, v, kind)
            if isinstance(kind, KRef) and isinstance(v, VRef):
                ci, ck = self.try_cls(v.cls), self.try_cls(kind.cls.rstrip("!"))
                if ci is not None and ck is not None and ci is not ck and ck.is_subclass_of(ci):
                    # downcast: the argument must be an instance of the parameter's class (checked, not assumed)
                    st = self.oblige(st, self.is_instance_term(st, v.t, ck.name), "pre",
                                     f"{c.qualname}:arg-{n}-is-{ck.name}", meta={"where": where})
                    v = VRef(v.t, ck.name)
            if isinstance(kind, KOpt) and not isinstance(kind.inner, KNone):
                # give spec expressions a well-kinded value in both cases
                if v is VNone:
                    v = VOpt(TRUE, self.fresh_value(st, kind.inner, "none_" + n))
                elif not isinstance(v, VOpt):
                    v = VOpt(FALSE, v)
            out[n] = v
        return st, out

    def apply_contract(self, st, c, args, kwargs, k, where, fi=None):
        bound = self.bind_contract_args(c, args, kwargs, where, fi)
        st, bound = self.check_arg_kinds(st, c, bound, where)
        # ghost parameters of the callee are universally quantified in its contract: instantiate them with the
        # caller's ghost of the same name if there is one, else with an arbitrary fresh value
        cur = self.reg.contracts.get(self.verifying)
        gbind = (getattr(cur, "ghost_bind", None) or {}).get(c.qualname, {}) if cur is not None else {}
        extra_instances = []      # further instances of universal ghosts: the ensures clauses are assumed for each
        for gname, gkind in c.ghost.items():
            if gname in gbind:
                # the caller's contract names the instance of the callee's universal ghost to use at its call sites:
                # a spec expression over the caller's locals/ghosts (any instance of a universal is sound); a list of
                # expressions gives several instances (the postconditions are assumed for every one of them)
                names = dict(self.entry_names)
                names.update(st.locals)
                names.update(st.ghost)
                exprs = gbind[gname] if isinstance(gbind[gname], (list, tuple)) else [gbind[gname]]
                try:
                    vals = [self.coerce(st, self.spec_eval(SpecEnv(st, names), e_), gkind) for e_ in exprs]
                    bound[gname] = vals[0]
                    extra_instances += [(gname, v_) for v_ in vals[1:]]
                    continue
                except RuntimeError:
                    pass            # the expression mentions a local that is unbound here: fall through
            if gname in getattr(c, "frame_ghosts", ()):
                # a universal ghost of the callee that stands for "an arbitrary older object": additionally instantiated
                # with the object of the CALLER's frame obligation (so a callee clause "objects older than X are untouched"
                # carries the caller's frame through a coarse havoc)
                extra_instances.append((gname, self.coerce(st, VInt(self.frame_witness()), gkind)))
            if gname in st.ghost and not gname.startswith("$"):
                bound[gname] = st.ghost[gname]
            else:
                bound[gname] = self.fresh_value(st, gkind, "ginst_" + gname)
        self.used_contracts.add(c.qualname)
        pre_st = st
        env = SpecEnv(st, dict(bound))
        # ghost parameters of the callee are existential for the caller: not supported at call sites
        # unless bound through hints; skip (clauses mentioning them are not usable)
        for cl in c.requires:
            st = self.oblige(st, self.spec_bool(SpecEnv(st, dict(bound)), cl.expr), "pre",
                             f"{c.qualname}:{cl.label}", meta={"where": where})
        pre_st = st
        # havoc
        post = self.havoc_locations(st, list(c.modifies) + list(c.ghost_modifies), SpecEnv(st, dict(bound)))
        if not c.pure:
            # the callee may allocate: the allocation frontier moves forward by an unknown amount
            post = post.copy()
            a2 = self.decls.fresh("alloc", INT)
            post.pc.append(Le(post.alloc, a2))
            post.alloc = a2
        names = dict(bound)
        outs = []
        # result
        res = VNone
        if c.returns is not None:
            post = post.copy()
            if c.allocates:
                post, r = self.alloc_ref(post)
                res = from_comps(c.returns, [r])
                if isinstance(res, VRef):
                    res.exact = False
                    post.pc.append(self.is_instance_term(post, r, res.cls))
                    for fld in self.all_fields(res.cls):
                        post = self.havoc_field(post, r, res.cls, fld)
            else:
                res = self.fresh_value(post, c.returns, "res_" + c.qualname.split(".")[-1])
        names["result"] = res
        for gname, (lv, gkind) in c.ghost_out.items():
            names[gname] = self.fresh_value(post, gkind, "gout_" + gname)
        # exceptional outcomes
        iff_conds = []
        for r in c.raises:
            cond = self.spec_bool(SpecEnv(pre_st, dict(bound)), r.when)
            if r.mode == "iff":
                iff_conds.append(cond)
            if cond.s == "false":
                continue
            se = post.assume(cond) if r.mode in ("iff", "only_if") else post
            se = se.note(f"{where}:raises {r.exc}")
            for cl in list(c.ensures_exc.get(r.exc, [])) + list(getattr(c, "ghost_ensures_exc", {}).get(r.exc, [])):
                se = se.assume(self.spec_bool(SpecEnv(se, names, pre_st, dict(bound)), cl.expr))
                for gname, gval in extra_instances:
                    n2, b2 = dict(names), dict(bound)
                    n2[gname] = b2[gname] = gval
                    se = se.assume(self.spec_bool(SpecEnv(se, n2, pre_st, b2), cl.expr))
            ex = VExc(self.exc_name(r.exc), [], f"{c.qualname} at {where}")
            if r.exc in ("Exception", "BaseException"):
                ex.any_sub = True
            outs.append(Out("exc", se, ex))
        # normal outcome
        sn = post
        for cnd in iff_conds:
            sn = sn.assume(Not(cnd))
        env2 = SpecEnv(sn, names, pre_st, dict(bound))
        self.apply_hints(sn, c.hints, env2)
        for cl in list(c.ensures) + list(c.ghost_ensures):
            sn = sn.assume(self.spec_bool(SpecEnv(sn, names, pre_st, dict(bound)), cl.expr))
        for gname, gval in extra_instances:
            n2, b2 = dict(names), dict(bound)
            n2[gname] = b2[gname] = gval
            for cl in list(c.ensures) + list(c.ghost_ensures):
                sn = sn.assume(self.spec_bool(SpecEnv(sn, n2, pre_st, b2), cl.expr))
        outs += k(sn, res)
        return outs

    def all_fields(self, cls_name):
        out = []
        for n in self.class_names_mro(cls_name):
            m = self.reg.models.get(n)
            if m:
                out += list(m.fields.keys()) + list(m.dynamic.keys())
        return out

    # ---- locations ------------------------------------------------------------------------------------------
    def parse_location(self, env: SpecEnv, loc: str):
        """-> list of (heap key pattern, obj term or None) """
        loc = loc.strip()
        if " if " in loc:
            loc, cond = loc.split(" if ", 1)
            g = self.spec_bool(env, cond)
            out = []
            for it in self.parse_location(env, loc):
                g2 = g if it[3] is None else And(g, it[3])
                out.append((it[0], it[1], it[2], g2))
            return out
        if loc.startswith("*deque:") or loc.startswith("*list:"):
            what, kind = loc[1:].split(":", 1)
            return [("seq*", what, parse_kind(kind), None)]
        if loc.startswith("*dict:"):
            return [("dict*", parse_kind(loc[6:]), None, None)]
        if loc.startswith("*"):
            cls, fld = loc[1:].rsplit(".", 1)
            return [("field*", cls, fld, None)]
        if loc == "*open":
            return [("open*", None, None, None)]
        if loc.startswith("open:"):
            v = self.unwrap(self.spec_eval(env, loc[5:]))
            return [("open", v, None, None)]
        if loc.startswith("dyn:"):
            v = self.unwrap(self.spec_eval(env, loc[4:]))
            out = []
            for n in self.class_names_mro(v.cls):
                m = self.reg.models.get(n)
                if m:
                    for f in m.dynamic:
                        out.append(("field", v, f, None))
            return out
        for pfx in ("list:", "deque:", "dict:", "set:"):
            if loc.startswith(pfx):
                v0 = self.spec_eval(env, loc[len(pfx):])
                v = self.unwrap(v0)
                if v is VNone:
                    return []
                g = Not(v0.isnone) if isinstance(v0, VOpt) else None
                return [(pfx[:-1], v, None, g)]
        base, fld = loc.rsplit(".", 1)
        v0 = self.spec_eval(env, base)
        v = self.unwrap(v0)
        if v is VNone:
            return []
        if not isinstance(v, VRef):
            raise RuntimeError(f"modifies location {loc}: base is {v!r}")
        g = Not(v0.isnone) if isinstance(v0, VOpt) else None
        return [("field", v, fld, g)]

    def havoc_locations(self, st: State, locs, env: SpecEnv) -> State:
        for loc in locs:
            for item in self.parse_location(env, loc):
                kind = item[0]
                guard = item[3]
                if guard is not None:
                    # conditional location (through an Optional): havoc on a copy, then merge
                    before = st
                    item2 = (item[0], item[1], item[2], None)
                    after = self._havoc_item(st, item2)
                    merged = after.copy()
                    for key, t_after in after.heap.items():
                        t_before = before.heap.get(key)
                        if t_before is None:
                            t_before = self.initial_heap.get(key)
                        if t_before is not None and t_before.s != t_after.s:
                            merged.heap[key] = Ite(guard, t_after, t_before)
                    st = merged
                    continue
                st = self._havoc_item(st, item)
        return st

    def _havoc_item(self, st, item):
        if True:
            if True:
                kind = item[0]
                if kind == "field*":
                    st = self.havoc_whole_field(st, item[1], item[2])
                elif kind == "seq*":
                    key, sort = self._seq_key(item[2], item[1])
                    st = st.copy()
                    self.heap_array(st, key, INT, sort)
                    from .smt import arr
                    st.heap[key] = self.arbitrary(arr(INT, sort), "hvallseq")
                elif kind == "dict*":
                    dk = item[1]
                    ks, dom, vals = self._dict_keys(VDict(I(0), dk.k, dk.v))
                    st = st.copy()
                    from .smt import arr
                    for key, so in [(dom, BOOL)] + vals:
                        self.heap_array(st, key, INT, arr(ks, so))
                        st.heap[key] = self.arbitrary(arr(INT, arr(ks, so)), "hvalldict")
                elif kind == "field":
                    st = self.havoc_field(st, item[1].t, item[1].cls, item[2])
                elif kind == "open*":
                    st = self.open_havoc(st)
                elif kind == "open":
                    st = self.open_havoc(st, item[1].t)
                elif kind in ("list", "deque"):
                    c = item[1]
                    key, sort = self._seq_key(c.elem, c)
                    st = self.set_seq_items(st, c, self.arbitrary(sort, "hvseq"))
                elif kind == "set":
                    v = item[1]
                    so = elem_sort(v.elem)
                    key = f"$set${so}"
                    st = st.copy()
                    from .smt import store as _store
                    a = self.heap_array(st, key, INT, f"(Array {so} Bool)")
                    st.heap[key] = _store(a, v.t, self.arbitrary(f"(Array {so} Bool)", "hvset"))
                elif kind == "dict":
                    d = item[1]
                    ks, dom, vals = self._dict_keys(d)
                    st = st.copy()
                    from .smt import arr, store
                    for key, so in [(dom, BOOL)] + vals:
                        a = self.heap_array(st, key, INT, arr(ks, so))
                        st.heap[key] = store(a, d.t, self.arbitrary(arr(ks, so), "hvdict"))
                else:
                    raise Unsupported(f"location kind {kind}")
        return st


    # ---- builtins ----------------------------------------------------------------------------------------------
    def call_builtin(self, st, name, args, kwargs, k, where, node=None):
        from . import models
        h = models.BUILTINS.get(name)
        if h is None:
            raise Unsupported(f"builtin {name} at {where}")
        return h(self, st, args, kwargs, k, where)

    def listcomp(self, st, e: ast.ListComp, k):
        """List comprehension over a sequence whose length is fixed by the program text (unrolled)."""
        if len(e.generators) != 1 or e.generators[0].is_async:
            raise Unsupported("nested comprehension")
        g = e.generators[0]

        def got_iter(s2, it):
            if it is VNone or isinstance(it, VOpt):
                return self.split_opt(s2, it, lambda s_: self.raise_(s_, "TypeError", f"iteration over None at line {e.lineno}"),
                                      lambda s_, inner: got_iter(s_, inner))
            items = self.static_items_of(s2, it)
            if items is None:
                if not g.ifs and not (isinstance(e.elt, ast.Name) and isinstance(g.target, ast.Name)
                                      and e.elt.id == g.target.id):
                    return self.listcomp_map(s2, e, g, it, k)
                return self.listcomp_filter(s2, e, g, it, k)
            saved = dict(s2.locals)

            def step(s3, idx, acc):
                if idx == len(items):
                    s4 = s3.copy()
                    s4.locals = dict(saved)
                    ek = acc[0].kind if acc else K_ANY
                    hint = self.kind_hints.get((self.cur_func_name, e.lineno))
                    if hint:
                        ek = parse_kind(hint).elem
                    seq = seq_concat(*[seq_unit(self.comp1(v, ek)) for v in acc]) if acc else \
                        seq_empty(f"(Seq {elem_sort(ek)})")
                    s5, lst = self.new_list(s4, ek, seq)
                    return k(s5, lst)
                outs = []
                for a in self.assign(s3, g.target, items[idx]):
                    if a.kind != "ok":
                        outs.append(a)
                        continue

                    def conds(s4, ci):
                        if ci == len(g.ifs):
                            return self.ev(s4, e.elt, lambda s5, v: step(s5, idx + 1, acc + [v]))

                        def gotc(s5, c):
                            t = self.truthy(s5, c)
                            o2 = []
                            if t.s != "false":
                                o2 += conds(s5.assume(t), ci + 1)
                            if t.s != "true":
                                o2 += step(s5.assume(Not(t)), idx + 1, acc)
                            return o2
                        return self.ev(s4, g.ifs[ci], gotc)
                    outs += conds(a.st, 0)
                return outs
            return step(s2, 0, [])
        return self.ev(st, g.iter, got_iter)

    def comp_cond(self, st, g, x: Value):
        """The comprehension's condition for element x as one Bool term (all outcomes must be exception-free)."""
        # pure reading of the condition (no forking, no path-local facts); exception freedom of the condition is
        # checked separately (once per comprehension) by the forking evaluation below
        if getattr(self, "_comp_pure_ok", None) == id(g):
            names = dict(st.locals)
            names[g.target.id] = x
            try:
                return And(*[self.spec_bool(SpecEnv(st, names), c) for c in g.ifs])
            except (Unsupported, RuntimeError):
                pass
        saved = dict(st.locals)
        n0 = len(st.pc)
        terms = []
        for a in self.assign(st, g.target, x):
            if a.kind != "ok":
                raise Unsupported("comprehension target")

            def conds(s4, ci, acc):
                if ci == len(g.ifs):
                    return [Out("ok", s4, acc)]
                return self.ev(s4, g.ifs[ci], lambda s5, c: conds(s5, ci + 1, And(acc, self.truthy(s5, c))))
            for o in conds(a.st, 0, TRUE):
                if o.kind == "exc":
                    # must be infeasible: an obligation, not an assumption
                    self.oblige(o.st, FALSE, "raises", f"comprehension-condition-raises:{o.val.cls}")
                    continue
                if o.kind != "ok":
                    raise Unsupported("comprehension condition outcome")
                terms.append(And(*o.st.pc[n0:], o.val))
        return Or(*terms)

    def comp_instantiate(self, st, lst, w):
        """membership characterisation of a comprehension result for one more witness term w"""
        from .smt import seq_contains_elem
        g, t, res, ek = lst.comp
        self._comp_pure_ok = id(g)
        c = self.comp_cond(st, g, from_comps(ek, [w]))
        st.pc.append(Eq(seq_contains_elem(res, w), And(seq_contains_elem(t, w), c)))

    def listcomp_map(self, st, e, g, it, k):
        """[f(x) for x in xs] over a symbolic sequence: a new list of the same length whose elements are arbitrary values
        of f's result kind (over-approximation); f is evaluated once on an arbitrary element, its exceptional outcomes
        become exceptional outcomes of the comprehension"""
        t, ek = self.as_seq(st, it)
        arb = self.fresh_value(st, ek, "comp_elem")
        saved = dict(st.locals)
        outs = []

        def got_elt(s3, v):
            s4 = s3.copy()
            s4.locals = dict(saved)
            v = self.unwrap_strict(v)
            rk = v.kind
            res = self.decls.fresh(f"map_L{e.lineno}", f"(Seq {elem_sort(rk)})")
            s4.pc.append(Eq(seq_len(res), seq_len(t)))
            s5, lst = self.new_list(s4, rk, res)
            return k(s5, lst)
        for a in self.assign(st.assume(Gt(seq_len(t), I(0))), g.target, arb):
            if a.kind != "ok":
                outs.append(a)
                continue
            outs += self.ev(a.st, e.elt, got_elt)
        # the empty input: an empty list of an unknown element kind -> use the same path with length 0
        s0 = st.assume(Eq(seq_len(t), I(0)))
        for a in self.assign(s0, g.target, arb):
            if a.kind == "ok":
                for o in self.ev(a.st, e.elt, got_elt):
                    if o.kind != "exc":
                        outs.append(o)
        return outs

    def listcomp_filter(self, st, e, g, it, k):
        """[x for x in xs if cond(x)] over a symbolic sequence: result = filter_c(xs) (uninterpreted, defined by snoc
        recursion) with the membership characterisation instantiated for every witness in scope and for the first
        elements of the result (lemma filter-membership, proved separately by induction)."""
        if not (isinstance(e.elt, ast.Name) and isinstance(g.target, ast.Name) and e.elt.id == g.target.id):
            raise Unsupported(f"comprehension with a computed element at line {e.lineno}")
        if isinstance(it, VPy) and it.what == "dictview" and it.extra == "values":
            # the values of a table in an unspecified order: an arbitrary sequence of values of the table's value kind
            # (over-approximation: membership in the table is not stated)
            ek = it.obj.v
            t = self.decls.fresh("dictvalues", f"(Seq {elem_sort(ek)})")
        else:
            t, ek = self.as_seq(st, it)
        es = elem_sort(ek)
        self.comp_counter = getattr(self, "comp_counter", 0) + 1
        fname = f"filter_L{e.lineno}_{self.comp_counter}"
        seqsort = f"(Seq {es})"
        res = self.decls.fresh(fname, seqsort)
        from .smt import seq_contains_elem, seq_nth
        st = st.copy()
        st.pc.append(Le(seq_len(res), seq_len(t)))
        wit = []
        for v in list(st.ghost.values()) + list(self.entry_names.values()) + list(st.locals.values()):
            v = self.unwrap(v) if not isinstance(v, dict) else None
            if v is not None and hasattr(v, "t") and v.t.sort == es and isinstance(v, (VRef, VInt, VAny)):
                if isinstance(v, VRef) and not self.kind_fits(v, ek):
                    continue
                wit.append(v.t)
        firsts = [seq_nth(res, I(0)), seq_nth(res, I(1))]
        # exception freedom of the condition for an arbitrary element (obligations), then pure instantiations
        arb = self.fresh_value(st, ek, "comp_elem")
        self.comp_cond(st, g, arb)
        self._comp_pure_ok = id(g)
        for w in wit + firsts:
            xv = from_comps(ek, [w])
            guard = TRUE
            if w in firsts:
                idx = firsts.index(w)
                guard = Lt(I(idx), seq_len(res))
            self.add_ref_facts(st, xv) if w not in firsts else None
            c = self.comp_cond(st, g, xv)
            st.pc.append(Implies(guard, Eq(seq_contains_elem(res, w), And(seq_contains_elem(t, w), c))))
            if w in firsts:
                st.pc.append(Implies(guard, seq_contains_elem(res, w)))
        s2, lst = self.new_list(st, ek, res)
        lst.comp = (g, t, res, ek)
        self.comprehensions_used = getattr(self, "comprehensions_used", set()) | {f"{self.cur_func_name}:L{e.lineno}"}
        return k(s2, lst)

    def call_builtin_method(self, st, base, name, args, kwargs, k, where):
        from . import models
        tname = type(base).__name__
        if isinstance(base, VPy):
            tname = base.what
        h = models.METHODS.get((tname, name))
        if h is None:
            raise Unsupported(f"method {tname}.{name} at {where}")
        return h(self, st, base, args, kwargs, k, where)

    def call_ext(self, st, dotted, args, kwargs, k, where):
        from . import models
        h = models.EXT.get(dotted)
        if h is not None:
            return h(self, st, args, kwargs, k, where)
        c = self.contract_of(dotted)
        if c is not None:
            return self.apply_contract(st, c, args, kwargs, k, where)
        raise Unsupported(f"external function {dotted} at {where}")
