"""Pure evaluation of contract expressions (python expression syntax) to symbolic values.

Spec expressions never fork and never raise: `and/or/not/if-else` become SMT connectives,
partial operations are the spec author's responsibility (guard them with implies()).
"""
from __future__ import annotations

import ast

from .smt import (T, INT, BOOL, REAL, SEQI, STR, TRUE, FALSE, I, And, Or, Not, Eq, Ne, Lt, Le, Gt, Ge,
                  Add, Sub, Mul, Neg, FloorDiv, Mod, Ite, Implies, seq_len, seq_concat, seq_extract,
                  seq_unit, seq_nth, seq_empty, seq_contains_elem, select, to_real, is_lit, lit_val)
from .state import State, Unsupported
from .values import *


class SpecNameUnbound(Unsupported, RuntimeError):
    """a contract or loop spec names a local that the (changed) function no longer has: the function is undecided, the
    checker does not crash (seed C18-16)"""


class SpecEnv:
    def __init__(self, st: State, names: dict, old_st: State = None, old_names: dict = None,
                 prev_st: State = None, prev_names: dict = None):
        self.st = st
        self.names = names
        self.old_st = old_st
        self.old_names = old_names if old_names is not None else names
        self.prev_st = prev_st
        self.prev_names = prev_names


class SpecEvalMixin:

    def spec_bool(self, env: SpecEnv, expr: str) -> T:
        v = self.spec_eval(env, expr)
        return self.truthy(env.st, v)

    def spec_eval(self, env: SpecEnv, expr) -> Value:
        if isinstance(expr, str):
            try:
                node = ast.parse(expr.strip(), mode="eval").body
            except SyntaxError as e:
                raise RuntimeError(f"bad spec expression {expr!r}: {e}")
        else:
            node = expr
        return self._sp(env, node)

    # ---- truthiness (shared with the executor) ---------------------------------------
    def truthy(self, st: State, v: Value) -> T:
        if isinstance(v, VBool):
            return v.t
        if isinstance(v, VInt):
            return Ne(v.t, I(0))
        if isinstance(v, VFloat):
            return Not(Eq(v.t, T("0.0", REAL)))
        if isinstance(v, VBytes):
            return Gt(seq_len(v.t), I(0))
        if isinstance(v, VStr):
            if v.lit is not None:
                return TRUE if v.lit else FALSE
            return Ne(v.t, self.decls.str_lit(""))
        if v is VNone:
            return FALSE
        if isinstance(v, VOpt):
            return And(Not(v.isnone), self.truthy(st, v.inner))
        if isinstance(v, VRef):
            return TRUE
        if isinstance(v, (VList, VDeque)):
            return Gt(seq_len(self.seq_items(st, v)), I(0))
        if isinstance(v, VSet):
            so = elem_sort(v.elem)
            return Not(Eq(self.set_content(st, v), T(f"((as const (Array {so} Bool)) false)", f"(Array {so} Bool)")))
        if isinstance(v, VSeq):
            return Gt(seq_len(v.t), I(0))
        if isinstance(v, VTuple):
            return TRUE if v.items else FALSE
        if isinstance(v, VPy):
            return TRUE
        if isinstance(v, VAny):
            # truthiness of an opaque value: an uninterpreted predicate of the token (nothing is known about it)
            self.decls.fun("any_truthy", [INT], BOOL)
            from .smt import app as _app
            return _app("any_truthy", BOOL, v.t)
        if isinstance(v, VDict):
            # emptiness of a dictionary is not tracked: an unconstrained boolean (over-approximation - both branches are
            # explored whatever the dictionary holds)
            return self.decls.fresh("dict_truthy", BOOL)
        raise Unsupported(f"truthiness of {v!r}")

    def is_none_term(self, v: Value) -> T:
        if v is VNone:
            return TRUE
        if isinstance(v, VOpt):
            return v.isnone
        return FALSE

    def unwrap(self, v: Value) -> Value:
        return v.inner if isinstance(v, VOpt) else v

    # ---- equality ----------------------------------------------------------------------------
    def values_equal(self, st: State, a: Value, b: Value) -> T:
        if a is VNone or b is VNone:
            other = b if a is VNone else a
            return self.is_none_term(other)
        if isinstance(a, VOpt) or isinstance(b, VOpt):
            na, nb = self.is_none_term(a), self.is_none_term(b)
            ia, ib = self.unwrap(a), self.unwrap(b)
            return Or(And(na, nb), And(Not(na), Not(nb), self.values_equal(st, ia, ib)))
        if isinstance(a, VTuple) and isinstance(b, VTuple):
            if len(a.items) != len(b.items):
                return FALSE
            return And(*[self.values_equal(st, x, y) for x, y in zip(a.items, b.items)])
        if isinstance(a, VBool) and isinstance(b, VInt):
            a = VInt(Ite(a.t, I(1), I(0)))
        if isinstance(b, VBool) and isinstance(a, VInt):
            b = VInt(Ite(b.t, I(1), I(0)))
        if isinstance(a, VStr) and isinstance(b, VStr) and a.lit is not None and b.lit is not None:
            return TRUE if a.lit == b.lit else FALSE
        if isinstance(a, (VList, VDeque)) and isinstance(b, VSeq):
            return Eq(self.seq_items(st, a), b.t)
        if isinstance(b, (VList, VDeque)) and isinstance(a, VSeq):
            return Eq(a.t, self.seq_items(st, b))
        if isinstance(a, VPy) and isinstance(b, VPy):
            return TRUE if (a.what, a.obj) == (b.what, b.obj) else FALSE
        if (isinstance(a, VAny) and isinstance(b, VPy)) or (isinstance(b, VAny) and isinstance(a, VPy)):
            # an opaque runtime value compared with a named external constant (e.g. errno.EAGAIN): undetermined
            any_, py = (a, b) if isinstance(a, VAny) else (b, a)
            import re as _re
            nm = "extc$" + _re.sub(r"[^A-Za-z0-9_]", "_", str(py.obj))
            return Eq(any_.t, self.decls.const(nm, INT))
        if hasattr(a, "t") and hasattr(b, "t"):
            if a.t.sort != b.t.sort:
                if {a.t.sort, b.t.sort} == {INT, REAL}:
                    return Eq(to_real(a.t), to_real(b.t))
                return FALSE      # different python types never compare equal
            return Eq(a.t, b.t)
        raise Unsupported(f"equality between {a!r} and {b!r}")

    # ---- the evaluator -------------------------------------------------------------------------
    def _sp(self, env: SpecEnv, n) -> Value:
        st = env.st
        if isinstance(n, ast.Constant):
            return self.const_value(n.value)
        if isinstance(n, ast.Name):
            if n.id in env.names:
                return env.names[n.id]
            if n.id == "True":
                return VBool(TRUE)
            r = self.resolve_global(n.id, spec=True)
            if r is not None:
                return r
            raise SpecNameUnbound(f"spec name {n.id!r} is unbound")
        if isinstance(n, ast.Attribute):
            base = self._sp(env, n.value)
            return self.spec_attr(env, base, n.attr)
        if isinstance(n, ast.BoolOp):
            vals = [self.truthy(st, self._sp(env, v)) for v in n.values]
            return VBool(And(*vals) if isinstance(n.op, ast.And) else Or(*vals))
        if isinstance(n, ast.UnaryOp):
            v = self._sp(env, n.operand)
            if isinstance(n.op, ast.Not):
                return VBool(Not(self.truthy(st, v)))
            if isinstance(n.op, ast.USub):
                return type(v)(Neg(v.t))
            raise Unsupported("spec unary op")
        if isinstance(n, ast.IfExp):
            c = self.truthy(st, self._sp(env, n.test))
            a, b = self._sp(env, n.body), self._sp(env, n.orelse)
            return self.merge(c, a, b)
        if isinstance(n, ast.Compare):
            left = self._sp(env, n.left)
            conj = []
            for op, rn in zip(n.ops, n.comparators):
                right = self._sp(env, rn)
                conj.append(self.spec_compare(env, op, left, right))
                left = right
            return VBool(And(*conj))
        if isinstance(n, ast.BinOp):
            a, b = self._sp(env, n.left), self._sp(env, n.right)
            return self.spec_binop(env, n.op, a, b)
        if isinstance(n, ast.Tuple):
            return VTuple([self._sp(env, e) for e in n.elts])
        if isinstance(n, ast.List):
            items = [self._sp(env, e) for e in n.elts]
            if not items:
                return VSeq(seq_empty(SEQI), K_INT)
            ek = items[0].kind
            return VSeq(seq_concat(*[seq_unit(i.t) for i in items]), ek)
        if isinstance(n, ast.Subscript):
            base = self._sp(env, n.value)
            return self.spec_subscript(env, base, n.slice)
        if isinstance(n, ast.Call):
            return self.spec_call(env, n)
        raise Unsupported(f"spec expression {ast.dump(n)[:80]}")

    def merge(self, c: T, a: Value, b: Value) -> Value:
        if a is VNone and b is VNone:
            return VNone
        if a is VNone or b is VNone or isinstance(a, VOpt) or isinstance(b, VOpt):
            na, nb = self.is_none_term(a), self.is_none_term(b)
            ia = self.unwrap(a) if a is not VNone else self.unwrap(b)
            ib = self.unwrap(b) if b is not VNone else self.unwrap(a)
            return VOpt(Ite(c, na, nb), self.merge(c, ia, ib))
        if isinstance(a, VTuple) and isinstance(b, VTuple) and len(a.items) == len(b.items):
            return VTuple([self.merge(c, x, y) for x, y in zip(a.items, b.items)])
        if hasattr(a, "t") and hasattr(b, "t") and a.t.sort == b.t.sort:
            t = Ite(c, a.t, b.t)
            if isinstance(a, VRef):
                return VRef(t, a.cls)
            if isinstance(a, (VList, VDeque, VSet, VSeq)):
                return type(a)(t, a.elem)
            if isinstance(a, VDict):
                return VDict(t, a.k, a.v)
            if isinstance(a, VAny):
                if getattr(a, "tag", None) != getattr(b, "tag", None):
                    raise Unsupported("merge of differently tagged opaque values")
                return VAny(t, getattr(a, "tag", None))
            return type(a)(t)
        raise Unsupported(f"cannot merge {a!r} / {b!r}")

    def const_value(self, c) -> Value:
        if c is None:
            return VNone
        if isinstance(c, bool):
            return VBool(TRUE if c else FALSE)
        if isinstance(c, int):
            return VInt(I(c))
        if isinstance(c, float):
            if c == int(c):
                from .smt import R
                return VFloat(R(int(c)))
            raise Unsupported("float literal")
        if isinstance(c, bytes):
            from .smt import seq_of_ints
            return VBytes(seq_of_ints(c))
        if isinstance(c, str):
            return VStr(self.decls.str_lit(c), lit=c)
        if c is Ellipsis:
            return VNone
        raise Unsupported(f"constant {c!r}")

    def as_seq(self, st: State, v: Value):
        """(term, elem kind) of any sequence-like value."""
        if isinstance(v, VBytes):
            return v.t, K_INT
        if isinstance(v, VSeq):
            return v.t, v.elem
        if isinstance(v, (VList, VDeque)):
            return self.seq_items(st, v), v.elem
        raise Unsupported(f"not a sequence: {v!r}")

    def elem_value(self, st: State, t: T, k: Kind) -> Value:
        v = from_comps(k, [t])
        return v

    def spec_attr(self, env: SpecEnv, base: Value, attr: str) -> Value:
        st = env.st
        base = self.unwrap(base)
        if isinstance(base, VRef):
            d = self.field_decl(base.cls, attr)
            if d is not None:
                return self.read_field(st, base, attr)
            # class constant?
            try:
                ci = self.prog.cls(base.cls)
                r = ci.lookup(attr)
                if r and r[0] == "const":
                    return self.eval_const_expr(r[1], r[2].module)
            except KeyError:
                pass
            raise RuntimeError(f"spec: no field {base.cls}.{attr}")
        if isinstance(base, VPy) and base.what == "module":
            r = self.resolve_in_module(base.obj, attr)
            if r is not None:
                return r
        if isinstance(base, VPy) and base.what == "class":
            r = base.obj.lookup(attr)
            if r and r[0] == "const":
                return self.eval_const_expr(r[1], r[2].module)
        raise RuntimeError(f"spec: attribute {attr} of {base!r}")

    def spec_compare(self, env, op, a, b) -> T:
        st = env.st
        if isinstance(op, ast.Eq):
            return self.values_equal(st, a, b)
        if isinstance(op, ast.NotEq):
            return Not(self.values_equal(st, a, b))
        if isinstance(op, ast.Is):
            return self.values_equal(st, a, b)
        if isinstance(op, ast.IsNot):
            return Not(self.values_equal(st, a, b))
        if isinstance(op, (ast.In, ast.NotIn)):
            r = self.contains(st, b, a)
            return r if isinstance(op, ast.In) else Not(r)
        a, b = self.unwrap(a), self.unwrap(b)
        f = {ast.Lt: Lt, ast.LtE: Le, ast.Gt: Gt, ast.GtE: Ge}[type(op)]
        return f(self.num(a), self.num(b))

    def num(self, v: Value) -> T:
        if isinstance(v, VBool):
            return Ite(v.t, I(1), I(0))
        if isinstance(v, (VInt, VFloat)):
            return v.t
        raise Unsupported(f"numeric use of {v!r}")

    def contains(self, st: State, container: Value, item: Value) -> T:
        container = self.unwrap(container)
        if isinstance(container, VDict):
            it = self.unwrap(item) if not (isinstance(container.k, KOpt)) else None
            if it is not None and isinstance(it, (VBytes, VStr, VInt)) and isinstance(container.k, KPrim) \
                    and container.k.name in ("int", "str", "bytes") and it.t.sort != elem_sort(container.k):
                # a bytes / str / int key looked up in a table keyed by another of these types: never equal to any key
                return FALSE
            return self.dict_has(st, container, self.key_term(item, container.k))
        if isinstance(container, (VList, VDeque, VSeq)):
            t, ek = self.as_seq(st, container)
            it = self.unwrap(item)
            if not hasattr(it, "t") or it.t.sort != elem_sort(ek):
                return FALSE
            return seq_contains_elem(t, it.t)
        if isinstance(container, VTuple):
            return Or(*[self.values_equal(st, item, x) for x in container.items])
        if type(container).__name__ == "VSetv":
            return select(container.t, self.unwrap(item).t)
        if isinstance(container, VSet):
            a = select(self.heap_array(st, f"$set${elem_sort(container.elem)}", INT,
                                       f"(Array {elem_sort(container.elem)} Bool)"), container.t)
            return select(a, self.unwrap(item).t)
        raise Unsupported(f"'in' on {container!r}")

    def key_term(self, v: Value, k: Kind) -> T:
        if isinstance(k, KOpt) and k.inner is K_BYTES:
            # Optional bytes as a table key: None -> empty sequence, b -> [0] ++ b (injective)
            none_key = seq_empty(SEQI)
            if v is VNone:
                return none_key
            if isinstance(v, VOpt):
                return Ite(v.isnone, none_key, seq_concat(seq_unit(I(0)), v.inner.t))
            return seq_concat(seq_unit(I(0)), v.t)
        v = self.unwrap(v)
        if isinstance(k, KPrim) and k.name.startswith("Any") and isinstance(v, VStr) and v.lit is not None:
            # a string literal used as a key of a table keyed by objects: a token that is no instance of any class
            name = "strtok$" + "".join(ch if ch.isalnum() else "_" for ch in v.lit)
            t = self.decls.const(name, INT)
            self.decls.fun("tok_isinst", [INT, INT], BOOL)
            ax = f"(forall ((c Int)) (not (tok_isinst {name} c)))"
            ax2 = f"(< {name} 0)"
            for a in (ax2,):
                if a not in self.decls.axioms:
                    self.decls.axioms.append(a)
            self.str_tokens = getattr(self, "str_tokens", set()) | {name}
            return t
        if not hasattr(v, "t"):
            raise Unsupported(f"dict key {v!r}")
        if v.t.sort != elem_sort(k):
            raise Unsupported(f"dict key sort {v.t.sort} for key kind {k!r}")
        return v.t

    def spec_binop(self, env, op, a: Value, b: Value) -> Value:
        st = env.st
        a, b = self.unwrap(a), self.unwrap(b)
        return self.pure_binop(st, op, a, b)

    def pure_binop(self, st, op, a, b):
        """Total binary operations shared by spec and code evaluation; returns None when the
        operation needs the executor (exceptions, lowering side conditions)."""
        seqlike = (VBytes, VSeq, VList, VDeque)
        if isinstance(op, ast.Add) and isinstance(a, seqlike) and isinstance(b, seqlike):
            ta, ka = self.as_seq(st, a)
            tb, kb = self.as_seq(st, b)
            t = seq_concat(ta, tb)
            return VBytes(t) if isinstance(a, VBytes) else VSeq(t, ka)
        if isinstance(a, (VInt, VBool, VFloat)) and isinstance(b, (VInt, VBool, VFloat)):
            x, y = self.num(a), self.num(b)
            isf = x.sort == REAL or y.sort == REAL
            mk = VFloat if isf else VInt
            if isinstance(op, ast.Add):
                return mk(Add(x, y))
            if isinstance(op, ast.Sub):
                return mk(Sub(x, y))
            if isinstance(op, ast.Mult):
                return mk(Mul(x, y))
            if isinstance(op, ast.Pow) and is_lit(x) and is_lit(y) and lit_val(y) >= 0:
                return VInt(I(lit_val(x) ** lit_val(y)))
            if not isf and isinstance(op, (ast.FloorDiv, ast.Mod)) and is_lit(y) and lit_val(y) > 0:
                return VInt(FloorDiv(x, y) if isinstance(op, ast.FloorDiv) else Mod(x, y))
            if not isf and isinstance(op, ast.LShift) and is_lit(y) and lit_val(y) >= 0:
                return VInt(Mul(x, I(2 ** lit_val(y))))
            if not isf and isinstance(op, ast.RShift) and is_lit(y) and lit_val(y) >= 0:
                return VInt(FloorDiv(x, I(2 ** lit_val(y))))
            if not isf and isinstance(op, ast.BitAnd):
                r = self.lower_and(x, y)
                if r is not None:
                    return VInt(r)
        raise Unsupported(f"binary op {type(op).__name__} on {a!r}, {b!r}")

    @staticmethod
    def _low_mask(v: int):
        """k if v == 2**k - 1 (k>=1) else None"""
        if v > 0 and (v & (v + 1)) == 0:
            return v.bit_length()
        return None

    def lower_and(self, x: T, y: T):
        """x & y for a literal mask (either side); valid for all python ints."""
        if is_lit(x) and not is_lit(y):
            x, y = y, x
        if not is_lit(y):
            return None
        m = lit_val(y)
        if is_lit(x):
            return I(lit_val(x) & m)
        k = self._low_mask(m)
        if k is not None:                       # x & (2^k-1) == x mod 2^k
            return Mod(x, I(2 ** k))
        if m > 0 and (m & (m - 1)) == 0:        # single bit 2^j: 2^j * bit_j(x)
            j = m.bit_length() - 1
            return Mul(I(m), Mod(FloorDiv(x, I(2 ** j)), I(2)))
        if m > 0:
            # any positive mask: the sum over its runs of set bits [b, a) of (x mod 2^a) - (x mod 2^b)  (two's complement
            # semantics of python ints: x mod 2^a is the low a bits also for negative x)
            terms, b, mm = [], 0, m
            while mm:
                while not (mm & 1):
                    mm >>= 1
                    b += 1
                a = b
                while mm & 1:
                    mm >>= 1
                    a += 1
                terms.append(Sub(Mod(x, I(2 ** a)), Mod(x, I(2 ** b))) if b else Mod(x, I(2 ** a)))
                b = a
            r = terms[0]
            for t_ in terms[1:]:
                r = Add(r, t_)
            return r
        if m < 0:
            inv = ~m                            # x & ~inv == x - (x & inv)
            k = self._low_mask(inv)
            if k is not None:
                return Sub(x, Mod(x, I(2 ** k)))
            if inv > 0 and (inv & (inv - 1)) == 0:
                j = inv.bit_length() - 1
                return Sub(x, Mul(I(inv), Mod(FloorDiv(x, I(2 ** j)), I(2))))
        return None

    def spec_subscript(self, env, base: Value, sl) -> Value:
        st = env.st
        base = self.unwrap(base)
        if isinstance(sl, ast.Slice):
            t, ek = self.as_seq(st, base)
            lo = self.num(self._sp(env, sl.lower)) if sl.lower is not None else None
            hi = self.num(self._sp(env, sl.upper)) if sl.upper is not None else None
            r = self.slice_term(t, lo, hi)
            return VBytes(r) if isinstance(base, VBytes) else VSeq(r, ek)
        idx = self._sp(env, sl)
        if isinstance(base, VTuple):
            assert isinstance(idx, VInt) and is_lit(idx.t), "tuple index must be literal"
            return base.items[lit_val(idx.t)]
        if isinstance(base, VDict):
            return self.dict_get(st, base, self.key_term(idx, base.k))
        t, ek = self.as_seq(st, base)
        i = self.num(idx)
        i = Ite(Lt(i, I(0)), Add(seq_len(t), i), i) if not (is_lit(i) and lit_val(i) >= 0) else i
        v = self.elem_value(st, seq_nth(t, i), ek)
        self.add_ref_facts(st, v)
        return v

    def slice_term(self, t: T, lo, hi) -> T:
        """python slicing t[lo:hi] with clamping, step 1 (negative bounds: literal only)."""
        n = seq_len(t)

        def clamp(x, default):
            if x is None:
                return default
            if is_lit(x):
                v = lit_val(x)
                if v >= 0:
                    return Ite(Lt(I(v), n), I(v), n) if v > 0 else I(0)
                xx = Add(n, I(v))
                return Ite(Lt(xx, I(0)), I(0), xx)
            xx = Ite(Lt(x, I(0)), Add(n, x), x)
            xx = Ite(Lt(xx, I(0)), I(0), xx)
            return Ite(Lt(n, xx), n, xx)

        a = clamp(lo, I(0))
        b = clamp(hi, n)
        ln = Sub(b, a)
        ln = Ite(Lt(ln, I(0)), I(0), ln) if not (is_lit(ln)) else (ln if lit_val(ln) > 0 else I(0))
        return seq_extract(t, a, ln)

    def spec_call(self, env: SpecEnv, n: ast.Call) -> Value:
        st = env.st
        if isinstance(n.func, ast.Name):
            name = n.func.id
            if name == "old":
                if env.old_st is None:
                    raise RuntimeError("old() outside a postcondition")
                # names visible inside old(): macro parameters / ghosts of the current env shadow the entry names
                onames = dict(env.old_names)
                for k_, v_ in env.names.items():
                    if k_ not in onames:
                        onames[k_] = v_
                oenv = SpecEnv(env.old_st, onames, env.old_st, env.old_names)
                return self._sp(oenv, n.args[0])
            if name == "prev":
                if env.prev_st is None:
                    raise RuntimeError("prev() outside a loop step clause")
                pnames = dict(env.prev_names)
                for k_, v_ in env.names.items():
                    if k_ not in pnames:
                        pnames[k_] = v_          # macro parameters of the current env are visible inside prev()
                return self._sp(SpecEnv(env.prev_st, pnames, env.old_st, env.old_names, env.prev_st, pnames), n.args[0])
            if name == "implies":
                a = self.truthy(st, self._sp(env, n.args[0]))
                b = self.truthy(st, self._sp(env, n.args[1]))
                return VBool(Implies(a, b))
            if name == "iff":
                a = self.truthy(st, self._sp(env, n.args[0]))
                b = self.truthy(st, self._sp(env, n.args[1]))
                return VBool(Eq(a, b))
            if name == "ite":
                c = self.truthy(st, self._sp(env, n.args[0]))
                return self.merge(c, self._sp(env, n.args[1]), self._sp(env, n.args[2]))
            if name == "len":
                v = self.unwrap(self._sp(env, n.args[0]))
                t, _ = self.as_seq(st, v)
                return VInt(seq_len(t))
            if name == "isinstance":
                v = self.unwrap(self._sp(env, n.args[0]))
                cname = n.args[1].id if isinstance(n.args[1], ast.Name) else ast.unparse(n.args[1])
                if isinstance(v, VRef):
                    return VBool(self.is_instance_term(st, v.t, cname))
                raise Unsupported("spec isinstance on non-ref")
            if name == "hasattr":
                v = self.unwrap(self._sp(env, n.args[0]))
                attr = n.args[1].value
                return VBool(self.hasattr_term(st, v, attr))
            if name == "unchanged":
                # unchanged(container): same content as in the old state; unchanged('deque:int') etc: whole heap of a kind
                if env.old_st is None:
                    raise RuntimeError("unchanged() outside a postcondition")
                a0 = n.args[0]
                if isinstance(a0, ast.Constant) and isinstance(a0.value, str):
                    what, kind = a0.value.split(":", 1)
                    key, sort = self._seq_key(parse_kind(kind), what)
                    from .smt import arr as _arr
                    new = self.heap_array(st, key, INT, sort)
                    old = self.heap_array(env.old_st, key, INT, sort)
                    return VBool(Eq(new, old))
                v = self.unwrap(self._sp(env, a0))
                if isinstance(v, VDict):
                    ks, dom, vals = self._dict_keys(v)
                    from .smt import arr as _arr
                    conj = []
                    for key, so in [(dom, BOOL)] + vals:
                        new = select(self.heap_array(st, key, INT, _arr(ks, so)), v.t)
                        old = select(self.heap_array(env.old_st, key, INT, _arr(ks, so)), v.t)
                        conj.append(Eq(new, old))
                    return VBool(And(*conj))
                if isinstance(v, (VList, VDeque)):
                    return VBool(Eq(self.seq_items(st, v), self.seq_items(env.old_st, v)))
                raise Unsupported("unchanged() of this value")
            if name == "clock":      # the virtual clock (lower bound of the next time.time() reading)
                return VFloat(st.clock)
            if name == "has":        # raw presence flag of a dynamic attribute (without __getattr__)
                v = self.unwrap(self._sp(env, n.args[0]))
                return VBool(self.has_dyn(st, v, n.args[1].value))
            if name == "fresh":
                v = self.unwrap(self._sp(env, n.args[0]))
                if env.old_st is None:
                    raise RuntimeError("fresh() outside a postcondition")
                return VBool(And(Le(env.old_st.alloc, v.t), Lt(v.t, st.alloc)))
            if name == "is_none":
                return VBool(self.is_none_term(self._sp(env, n.args[0])))
            if name == "some":
                return self.unwrap(self._sp(env, n.args[0]))
            if name == "items":      # items(listlike) -> pure sequence
                v = self.unwrap(self._sp(env, n.args[0]))
                t, ek = self.as_seq(st, v)
                return VSeq(t, ek)
            if name == "int":
                v = self.unwrap(self._sp(env, n.args[0]))
                if isinstance(v, VFloat):
                    return VInt(T(f"(to_int {v.t.s})", INT))
                return VInt(self.num(v))
            if name == "type_is":
                v = self.unwrap(self._sp(env, n.args[0]))
                cname = n.args[1].id
                return VBool(Eq(self.type_of(st, v.t), self.class_id(cname)))
            if name in self.reg.macros:
                params, body = self.reg.macros[name]
                args = [self._sp(env, a) for a in n.args]
                sub = SpecEnv(env.st, dict(zip(params, args)), env.old_st,
                              dict(zip(params, args)), env.prev_st, env.prev_names)
                # macros see old() through the caller's old state but with their own parameters
                return self.spec_eval(sub, body)
            if name in self.reg.specfns:
                args = [self._sp(env, a) for a in n.args]
                return self.reg.specfns[name](self, st, *args)
        raise Unsupported(f"spec call {ast.unparse(n)[:80]}")

    def hasattr_term(self, st: State, v: Value, attr: str) -> T:
        if isinstance(v, VRef):
            d = self.field_decl(v.cls, attr)
            if d is None:
                hk = self.reg.specfns.get("hasattr_class_attr:" + attr)
                if hk is not None:
                    return hk(self, st, v).t
                m = self.reg.models.get(v.cls)
                if m is not None and getattr(m, "open_attrs", False):
                    return self.open_read(st, v.t, self.decls.str_lit(attr))[0]
                raise Unsupported(f"hasattr({v.cls}, {attr!r}): attribute not in model")
            if not d[2]:
                return TRUE
            has = self.has_dyn(st, v, attr)
            fn = self.reg.specfns.get("class_defines_attr")
            if fn is not None:
                return Or(has, fn(self, st, v, attr).t)
            return has
        if isinstance(v, VAny) and "hasattr_opaque" in self.reg.specfns:
            return self.reg.specfns["hasattr_opaque"](self, st, v, attr)
        if isinstance(v, VAny):
            self.decls.fun("any_hasattr", [INT, STR], BOOL)
            from .smt import app as _app
            return _app("any_hasattr", BOOL, v.t, self.decls.str_lit(attr))
        raise Unsupported(f"hasattr on {v!r}")
