"""Native replay: rebuild the solver's counterexample as real python objects, run the REAL function
from $REPO/src and evaluate the contract natively.  A violation is only called 'reproduced' when
the real code breaks the contract clause on the concrete input.

Runs in a subprocess (python -m pyvc.native <json>) so that a crashing or hanging replay cannot
take the checker down."""
from __future__ import annotations

import ast
import json
import os
import subprocess
import sys
import tempfile

VERIF = os.path.dirname(os.path.dirname(os.path.abspath(__file__)))

STR_POOL = ["10.0.0.1", "::1", "2001:db8::1", "41780009999", "a.b", "x:y", "", "1.2.3.4.5", "host.example.org",
            "\ud800", "é", "A.B", "abc", "12:34", "\ud800.x", "0.0.0.0"]
STR_PREDS = ["is_ipv4", "is_ipv6", "encodable", "contains_dot", "contains_colon", "canon_ipv4", "canon_ipv6"]


def replay_contract(r, ob, model):
    from .spec import REG
    from .front import repo_root
    name = ob.func
    paths = ob.meta.get("observe_paths") or []
    observed = {}
    for i, (p, kn) in enumerate(paths):
        key = f"obs!{i}"
        if key in model:
            observed[p] = {"v": model[key], "k": kn}
    if name.startswith("lemma:"):
        lem = REG.lemma_obs[name[6:]]
        job = {"mode": "lemma", "name": name, "vars": {k: repr(v) for k, v in lem["vars"].items()},
               "assumes": [c.expr for c in lem["assumes"]], "shows": [[c.label, c.expr] for c in lem["shows"]]}
    else:
        c = REG.contracts.get(name)
        if c is None:
            return {"status": "no-replay", "detail": "no contract"}
        job = {"mode": "contract", "name": name, "params": {k: repr(v) for k, v in c.params.items()},
               "ghost": {k: repr(v) for k, v in c.ghost.items()},
               "requires": [cl.expr for cl in c.requires + c.assume_pre],
               "ensures": [[cl.label, cl.expr] for cl in c.ensures],
               "raises": [[x.exc, x.when, x.mode] for x in c.raises],
               "returns": repr(c.returns) if c.returns is not None else None}
    job["macros"] = {k: [v[0], v[1]] for k, v in REG.macros.items()}
    job["observed"] = observed
    job["clause"] = ob.clause
    job["kind"] = ob.kind
    job["repo"] = repo_root()
    with tempfile.NamedTemporaryFile("w", suffix=".json", delete=False) as f:
        json.dump(job, f, default=str)
        jp = f.name
    try:
        env = dict(os.environ)
        env["PYTHONPATH"] = os.path.join(repo_root(), "src") + os.pathsep + VERIF
        env["TZ"] = "UTC"
        p = subprocess.run([sys.executable, "-m", "pyvc.native", jp], capture_output=True, text=True,
                           timeout=60, env=env, cwd=VERIF)
        out = p.stdout.strip().splitlines()
        if not out:
            return {"status": "no-replay", "detail": "replay produced no output: " + p.stderr[-400:]}
        try:
            return json.loads(out[-1])
        except json.JSONDecodeError:
            return {"status": "no-replay", "detail": "unparsable replay output: " + out[-1][:300]}
    except subprocess.TimeoutExpired:
        return {"status": "reproduced", "detail": "the real function did not terminate within 60 s on the "
                "concretised input", "inputs": observed}
    finally:
        os.unlink(jp)


# ==================================================================================================
# everything below runs in the replay subprocess
# ==================================================================================================

class NoReplay(Exception):
    pass


def _native_ns():
    import io
    import socket
    import struct
    import datetime
    import importlib

    ns = {}

    def be(n):
        return lambda x: (x % (256 ** n)).to_bytes(n, "big") if isinstance(x, int) else b""

    def un(n):
        return lambda s: int.from_bytes(bytes(s), "big")
    for n, w in ((1, "8"), (2, "16"), (3, "24"), (4, "32"), (8, "64")):
        ns[f"be{w}"] = be(n)
        ns[f"u{w}"] = un(n)
    ns["zeros"] = lambda n: b"\0" * max(0, n)
    ns["pad4"] = lambda n: (-n) % 4

    def valid_utf8(b):
        try:
            bytes(b).decode("utf8")
            return True
        except UnicodeDecodeError:
            return False

    def encodable(s):
        try:
            s.encode("utf8")
            return True
        except Exception:
            return False
    ns["valid_utf8"] = valid_utf8
    ns["encodable"] = encodable
    ns["utf8"] = lambda s: s.encode("utf8", "surrogatepass")
    ns["utf8dec"] = lambda b: bytes(b).decode("utf8", "replace")
    ns["lower"] = lambda s: s.lower()
    ns["str_contains"] = lambda h, n: n in h

    def is_ip(fam):
        def f(s):
            try:
                socket.inet_pton(fam, s)
                return True
            except Exception:
                return False
        return f
    ns["is_ipv4"] = is_ip(socket.AF_INET)
    ns["is_ipv6"] = is_ip(socket.AF_INET6)
    ns["pton4"] = lambda s: socket.inet_pton(socket.AF_INET, s)
    ns["pton6"] = lambda s: socket.inet_pton(socket.AF_INET6, s)
    ns["ntop4"] = lambda b: socket.inet_ntop(socket.AF_INET, bytes(b)) if len(b) == 4 else None
    ns["ntop6"] = lambda b: socket.inet_ntop(socket.AF_INET6, bytes(b)) if len(b) == 16 else None
    ns["canon_ipv4"] = lambda s: ns["is_ipv4"](s) and ns["ntop4"](ns["pton4"](s)) == s
    ns["canon_ipv6"] = lambda s: ns["is_ipv6"](s) and ns["ntop6"](ns["pton6"](s)) == s
    ns["f32enc"] = lambda x: struct.pack("!f", x)
    ns["f64enc"] = lambda x: struct.pack("!d", x)

    class _NaN:
        """spec-level equality is equality of the decoded VALUE as an uninterpreted function of the bytes: a NaN equals the
        NaN decoded from the same bytes (python's nan != nan is a property of float comparison, not of the codec)"""
        def __eq__(self, other):
            return isinstance(other, _NaN) or (isinstance(other, float) and other != other)

        def __ne__(self, other):
            return not self.__eq__(other)

    def _fdec(fmt, n):
        def f(b):
            if len(b) != n:
                return None
            v = struct.unpack(fmt, bytes(b))[0]
            return _NaN() if v != v else v
        return f
    ns["f32dec"] = _fdec("!f", 4)
    ns["f64dec"] = _fdec("!d", 8)

    def f32fits(x):
        try:
            struct.pack("!f", x)
            return True
        except OverflowError:
            return False
    ns["f32fits"] = f32fits
    ns["is_none"] = lambda x: x is None
    ns["some"] = lambda x: x
    ns["fresh"] = lambda x: True
    ns["iff"] = lambda a, b: bool(a) == bool(b)
    ns["items"] = lambda x: list(x)
    ns["type_is"] = lambda x, n: type(x).__name__ == n
    ns["data_of"] = lambda b: b.getvalue()

    def ts_of(d):
        return int(d.replace(tzinfo=datetime.timezone.utc).timestamp())
    ns["ts_of"] = ts_of
    avp = importlib.import_module("diameter.message.avp.avp")
    ns["dict_known"] = lambda c, v: avp.get_avp_dictionary_entry(c, v) is not None

    class Entry:
        def __init__(self, d):
            self.__dict__.update(d)
            self.name = d.get("name", "")
            self.mandatory = d.get("mandatory")
            self._d = d

        def __eq__(self, other):      # the same table row, whether seen as the row object or as the real dict
            return (other._d if isinstance(other, Entry) else other) == self._d

        __hash__ = None
    ns["dict_entry"] = lambda c, v: Entry(avp.get_avp_dictionary_entry(c, v) or {})
    ns["avp_class_ok"] = lambda t: isinstance(t, type) and issubclass(t, avp.Avp)
    # real classes by name
    for modname in ("diameter.message.avp.avp", "diameter.message.packer", "diameter.message._base",
                    "diameter.message.avp.errors", "diameter.node._helpers", "diameter.message.commands"):
        try:
            m = importlib.import_module(modname)
        except Exception:
            continue
        for k, v in vars(m).items():
            if isinstance(v, type):
                ns.setdefault(k, v)
    return ns


class _Tx(ast.NodeTransformer):
    """implies/ite -> lazy python; old(e) -> __old[i]; x.ts / x.data -> accessor calls."""

    def __init__(self):
        self.olds = []

    def visit_Call(self, n):
        if isinstance(n.func, ast.Name):
            if n.func.id == "old":
                self.olds.append(n.args[0])
                return ast.Subscript(ast.Name("__old", ast.Load()), ast.Constant(len(self.olds) - 1), ast.Load())
            self.generic_visit(n)
            if n.func.id == "implies":
                return ast.BoolOp(ast.Or(), [ast.UnaryOp(ast.Not(), n.args[0]), n.args[1]])
            if n.func.id == "ite":
                return ast.IfExp(n.args[0], n.args[1], n.args[2])
            if n.func.id == "type_is" and isinstance(n.args[1], ast.Name):
                n.args[1] = ast.Constant(n.args[1].id)
            return n
        self.generic_visit(n)
        return n

    def visit_Attribute(self, n):
        self.generic_visit(n)
        if n.attr == "ts":
            return ast.Call(ast.Name("ts_of", ast.Load()), [n.value], [])
        if n.attr == "data":
            return ast.Call(ast.Name("data_of", ast.Load()), [n.value], [])
        return n


def _compile(expr: str):
    tx = _Tx()
    tree = ast.parse(expr.strip(), mode="eval")
    tree = ast.fix_missing_locations(tx.visit(tree))
    olds = [compile(ast.fix_missing_locations(ast.Expression(_Tx().visit(o))), "<old>", "eval") for o in tx.olds]
    return compile(tree, "<spec>", "eval"), olds


def _install_macros(ns, macros):
    for name, (params, body) in macros.items():
        tx = _Tx()
        tree = ast.fix_missing_locations(tx.visit(ast.parse(body.strip(), mode="eval")))
        if tx.olds:
            continue
        code = compile(tree, f"<macro {name}>", "eval")

        def mk(code, params):
            def f(*args):
                loc = dict(zip(params, args))
                return eval(code, ns, loc)
            return f
        ns[name] = mk(code, params)


def _pick_str(profile):
    ns = _native_ns_cache
    for cand in STR_POOL:
        ok = True
        for pred, want in profile.items():
            if pred == "contains_dot":
                got = "." in cand
            elif pred == "contains_colon":
                got = ":" in cand
            else:
                got = ns[pred](cand)
            if bool(got) != bool(want):
                ok = False
                break
        if ok:
            return cand
    raise NoReplay(f"no pool string matches predicate profile {profile}")


_native_ns_cache = None


def _build(path, kind, observed, ns, cache):
    """Construct the native value for the contract parameter at `path` of the given kind."""
    import io
    import datetime

    def ob(p, default=None):
        return observed.get(p, {}).get("v", default)
    if kind.startswith("Opt["):
        if ob(path + "?none") is True:
            return None
        return _build(path, kind[4:-1], observed, ns, cache)
    if kind == "int":
        return int(ob(path, 0))
    if kind == "bool":
        return bool(ob(path, False))
    if kind == "bytes":
        v = ob(path, [])
        if not isinstance(v, list):
            raise NoReplay(f"bytes model value {v!r}")
        if any(not 0 <= x < 256 for x in v):
            raise NoReplay("model bytes outside 0..255 (S-bytes not enforced on this term)")
        return bytes(v)
    if kind == "str":
        prof = {p: ob(f"{path}#{p}") for p in STR_PREDS if ob(f"{path}#{p}") is not None}
        return _pick_str(prof)
    if kind == "float":
        return float(ob(path, 0.0))
    if kind == "Any":
        raise NoReplay("opaque value")
    if kind.startswith("Tuple["):
        raise NoReplay("tuple parameter")
    if kind.startswith("List["):
        raise NoReplay("list parameter")
    # object reference
    ref = ob(path + "@ref")
    if ref in cache:
        return cache[ref]
    if kind == "BytesIO":
        o = io.BytesIO()
        o.write(_build(path + ".data", "bytes", observed, ns, cache))
        cache[ref] = o
        return o
    if kind == "datetime":
        ts = int(ob(path + ".ts", 0))
        o = datetime.datetime(1970, 1, 1) + datetime.timedelta(seconds=ts)
        cache[ref] = o
        return o
    cls = ns.get(kind)
    if not isinstance(cls, type):
        raise NoReplay(f"no native class for kind {kind}")
    o = object.__new__(cls)
    cache[ref] = o
    from pyvc.spec import REG
    import importlib
    for m in ("packer", "avp", "avp_types", "base", "helpers"):
        try:
            importlib.import_module("specs." + m)
        except Exception:
            pass
    fields = {}
    seen = [cls.__name__] + [b.__name__ for b in cls.__mro__[1:]]
    for cn in seen:
        md = REG.models.get(cn)
        if md:
            for f, k in md.fields.items():
                fields.setdefault(f, repr(k))
            for f, k in md.dynamic.items():
                if ob(f"{path}.{f}?has") is True:
                    fields.setdefault(f, repr(k))
    for f, k in fields.items():
        try:
            setattr(o, f, _build(f"{path}.{f}", k, observed, ns, cache))
        except NoReplay:
            raise
    return o


def _get_callable(name, ns, args):
    """-> (callable taking *args, description)"""
    base = name.split("#")[0]
    parts = base.split(".")
    if len(parts) == 1:
        import importlib
        for modname in ("diameter.message.avp.avp", "diameter.node._helpers", "diameter.message._base"):
            m = importlib.import_module(modname)
            if hasattr(m, parts[0]):
                return getattr(m, parts[0])
        raise NoReplay(f"function {name} not found")
    cls = ns.get(parts[0])
    if not isinstance(cls, type):
        raise NoReplay(f"class {parts[0]} not found")
    attr = cls.__dict__.get(parts[1])
    if attr is None:
        for b in cls.__mro__:
            if parts[1] in b.__dict__:
                attr = b.__dict__[parts[1]]
                break
    if isinstance(attr, property):
        return attr.fset if parts[-1] == "fset" else attr.fget
    if isinstance(attr, classmethod):
        return getattr(cls, parts[1])
    if isinstance(attr, staticmethod):
        return attr.__func__
    if attr is None:
        raise NoReplay(f"{name} not found")
    return attr


def _exc_name(e):
    n = type(e).__name__
    mod = type(e).__module__
    if mod == "struct" or n == "error" and mod in ("struct", "_struct"):
        return "struct.error"
    return n


def _isa(exc: BaseException, name: str, ns):
    if name == "struct.error":
        import struct
        return isinstance(exc, struct.error)
    if name in ("socket.error", "OSError"):
        return isinstance(exc, OSError)
    cls = ns.get(name) or getattr(__import__("builtins"), name, None)
    if name == "queue.Empty":
        import queue
        cls = queue.Empty
    return isinstance(cls, type) and isinstance(exc, cls)


def main(jp):
    global _native_ns_cache
    job = json.load(open(jp))
    ns = _native_ns()
    _native_ns_cache = ns
    _install_macros(ns, job["macros"])
    observed = job["observed"]
    cache = {}
    try:
        if job["mode"] == "lemma":
            env = {n: _build(n, k, observed, ns, cache) for n, k in job["vars"].items()}
            for a in job["assumes"]:
                code, _ = _compile(a)
                if not eval(code, ns, dict(env)):
                    print(json.dumps({"status": "not-reproduced", "detail": f"assumption {a!r} is false natively",
                                      "inputs": repr(env)}))
                    return
            for label, s in job["shows"]:
                code, _ = _compile(s)
                if not eval(code, ns, dict(env)):
                    print(json.dumps({"status": "reproduced", "detail": f"lemma clause {label} is false natively",
                                      "inputs": repr(env)}))
                    return
            print(json.dumps({"status": "not-reproduced", "detail": "all lemma clauses hold natively", "inputs": repr(env)}))
            return
        env = {}
        for n, k in job["params"].items():
            env[n] = _build(n, k, observed, ns, cache)
        for n, k in job.get("ghost", {}).items():
            env[n] = _build(n, k, observed, ns, cache)
    except NoReplay as e:
        print(json.dumps({"status": "no-replay", "detail": f"cannot concretise: {e}"}))
        return
    print(json.dumps(_evaluate(job, env, ns), default=str))


def _snap(v):
    """pre-state value of old(e): containers are copied shallowly (their elements keep their identity)"""
    if isinstance(v, list):
        return list(v)
    if isinstance(v, dict):
        return dict(v)
    if isinstance(v, (set, bytearray)):
        return type(v)(v)
    return v


def _evaluate(job, env, ns):
    desc = {k: (repr(v) if not hasattr(v, "__dict__") else f"{type(v).__name__}({ {a: b for a, b in vars(v).items()} })")
            for k, v in env.items()}
    try:
        for rq in job["requires"]:
            code, _ = _compile(rq)
            if not eval(code, ns, dict(env)):
                return {"status": "not-reproduced", "pre_false": True, "detail": f"precondition {rq!r} is false on the "
                        "concretised input (uninterpreted symbols were interpreted differently by the solver)",
                        "inputs": desc}
        # pre-state values of old(...) and of the raises conditions
        compiled = []
        for label, s in job["ensures"]:
            code, olds = _compile(s)
            compiled.append((label, s, code, [_snap(eval(o, ns, dict(env))) for o in olds]))
        whens = []
        for exc, when, mode in job["raises"]:
            code, _ = _compile(when)
            whens.append((exc, mode, bool(eval(code, ns, dict(env)))))
        fn = _get_callable(job["name"], ns, env)
        args = [env[n] for n in job["params"]]
    except NoReplay as e:
        return {"status": "no-replay", "detail": str(e)}
    except Exception as e:
        return {"status": "no-replay", "detail": f"error preparing the replay: {e!r}", "inputs": desc}
    raised = None
    result = None
    try:
        result = fn(*args)
    except BaseException as e:     # noqa
        if type(e).__name__ == "_Timeout":
            raise
        if job.get("mode") == "crosscheck" and (isinstance(e, MemoryError) or
                                                (isinstance(e, OverflowError) and "index-sized" in str(e))):
            # the verifier treats sizes as mathematical integers and memory as unbounded (stated assumption): a sample that
            # hits the machine's limits is outside what the proof speaks about
            return {"status": "no-replay", "resource": True, "detail": f"machine limit reached: {e!r}"}
        raised = e
    out = {"inputs": desc}
    if raised is not None:
        out["raised"] = repr(raised)
        allowed = [(exc, mode, w) for exc, mode, w in whens if _isa(raised, exc, ns)]
        if not allowed:
            out.update(status="reproduced", detail=f"the real function raises {_exc_name(raised)}, which the contract "
                       f"does not allow (raises clause: {[w[0] for w in whens]})")
        elif not any(w or mode == "may" for exc, mode, w in allowed):
            out.update(status="reproduced", detail=f"the real function raises {_exc_name(raised)} although the "
                       f"contract's condition for it is false on this input")
        else:
            out.update(status="not-reproduced", detail="raises as the contract allows")
        return out
    out["returned"] = repr(result)[:300]
    must = [exc for exc, mode, w in whens if mode == "iff" and w]
    if must:
        out.update(status="reproduced", detail=f"the real function returns normally although the contract demands "
                   f"{must[0]} on this input")
        return out
    for label, s, code, olds in compiled:
        loc = dict(env)
        loc["result"] = result
        loc["__old"] = olds
        try:
            ok = eval(code, ns, loc)
        except Exception as e:
            out.update(status="no-replay", detail=f"clause {label} cannot be evaluated natively: {e!r}")
            return out
        if not ok:
            out.update(status="reproduced", detail=f"postcondition {label!r} is false on the real result: {s}")
            return out
    out.update(status="not-reproduced", detail="the real function satisfies every clause on this input")
    return out



# ==================================================================================================
# CPython cross-check of PROVED contracts: random inputs, the real function, the contract evaluated natively
# ==================================================================================================
INT_POOL = [0, 1, 2, 3, 4, 5, 7, 8, 9, 12, 16, 19, 20, 21, 24, 32, 63, 64, 127, 128, 255, 256, 257, 263, 264, 280, 1024, 65535,
            65536, 2 ** 24 - 1, 2 ** 24, 2 ** 31 - 1, 2 ** 31, 2 ** 32 - 1, 2 ** 32, 2 ** 32 + 1, 2 ** 63 - 1, 2 ** 63,
            2 ** 64 - 1, 2 ** 64, -1, -2, -128, -2 ** 31, -2 ** 31 - 1, -2 ** 63, -2 ** 63 - 1, 10415, 2208988800, 4294967295 + 2208988800]
FLOAT_POOL = [0.0, 1.0, -1.0, 0.5, 1e10, -1e10, 3.4e38, 3.5e38, 1e308, float("inf"), float("-inf"), 1.5e-45, 2.0 ** 24 + 1]
LEN_POOL = [0, 0, 1, 2, 3, 4, 4, 5, 6, 7, 8, 8, 9, 12, 16, 18, 20, 24, 28]


def _hashable(v):
    try:
        hash(v)
        return v
    except TypeError:
        raise NoReplay("unhashable dictionary key")


def _rand_build(kind, rnd, ns, depth=0):
    """a random native value of a contract kind (cross-check); NoReplay for kinds without a native constructor"""
    import io
    import datetime
    if kind.startswith("Opt["):
        if rnd.random() < 0.25:
            return None
        return _rand_build(kind[4:-1], rnd, ns, depth)
    if kind == "int":
        r = rnd.random()
        if r < 0.7:
            return rnd.choice(INT_POOL)
        if r < 0.85:
            return rnd.randrange(0, 2 ** 32)
        return rnd.randrange(-2 ** 64, 2 ** 65)
    if kind == "bool":
        return rnd.random() < 0.5
    if kind == "bytes":
        n = rnd.choice(LEN_POOL)
        r = rnd.random()
        if r < 0.2:
            return bytes(n)
        if r < 0.3:
            return b"\xff" * n
        return bytes(rnd.randrange(256) for _ in range(n))
    if kind == "str":
        return rnd.choice(STR_POOL)
    if kind == "float":
        return rnd.choice(FLOAT_POOL)
    if kind.startswith("List["):
        if depth > 2:
            return []
        return [_rand_build(kind[5:-1], rnd, ns, depth + 1) for _ in range(rnd.choice([0, 0, 1, 2]))]
    if kind.startswith("Dict["):
        inner = kind[5:-1]
        lvl = 0
        cut = None
        for i, ch in enumerate(inner):
            lvl += ch == "["
            lvl -= ch == "]"
            if ch == "," and lvl == 0:
                cut = i
                break
        if cut is None or depth > 2 or rnd.random() < 0.6:
            return {}
        return {_hashable(_rand_build(inner[:cut].strip(), rnd, ns, depth + 1)): _rand_build(inner[cut + 1:].strip(), rnd, ns, depth + 1)
                for _ in range(rnd.choice([1, 2]))}
    if kind == "Any":
        # an opaque value: the proof holds for every value
        return rnd.choice([None, 0, 1, -1, b"", b"ab", "", "x", 1.5, True])
    if kind.startswith(("Tuple[", "Seq[", "Set[", "Deque[", "Any:")):
        raise NoReplay(f"no random constructor for kind {kind}")
    if kind == "BytesIO":
        o = io.BytesIO()
        o.write(_rand_build("bytes", rnd, ns))      # write position at the end (model assumption: BytesIO is only appended to)
        return o
    if kind == "Lock":
        import threading
        return threading.Lock()
    if kind == "datetime":
        ts = rnd.choice([0, 1, -1, 2085978495, 2085978496, 2085978497, -2208988800, -2208988801, 4294967295, 1700000000,
                         rnd.randrange(-2 ** 33, 2 ** 33)])
        return datetime.datetime(1970, 1, 1) + datetime.timedelta(seconds=ts)
    cls = ns.get(kind)
    if not isinstance(cls, type):
        raise NoReplay(f"no native class for kind {kind}")
    if depth > 3:
        raise NoReplay("object nesting too deep")
    o = object.__new__(cls)
    from pyvc.spec import REG
    fields = {}
    for cn in [cls.__name__] + [b.__name__ for b in cls.__mro__[1:]]:
        md = REG.models.get(cn)
        if md:
            for f, k in md.fields.items():
                fields.setdefault(f, repr(k))
            for f, k in md.dynamic.items():
                if rnd.random() < 0.5:
                    fields.setdefault(f, repr(k))
    # class invariants of the form `not is_none(self.<field>)` are respected by the builder (the contracts assume them for
    # every object of the class)
    import re as _re
    never_none = set()
    for cn in [cls.__name__] + [b.__name__ for b in cls.__mro__[1:]]:
        inv = REG.obj_invariants.get(cn)
        if inv:
            never_none |= set(_re.findall(r"not is_none\(self\.(\w+)\)", inv))
    for f, k in fields.items():
        if f.startswith("g_"):
            continue                  # ghost fields have no native counterpart
        if f in never_none and k.startswith("Opt["):
            k = k[4:-1]
        setattr(o, f, _rand_build(k, rnd, ns, depth + 1))
    return o


def crosscheck_main(jp):
    """job: {contracts: [contract jobs], macros, n, seed, specs} -> one JSON line {name: {ran, pre_false, no_replay, violated, first}}"""
    global _native_ns_cache
    import importlib
    import random
    import signal
    job = json.load(open(jp))
    for m in job.get("specs", []):
        try:
            importlib.import_module("specs." + m)
        except Exception:
            pass
    ns = _native_ns()
    _native_ns_cache = ns
    _install_macros(ns, job["macros"])
    out = {}

    class _Timeout(BaseException):
        pass

    def _alarm(*a):
        raise _Timeout()
    signal.signal(signal.SIGALRM, _alarm)
    try:
        import resource
        resource.setrlimit(resource.RLIMIT_AS, (3 * 2 ** 30, 3 * 2 ** 30))     # a sample asking for gigabytes fails fast
    except Exception:
        pass
    for cj in job["contracts"]:
        cj["mode"] = "crosscheck"
        rnd = random.Random(f"{job['seed']}:{cj['name']}")
        st = {"ran": 0, "pre_false": 0, "no_replay": 0, "violated": 0, "first": None, "why_no_replay": None}
        for _ in range(job["n"]):
            try:
                env = {n: _rand_build(k, rnd, ns) for n, k in cj["params"].items()}
                for n, k in cj.get("ghost", {}).items():
                    env[n] = _rand_build(k, rnd, ns)
            except NoReplay as e:
                st["no_replay"] += 1
                st["why_no_replay"] = str(e)
                break                 # the kind has no constructor: every sample would fail the same way
            except Exception as e:
                st["no_replay"] += 1
                st["why_no_replay"] = repr(e)
                continue
            signal.alarm(3)
            try:
                r = _evaluate(cj, env, ns)
            except _Timeout:
                st["timeouts"] = st.get("timeouts", 0) + 1
                r = {"status": "no-replay", "detail": "the real function did not return within 3 s (resource limit of the cross-check)"}
            except Exception as e:
                r = {"status": "no-replay", "detail": repr(e)}
            finally:
                signal.alarm(0)
            if r.get("status") == "reproduced":
                st["violated"] += 1
                if st["first"] is None:
                    st["first"] = {"detail": r.get("detail"), "inputs": r.get("inputs"), "raised": r.get("raised"),
                                   "returned": r.get("returned")}
            elif r.get("resource"):
                st["resource"] = st.get("resource", 0) + 1
            elif r.get("status") == "no-replay":
                st["no_replay"] += 1
                st["why_no_replay"] = r.get("detail")
            elif r.get("pre_false"):
                st["pre_false"] += 1
            else:
                st["ran"] += 1
        out[cj["name"]] = st
    print(json.dumps(out, default=str))


if __name__ == "__main__":
    if len(sys.argv) > 2 and sys.argv[1] == "--crosscheck":
        crosscheck_main(sys.argv[2])
    else:
        main(sys.argv[1])
