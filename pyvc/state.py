"""Symbolic state, outcomes and obligations."""
from __future__ import annotations

from .smt import T, TRUE


class Unsupported(Exception):
    """A construct outside the verified subset: the function becomes 'undecided', never a violation."""


class Frame:
    def __init__(self, func, module, cls):
        self.func = func          # FuncInfo or None (spec evaluation)
        self.module = module
        self.cls = cls            # ClassInfo or None


class State:
    __slots__ = ("locals", "heap", "pc", "alloc", "clock", "held", "trace", "frame",
                 "ghost", "exc_ctx")

    def __init__(self):
        self.locals = {}
        self.heap = {}
        self.pc = []
        self.alloc = None
        self.clock = None
        self.held = ()
        self.trace = ()
        self.frame = None
        self.ghost = {}
        self.exc_ctx = None

    def copy(self) -> "State":
        s = State()
        s.locals = dict(self.locals)
        s.heap = dict(self.heap)
        s.pc = list(self.pc)
        s.alloc = self.alloc
        s.clock = self.clock
        s.held = self.held
        s.trace = self.trace
        s.frame = self.frame
        s.ghost = dict(self.ghost)
        s.exc_ctx = self.exc_ctx
        return s

    def assume(self, t: T) -> "State":
        if t.s == "true":
            return self
        s = self.copy()
        s.pc.append(t)
        return s

    def note(self, text) -> "State":
        s = self.copy()
        s.trace = self.trace + (text,)
        return s


class Out:
    """Outcome of executing a statement list: kind in ok|ret|exc|brk|cnt."""
    __slots__ = ("kind", "st", "val")

    def __init__(self, kind, st, val=None):
        self.kind = kind
        self.st = st
        self.val = val

    def __repr__(self):
        return f"Out({self.kind},{self.val!r})"


class Obligation:
    def __init__(self, func, clause, kind, pc, goal: T, trace=(), meta=None):
        self.func = func        # qualified name of the function under contract
        self.clause = clause    # stable label (contract clause / rule name)
        self.kind = kind        # post | pre | raises | frame | inv_init | inv_pres | variant | lowering | lemma | cover
        self.pc = list(pc)
        self.goal = goal
        self.trace = tuple(trace)
        self.meta = meta or {}
        self.result = None      # filled by the runner

    @property
    def coarse_id(self):
        clause = self.clause
        if self.kind == "raises" and clause.startswith("no-escape:"):
            clause = "no-escape"       # one clause family: "no exception outside the raises clause escapes"
        return f"{self.func}::{self.kind}:{clause}"
