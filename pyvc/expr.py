"""Expression evaluation of real code (continuation passing; forks on exceptions and Optional)."""
from __future__ import annotations

import ast

from .smt import (T, INT, BOOL, REAL, SEQI, STR, TRUE, FALSE, I, And, Or, Not, Eq, Ne, Lt, Le, Gt, Ge,
                  Add, Sub, Mul, Neg, FloorDiv, Mod, Ite, Implies, seq_len, seq_concat, seq_extract,
                  seq_unit, seq_nth, seq_empty, seq_contains_elem, select, is_lit, lit_val)
from .state import State, Out, Unsupported
from .values import *

BUILTIN_NAMES = {"len", "int", "bool", "isinstance", "hasattr", "getattr", "setattr", "list", "str",
                 "bytes", "min", "max", "set", "hex", "repr", "next", "iter", "sum", "sorted", "reversed",
                 "zip", "enumerate", "range", "tuple", "dict", "super", "type", "print", "id", "abs",
                 "issubclass", "callable", "delattr"}

BUILTIN_EXC = {
    "BaseException": None, "Exception": "BaseException", "ArithmeticError": "Exception",
    "OverflowError": "ArithmeticError", "ZeroDivisionError": "ArithmeticError",
    "AssertionError": "Exception", "AttributeError": "Exception", "EOFError": "Exception",
    "LookupError": "Exception", "IndexError": "LookupError", "KeyError": "LookupError",
    "NameError": "Exception", "UnboundLocalError": "NameError", "OSError": "Exception", "socket.error": "Exception",
    "RuntimeError": "Exception", "NotImplementedError": "RuntimeError", "RecursionError": "RuntimeError",
    "TypeError": "Exception", "ValueError": "Exception", "UnicodeError": "ValueError",
    "UnicodeDecodeError": "UnicodeError", "UnicodeEncodeError": "UnicodeError",
    "struct.error": "Exception", "queue.Empty": "Exception", "queue.Full": "Exception",
    "TimeoutError": "OSError", "StopIteration": "Exception", "MemoryError": "Exception",
    "ConnectionError": "OSError", "BrokenPipeError": "ConnectionError",
}
# socket.error is an alias of OSError in python 3
EXC_ALIASES = {"socket.error": "OSError", "IOError": "OSError", "EnvironmentError": "OSError"}


class ExprMixin:

    # ---- exceptions ---------------------------------------------------------------------------
    def exc_name(self, name: str) -> str:
        return EXC_ALIASES.get(name, name)

    def exc_parent(self, name: str):
        name = self.exc_name(name)
        if name in BUILTIN_EXC:
            return BUILTIN_EXC[name]
        if name in self.reg.exc_parents:
            return self.reg.exc_parents[name]
        try:
            ci = self.prog.cls(name)
        except KeyError:
            raise Unsupported(f"unknown exception class {name}")
        if not ci.base_names:
            return None
        return ci.base_names[0]

    def exc_isa(self, name: str, anc: str) -> bool:
        name, anc = self.exc_name(name), self.exc_name(anc)
        seen = 0
        while name is not None and seen < 30:
            if name == anc:
                return True
            name = self.exc_parent(name)
            name = self.exc_name(name) if name else None
            seen += 1
        return False

    def raise_(self, st: State, cls: str, origin: str, args=None):
        return [Out("exc", st, VExc(self.exc_name(cls), args or [], origin))]

    # ---- names -----------------------------------------------------------------------------------
    def resolve_global(self, name: str, spec=False, module=None):
        module = module or self.cur_module
        if name in self.reg.globals:
            if name not in self.global_vals:
                st0 = self.entry_state if self.entry_state is not None else self._boot_state
                self.global_vals[name] = self.fresh_value(st0, self.reg.globals[name], "glob_" + name)
                self.global_facts += st0.pc[-4:] if False else []
            return self.global_vals[name]
        if module:
            r = self.prog.resolve_name(module, name)
            if r is not None:
                return self.wrap_resolved(r)
        if name in BUILTIN_NAMES:
            return VPy("builtin", name)
        if name in BUILTIN_EXC or name in EXC_ALIASES:
            return VPy("excclass", self.exc_name(name))
        if name in self.reg.models and self.reg.models[name].builtin:
            return VPy("extclass", name)
        return None

    def wrap_resolved(self, r):
        if r[0] == "class":
            return VPy("class", r[1])
        if r[0] == "func":
            return VPy("func", r[1])
        if r[0] == "const":
            return self.eval_const_expr(r[2], r[1])
        if r[0] == "module":
            last = r[1].rsplit(".", 1)[-1]
            if last in self.reg.models and self.reg.models[last].builtin and r[1] not in self.prog.modules:
                return VPy("extclass", last)
            if r[1] in BUILTIN_EXC or r[1] in EXC_ALIASES:
                return VPy("excclass", self.exc_name(r[1]))
            return VPy("module", r[1])
        raise Unsupported(str(r))

    def resolve_in_module(self, modname: str, attr: str):
        if modname in self.prog.modules:
            r = self.prog.resolve_name(modname, attr)
            if r is not None:
                return self.wrap_resolved(r)
            return None
        dotted = f"{modname}.{attr}"
        if dotted in BUILTIN_EXC or dotted in EXC_ALIASES:
            return VPy("excclass", self.exc_name(dotted))
        if attr in self.reg.models and self.reg.models[attr].builtin:
            return VPy("extclass", attr)
        return VPy("ext", dotted)

    def eval_const_expr(self, e: ast.expr, module: str) -> Value:
        if isinstance(e, ast.Constant):
            return self.const_value(e.value)
        if isinstance(e, ast.Name):
            r = self.resolve_global(e.id, module=module)
            if r is None:
                raise Unsupported(f"constant name {e.id}")
            return r
        if isinstance(e, ast.Tuple):
            return VTuple([self.eval_const_expr(x, module) for x in e.elts])
        if isinstance(e, ast.UnaryOp) and isinstance(e.op, ast.USub):
            v = self.eval_const_expr(e.operand, module)
            return VInt(Neg(v.t))
        if isinstance(e, ast.BinOp):
            a = self.eval_const_expr(e.left, module)
            b = self.eval_const_expr(e.right, module)
            return self.pure_binop(None, e.op, a, b)
        if isinstance(e, ast.Attribute):
            base = self.eval_const_expr(e.value, module)
            if isinstance(base, VPy) and base.what == "module":
                r = self.resolve_in_module(base.obj, e.attr)
                if r is not None:
                    return r
            if isinstance(base, VPy) and base.what == "class":
                r = base.obj.lookup(e.attr)
                if r and r[0] == "const":
                    return self.eval_const_expr(r[1], r[2].module)
        if isinstance(e, ast.Dict):
            return VPy("constdict", e)
        raise Unsupported(f"constant expression {ast.unparse(e)[:60]}")

    # ---- main dispatcher ------------------------------------------------------------------------
    def ev(self, st: State, e: ast.expr, k):
        m = getattr(self, "ev_" + type(e).__name__, None)
        if m is None:
            raise Unsupported(f"expression {type(e).__name__}: {ast.unparse(e)[:60]}")
        return m(st, e, k)

    def ev_list(self, st: State, exprs, k, acc=None):
        acc = acc or []
        if not exprs:
            return k(st, acc)
        return self.ev(st, exprs[0], lambda st2, v: self.ev_list(st2, exprs[1:], k, acc + [v]))

    def ev_Constant(self, st, e, k):
        return k(st, self.const_value(e.value))

    def ev_Name(self, st, e, k):
        if e.id in st.locals:
            return k(st, st.locals[e.id])
        fr = st.frame
        if fr is not None and fr.func is not None:
            loc = getattr(fr.func, "_assigned", None)
            if loc is None:
                from .stmt import assigned_names
                loc = assigned_names(fr.func.node.body) | {a.arg for a in fr.func.node.args.args}
                fr.func._assigned = loc
            if e.id in loc:
                # a local of this function that is not bound on this path
                return self.raise_(st, "UnboundLocalError", f"{e.id} at line {e.lineno}")
        r = self.resolve_global(e.id)
        if r is None:
            raise Unsupported(f"name {e.id!r} is unbound in {self.cur_module}")
        return k(st, r)

    def mangle(self, st: State, attr: str) -> str:
        if attr.startswith("__") and not attr.endswith("__") and st.frame and st.frame.cls:
            return f"_{st.frame.cls.name.lstrip('_')}{attr}"
        return attr

    def ev_Attribute(self, st, e, k):
        attr = self.mangle(st, e.attr)
        return self.ev(st, e.value, lambda st2, base: self.get_attr(st2, base, attr, k, e))

    def split_opt(self, st: State, v: Value, k_none, k_some):
        """Fork on an Optional value."""
        if v is VNone:
            return k_none(st)
        if isinstance(v, VOpt):
            outs = []
            outs += k_none(st.assume(v.isnone))
            outs += k_some(st.assume(Not(v.isnone)), v.inner)
            return outs
        return k_some(st, v)

    def get_attr(self, st, base, attr, k, node=None):
        where = f"{ast.unparse(node)[:50]}" if node is not None else attr
        if base is VNone or isinstance(base, VOpt):
            return self.split_opt(
                st, base,
                lambda s: self.raise_(s, "AttributeError", f"None.{attr} at {where}"),
                lambda s, inner: self.get_attr(s, inner, attr, k, node))
        if isinstance(base, VRef) and attr == "__class__":
            ci = self.try_cls(base.cls)
            tag = "class"
            if ci is not None and any(c.name == "Message" for c in ci.mro()):
                tag = "msgclass"
            return k(st, VAny(self.type_of(st, base.t), tag))
        if isinstance(base, VRef):
            d = self.field_decl(base.cls, attr)
            if d is not None and not d[2]:
                if (d[0], attr) in self.reg.interference and (d[0], attr) in getattr(self, "active_interference", ()):
                    st = self.inject_interference(st, base, d[0], attr)
                return k(st, self.read_field(st, base, attr))
            if d is not None and d[2]:
                return self.get_dyn_attr(st, base, attr, k, where)
            # property / method / class constant from source
            ci = self.try_cls(base.cls)
            if ci is not None:
                r = ci.lookup(attr)
                if r is not None:
                    if r[0] == "getter":
                        return self.call_function(st, self.dispatch(base, attr, "getter"), [base], {}, k,
                                                  where=where)
                    if r[0] == "method":
                        return k(st, VPy("bound", attr, base))
                    if r[0] == "const":
                        over = [] if base.exact else [c for c in ci.all_subclasses() if attr in c.consts]
                        if over or (("class_attr:" + attr) in self.reg.specfns and attr != "code"):
                            hk = self.reg.specfns.get("class_attr:" + attr)
                            if hk is None:
                                raise Unsupported(f"class attribute {base.cls}.{attr} is overridden in subclasses "
                                                  f"({[c.name for c in over][:3]}): needs a class_attr hook")
                            return k(st, hk(self, st, base))
                        return k(st, self.eval_const_expr(r[1], r[2].module))
            if self.find_contract_for_ext(base.cls, attr) is not None:
                return k(st, VPy("bound", attr, base))
            if attr == "get" and base.cls in self.reg.models:
                return k(st, VPy("bound", attr, base))
            if ("class_attr:" + attr) in self.reg.specfns:
                return k(st, self.reg.specfns["class_attr:" + attr](self, st, base))
            raise Unsupported(f"attribute {base.cls}.{attr} has no model ({where})")
        if isinstance(base, VPy) and base.what == "builtin" and (base.obj, attr) == ("int", "from_bytes"):
            return k(st, VPy("builtin", "int.from_bytes"))
        if isinstance(base, VPy):
            if base.what == "module":
                r = self.resolve_in_module(base.obj, attr)
                if r is None:
                    raise Unsupported(f"{base.obj}.{attr} not found")
                return k(st, r)
            if base.what == "class":
                r = base.obj.lookup(attr)
                if r is not None:
                    if r[0] == "const":
                        return k(st, self.eval_const_expr(r[1], r[2].module))
                    if r[0] == "method":
                        return k(st, VPy("clsattr", attr, base.obj))
                if attr == "__name__":
                    return k(st, VStr(self.decls.str_lit(base.obj.name), lit=base.obj.name))
                raise Unsupported(f"class attribute {base.obj.name}.{attr}")
            if base.what == "ext":
                return k(st, VPy("ext", f"{base.obj}.{attr}"))
            if base.what == "extclass":
                return k(st, VPy("ext", f"{base.obj}.{attr}"))
            if base.what == "super":
                return k(st, VPy("superbound", attr, base.obj))
            if base.what in ("constdict", "litdict"):
                return k(st, VPy("bound_builtin", attr, base))
        if isinstance(base, (VBytes, VStr, VList, VDict, VDeque, VSet, VSeq, VInt, VFloat)):
            pytype = {VBytes: bytes, VStr: str, VList: list, VDict: dict, VInt: int, VFloat: float}.get(type(base))
            if pytype is not None and not hasattr(pytype, attr):
                return self.raise_(st, "AttributeError", f"{pytype.__name__}.{attr} at {where}")
            return k(st, VPy("bound_builtin", attr, base))
        if isinstance(base, VExc):
            if attr == "args":
                return k(st, VPy("excargs", base))
            raise Unsupported(f"exception attribute {attr}")
        if isinstance(base, VAny):
            hk = self.reg.specfns.get("attr_opaque")
            if hk is not None:
                return hk(self, st, base, attr, k, where)
        if isinstance(base, VTuple):
            raise Unsupported(f"attribute {attr} of tuple ({where})")
        raise Unsupported(f"attribute {attr} of {base!r} ({where})")

    def get_dyn_attr(self, st, base: VRef, attr, k, where):
        """Dynamic attribute read: present -> value; else the class' __getattr__ decides."""
        has = self.has_dyn(st, base, attr)
        outs = []
        s1 = st.assume(has)
        outs += k(s1, self.read_field(s1, base, attr))
        s2 = st.assume(Not(has))
        fn = self.reg.specfns.get("class_defines_attr")
        if fn is not None:
            defines = fn(self, s2, base, attr).t
            if defines.s != "false":
                outs += k(s2.assume(defines), VNone)
            if defines.s != "true":
                outs += self.raise_(s2.assume(Not(defines)), "AttributeError", f"{attr} unset at {where}")
        else:
            outs += self.raise_(s2, "AttributeError", f"{attr} unset at {where}")
        return outs

    def inject_interference(self, st: State, obj: VRef, owner: str, field: str, force=False) -> State:
        spec = dict(self.reg.interference[(owner, field)])
        spec.update(getattr(self, "interference_kinds", {}).get((owner, field), {}))
        lock = self.read_field(st, obj, spec["lock"])
        if lock.t.s in st.held and not force:
            return st
        cur = self.read_field(st, obj, field)
        if spec["kind"] == "append":
            suffix = self.arbitrary(cur.t.sort, "rely_suffix")
            new = type(cur)(seq_concat(cur.t, suffix))
            # ghost bookkeeping of the interfering thread is applied by the spec's rely hook, if any
        elif spec["kind"] == "drop-prefix":
            n = self.arbitrary(INT, "rely_n")
            st = st.assume(And(Le(I(0), n), Le(n, seq_len(cur.t))))
            new = type(cur)(seq_extract(cur.t, n, Sub(seq_len(cur.t), n)))
            hk = self.reg.specfns.get(f"rely:{owner}.{field}")
            if hk is not None:
                st = hk(self, st, obj, cur, n)
        else:
            raise Unsupported("interference kind")
        return self.write_field(st, obj, field, new)

    def try_cls(self, name):
        try:
            return self.prog.cls(name)
        except KeyError:
            return None

    # ---- operators ------------------------------------------------------------------------------------
    def ev_BoolOp(self, st, e, k):
        is_and = isinstance(e.op, ast.And)

        def step(st2, idx):
            def got(st3, v):
                if idx == len(e.values) - 1:
                    return k(st3, v)
                t = self.truthy(st3, v)
                outs = []
                if is_and:
                    sa = st3.assume(Not(t))
                    if Not(t).s != "false":
                        outs += k(sa, v)                     # short-circuit: falsy value is the result
                    if t.s != "false":
                        outs += step(st3.assume(t), idx + 1)
                else:
                    if t.s != "false":
                        outs += k(st3.assume(t), v.inner if isinstance(v, VOpt) else v)
                    if Not(t).s != "false":
                        outs += step(st3.assume(Not(t)), idx + 1)
                return outs
            return self.ev(st2, e.values[idx], got)
        return step(st, 0)

    def ev_UnaryOp(self, st, e, k):
        def got(st2, v):
            if isinstance(e.op, ast.Not):
                return k(st2, VBool(Not(self.truthy(st2, v))))
            if isinstance(e.op, ast.USub):
                v2 = self.unwrap_strict(v)
                return k(st2, type(v2)(Neg(v2.t)))
            if isinstance(e.op, ast.Invert):
                v2 = self.unwrap_strict(v)
                return k(st2, VInt(Sub(Neg(v2.t), I(1))))
            raise Unsupported("unary op")
        return self.ev(st, e.operand, got)

    def unwrap_strict(self, v):
        if isinstance(v, VOpt) or v is VNone:
            raise Unsupported(f"arithmetic on Optional value {v!r}: declare a precondition or split")
        return v

    def ev_IfExp(self, st, e, k):
        def got(st2, c):
            t = self.truthy(st2, c)
            outs = []
            if t.s != "false":
                outs += self.ev(st2.assume(t), e.body, k)
            if t.s != "true":
                outs += self.ev(st2.assume(Not(t)), e.orelse, k)
            return outs
        return self.ev(st, e.test, got)

    def ev_Compare(self, st, e, k):
        def chain(st2, left, idx, acc):
            if idx == len(e.ops):
                return k(st2, VBool(And(*acc)))

            def got(st3, right):
                return self.compare(st3, e.ops[idx], left, right,
                                    lambda st4, t: chain(st4, right, idx + 1, acc + [t]), e)
            return self.ev(st2, e.comparators[idx], got)
        return self.ev(st, e.left, lambda st2, l: chain(st2, l, 0, []))

    def compare(self, st, op, a, b, k, node):
        if isinstance(op, (ast.Eq, ast.NotEq, ast.Is, ast.IsNot)):
            t = self.values_equal(st, a, b)
            return k(st, t if isinstance(op, (ast.Eq, ast.Is)) else Not(t))
        if isinstance(op, (ast.In, ast.NotIn)):
            if isinstance(self.unwrap(b), VStr) or isinstance(self.unwrap(a), VStr) and isinstance(self.unwrap(b), VStr):
                fn = self.reg.specfns.get("str_contains")
                if fn is None:
                    raise Unsupported("'in' on str")
                t = fn(self, st, self.unwrap(b), self.unwrap(a)).t
            else:
                if b is VNone or isinstance(b, VOpt):
                    return self.split_opt(st, b,
                                          lambda s: self.raise_(s, "TypeError", "in None"),
                                          lambda s, inner: self.compare(s, op, a, inner, k, node))
                t = self.contains(st, b, a)
            return k(st, t if isinstance(op, ast.In) else Not(t))
        # ordering: None operands raise TypeError
        for side in (a, b):
            if side is VNone or isinstance(side, VOpt):
                def some(s, inner, side=side):
                    aa = inner if side is a else a
                    bb = inner if side is b else b
                    return self.compare(s, op, aa, bb, k, node)
                return self.split_opt(st, side,
                                      lambda s: self.raise_(s, "TypeError", f"ordering with None at {ast.unparse(node)[:40]}"),
                                      some)
        if isinstance(a, VStr) and isinstance(b, VStr):
            fn = self.reg.specfns.get("str_less")
            if fn is None:
                raise Unsupported("ordering on str")
            lt = fn(self, st, a, b).t
            gt = fn(self, st, b, a).t
            eq = Eq(a.t, b.t)
            t = {ast.Lt: lt, ast.Gt: gt, ast.LtE: Or(lt, eq), ast.GtE: Or(gt, eq)}[type(op)]
            return k(st, t)
        f = {ast.Lt: Lt, ast.LtE: Le, ast.Gt: Gt, ast.GtE: Ge}[type(op)]
        return k(st, f(self.num(a), self.num(b)))

    def ev_BinOp(self, st, e, k):
        return self.ev(st, e.left, lambda s2, a: self.ev(
            s2, e.right, lambda s3, b: self.binop(s3, e.op, a, b, k, e)))

    def binop(self, st, op, a, b, k, node=None):
        where = ast.unparse(node)[:50] if node is not None else ""
        for side in (a, b):
            if side is VNone or isinstance(side, VOpt):
                def some(s, inner, side=side):
                    return self.binop(s, op, inner if side is a else a, inner if side is b else b, k, node)
                return self.split_opt(st, side,
                                      lambda s: self.raise_(s, "TypeError", f"operand None at {where}"), some)
        # bytes repetition: n * b"\0"
        if isinstance(op, ast.Mult) and ((isinstance(a, VInt) and isinstance(b, VBytes)) or
                                         (isinstance(a, VBytes) and isinstance(b, VInt))):
            n, s = (a, b) if isinstance(a, VInt) else (b, a)
            fn = self.reg.specfns.get("bytes_repeat")
            if fn is None:
                raise Unsupported("bytes repetition")
            return k(st, fn(self, st, s, n))
        if isinstance(op, ast.BitOr) and isinstance(a, (VInt, VBool)) and isinstance(b, (VInt, VBool)):
            return self.lower_or(st, a, b, k, node)
        if isinstance(op, (ast.BitAnd, ast.BitOr)) and isinstance(a, VSet) and isinstance(b, VSet):
            from .models import set_binop
            s2, ns = set_binop(self, st, op, a, b)
            return k(s2, ns)
        if isinstance(op, ast.Add) and isinstance(a, VStr) and isinstance(b, VStr):
            fn = self.reg.specfns.get("str_concat")
            if fn is None:
                raise Unsupported("str +")
            return k(st, fn(self, st, a, b))
        if isinstance(op, ast.Add) and isinstance(a, VList) and isinstance(b, (VList, VSeq)):
            # list + list allocates a new list
            ta, ka = self.as_seq(st, a)
            tb, kb = self.as_seq(st, b)
            if getattr(b, "static_items", None) == [] and elem_sort(kb) != elem_sort(ka):
                tb, kb = seq_empty(f"(Seq {elem_sort(ka)})"), ka  # an empty list literal takes the other side's kind
            elif getattr(a, "static_items", None) == [] and elem_sort(kb) != elem_sort(ka):
                ta, ka = seq_empty(f"(Seq {elem_sort(kb)})"), kb
            if elem_sort(ka) != elem_sort(kb):
                raise Unsupported(f"list + list with different element kinds ({ka!r} vs {kb!r}): a kind hint does not fit this code")
            s2, nl = self.new_list(st, ka, seq_concat(ta, tb))
            return k(s2, nl)
        if isinstance(op, (ast.Div,)):
            if isinstance(a, (VInt, VFloat)) and isinstance(b, (VInt, VFloat)):
                y = self.num(b)
                outs = []
                z = Eq(y, I(0)) if y.sort == INT else Eq(y, T("0.0", REAL))
                if z.s != "false":
                    outs += self.raise_(st.assume(z), "ZeroDivisionError", where)
                from .smt import to_real, app
                outs += k(st.assume(Not(z)), VFloat(app("/", REAL, to_real(self.num(a)), to_real(y))))
                return outs
        if isinstance(op, (ast.FloorDiv, ast.Mod)) and isinstance(a, VInt) and isinstance(b, VInt) and not is_lit(b.t):
            raise Unsupported(f"// or % by a non-literal at {where}")
        try:
            return k(st, self.pure_binop(st, op, a, b))
        except Unsupported as u:
            raise Unsupported(f"{u} at {where}")

    def lower_or(self, st, a, b, k, node):
        """x | y on ints.  Rules (each valid for all python ints under its side condition):
        literal single bit m: x | m = x + m*(1 - bit(x));  (e << c) | y with 0 <= y < 2^c = e*2^c + y."""
        x, y = self.num(a), self.num(b)
        where = ast.unparse(node)[:50] if node is not None else "|"
        if is_lit(x) and is_lit(y):
            return k(st, VInt(I(lit_val(x) | lit_val(y))))
        for p, q in ((x, y), (y, x)):
            if is_lit(q):
                m = lit_val(q)
                if m == 0:
                    return k(st, VInt(p))
                if m > 0 and (m & (m - 1)) == 0:
                    j = m.bit_length() - 1
                    bit = Mod(FloorDiv(p, I(2 ** j)), I(2))
                    return k(st, VInt(Add(p, Mul(I(m), Sub(I(1), bit)))))
        # shifted-left operand: find c from the syntax
        if node is not None:
            for shifted, other, sv, ov in ((node.left, node.right, x, y), (node.right, node.left, y, x)):
                c = self._shift_amount(shifted)
                if c is not None:
                    side = And(Le(I(0), ov), Lt(ov, I(2 ** c)))
                    st2 = self.oblige(st, side, "lowering", "bitor-disjoint", meta={"where": where})
                    return k(st2, VInt(Add(sv, ov)))
        raise Unsupported(f"bit-or without a lowering rule: {where}")

    @staticmethod
    def _shift_amount(n):
        if isinstance(n, ast.BinOp) and isinstance(n.op, ast.LShift) and isinstance(n.right, ast.Constant) \
                and isinstance(n.right.value, int):
            return n.right.value
        return None

    # ---- displays -----------------------------------------------------------------------------------
    def ev_Tuple(self, st, e, k):
        return self.ev_list(st, e.elts, lambda s2, vs: k(s2, VTuple(vs)))

    def ev_List(self, st, e, k):
        def got(s2, vs):
            ek = self.hint_elem_kind(e, vs)
            items = seq_concat(*[seq_unit(self.comp1(v, ek)) for v in vs]) if vs else seq_empty(f"(Seq {elem_sort(ek)})")
            s3, lst = self.new_list(s2, ek, items)
            lst.static_items = list(vs)
            lst.static_heap = s3.heap[self._seq_key(ek, "list")[0]]
            return k(s3, lst)
        return self.ev_list(st, e.elts, got)

    def comp1(self, v: Value, ek: Kind) -> T:
        if isinstance(ek, KPrim) and ek.name.startswith("Any") and (v is VNone or isinstance(v, VOpt)):
            # None among opaque values: a distinguished token (as for list.append)
            nt = self.decls.const("none$token", INT)
            if v is VNone:
                return nt
            if hasattr(v.inner, "t") and v.inner.t.sort == INT:
                return Ite(v.isnone, nt, v.inner.t)
        c = to_comps(v, ek, lambda so: self.arbitrary(so))
        assert len(c) == 1
        return c[0]

    def hint_elem_kind(self, node, vs):
        hint = self.kind_hints.get((self.cur_func_name, getattr(node, "lineno", None))) or \
            (self.kind_hints.get((self.cur_func_name, "[]")) if not vs else None) or \
            (self.kind_hints.get((self.cur_func_name, "[1]")) if len(vs) == 1 else None)
        if hint:
            return parse_kind(hint).elem
        if vs:
            return vs[0].kind
        return K_ANY

    def ev_Dict(self, st, e, k):
        if e.keys:
            if all(isinstance(x, ast.Constant) and isinstance(x.value, str) for x in e.keys):
                keys = [x.value for x in e.keys]
                return self.ev_list(st, e.values, lambda s2, vs: k(s2, VPy("litdict", list(zip(keys, vs)))))
            # computed keys: a new dictionary of the kinds of the first entry, filled in display order (later duplicates win)
            n_ = len(e.keys)
            if any(k_ is None for k_ in e.keys):
                raise Unsupported("dict display with ** unpacking")

            def filled(s2, vs):
                ks, vals = vs[:n_], vs[n_:]
                kk, vk = self.unwrap(ks[0]).kind, vals[0].kind
                s3, d = self.new_dict(s2, kk, vk)
                for k_, v_ in zip(ks, vals):
                    if repr(self.unwrap(k_).kind) != repr(kk):
                        raise Unsupported("dict display with keys of different kinds")
                    s3 = self.dict_set(s3, d, self.key_term(k_, kk), self.coerce(s3, v_, vk))
                return k(s3, d)
            return self.ev_list(st, list(e.keys) + list(e.values), filled)
        hint = self.kind_hints.get((self.cur_func_name, e.lineno)) or self.kind_hints.get((self.cur_func_name, "{}"))
        if not hint:
            raise Unsupported(f"dict display at line {e.lineno} of {self.cur_func_name} needs a kind hint")
        kd = parse_kind(hint)
        s2, d = self.new_dict(st, kd.k, kd.v)
        return k(s2, d)

    # ---- dict comprehensions {K(a): V(a) for a in xs} ----------------------------------------------------------
    _DICT_READERS = {"get", "keys", "values", "items"}

    def _dictcomp_target(self, st, e):
        """Name of the local the comprehension is assigned to, if that local is provably never mutated nor aliased in
        the enclosing function (only `x in N`, `N[x]` loads and read-only methods): then 'every entry stems from an
        element of xs' stays true for the whole function."""
        fn = st.frame.func.node if st.frame is not None and st.frame.func is not None else None
        if fn is None:
            return None
        name = None
        for n in ast.walk(fn):
            if isinstance(n, ast.Assign) and n.value is e and len(n.targets) == 1 and isinstance(n.targets[0], ast.Name):
                name = n.targets[0].id
            if isinstance(n, ast.AnnAssign) and n.value is e and isinstance(n.target, ast.Name):
                name = n.target.id
        if name is None:
            return None
        parents = {}
        for n in ast.walk(fn):
            for c in ast.iter_child_nodes(n):
                parents[c] = n
        binds = 0
        for n in ast.walk(fn):
            if not (isinstance(n, ast.Name) and n.id == name):
                continue
            par = parents.get(n)
            if isinstance(n.ctx, ast.Store):
                binds += 1
                continue
            if isinstance(n.ctx, ast.Del):
                return None
            if isinstance(par, ast.Subscript) and par.value is n and isinstance(par.ctx, ast.Load):
                continue
            if isinstance(par, ast.Compare) and n in par.comparators and \
                    all(isinstance(o, (ast.In, ast.NotIn)) for o in par.ops):
                continue
            if isinstance(par, ast.Attribute) and par.value is n and par.attr in self._DICT_READERS \
                    and isinstance(parents.get(par), ast.Call) and parents[par].func is par:
                continue
            return None
        return name if binds == 1 else None

    def pure_eval(self, st, expr, extra):
        """Evaluate a side-effect-free expression with extra locals -> (value, facts added to the path condition);
        anything that forks, raises or writes the heap is refused."""
        s0 = st.copy()
        s0.locals = dict(st.locals)
        s0.locals.update(extra)
        n0 = len(s0.pc)
        got = []

        def kk(s2, v):
            got.append((s2, v))
            return []
        outs = self.ev(s0, expr, kk)
        if outs or len(got) != 1:
            raise Unsupported(f"comprehension element expression is not pure/total: {ast.unparse(expr)[:60]}")
        s2, v = got[0]
        if s2.alloc.s != st.alloc.s or any(s2.heap.get(k_) is not t for k_, t in st.heap.items()):
            raise Unsupported("comprehension element expression writes the heap")
        return v, list(s2.pc[n0:])

    def ev_DictComp(self, st, e, k):
        if len(e.generators) != 1 or e.generators[0].ifs or e.generators[0].is_async \
                or not isinstance(e.generators[0].target, ast.Name):
            raise Unsupported("dict comprehension form")
        g = e.generators[0]

        def got_iter(s2, it):
            t, ek = self.as_seq(s2, self.unwrap(it))
            x = self.elem_value(s2, self.arbitrary(elem_sort(ek), "dc_el"), ek)
            kv, _ = self.pure_eval(s2, e.key, {g.target.id: x})
            vv, _ = self.pure_eval(s2, e.value, {g.target.id: x})
            s3, d = self.new_dict(s2, kv.kind, vv.kind)
            # the content is characterised at look-ups (see dictcomp_facts); until then it is arbitrary
            s3 = self._havoc_item(s3, ("dict", d, None, None))
            if self._dictcomp_target(s2, e) is not None:
                self.__dict__.setdefault("dictcomp_prov", {})[d.t.s] = (e, s2, t, ek)
            return k(s3, d)
        return self.ev(st, g.iter, got_iter)

    def dictcomp_facts(self, st, d, key_t, val):
        """d = {K(a): V(a) for a in xs}, d never mutated: an entry d[k] = v stems from some element a of xs with
        K(a) = k and V(a) = v (K, V evaluated in the state the comprehension ran in)."""
        prov = self.__dict__.get("dictcomp_prov", {}).get(d.t.s)
        if prov is None:
            return
        e, s0, t, ek = prov
        i = self.arbitrary(INT, "dc_ix")
        a = self.elem_value(s0, seq_nth(t, i), ek)
        tgt = e.generators[0].target.id
        kv, f1 = self.pure_eval(s0, e.key, {tgt: a})
        vv, f2 = self.pure_eval(s0, e.value, {tgt: a})
        st.pc.append(And(Le(I(0), i), Lt(i, seq_len(t))))
        st.pc.extend(f1 + f2)
        st.pc.append(Eq(self.key_term(kv, d.k), key_t))
        st.pc.append(self.values_equal(st, vv, val))

    def ev_JoinedStr(self, st, e, k):
        """f-strings: an injective tuple constructor of their pieces (T-fmt) when plain; an opaque
        string when format specs / conversions are used (the pieces are still evaluated)."""
        parts = []
        exprs = []
        opaque = False
        for v in e.values:
            if isinstance(v, ast.Constant):
                parts.append(("lit", v.value))
            else:
                if v.format_spec is not None or v.conversion not in (-1,):
                    opaque = True
                parts.append(("expr", len(exprs)))
                exprs.append(v.value)
        fn = self.reg.specfns.get("fstring")

        def done(s2, vs):
            if opaque or fn is None:
                return k(s2, VStr(self.arbitrary(STR, "fstr")))
            return k(s2, fn(self, s2, parts, vs))
        return self.ev_list(st, exprs, done)

    def ev_NamedExpr(self, st, e, k):
        def got(s2, v):
            s3 = s2.copy()
            s3.locals[e.target.id] = v
            return k(s3, v)
        return self.ev(st, e.value, got)

    def ev_Lambda(self, st, e, k):
        return k(st, VPy("lambda", e, dict(st.locals)))

    def ev_Subscript(self, st, e, k):
        def got_base(s2, base):
            if isinstance(e.slice, ast.Slice):
                bounds = [x for x in (e.slice.lower, e.slice.upper) if x is not None]
                if e.slice.step is not None:
                    raise Unsupported("slice step")

                def got_bounds(s3, vs):
                    vs = list(vs)
                    lo = self.num(self.unwrap_strict(vs.pop(0))) if e.slice.lower is not None else None
                    hi = self.num(self.unwrap_strict(vs.pop(0))) if e.slice.upper is not None else None
                    return self.do_slice(s3, base, lo, hi, k, e)
                return self.ev_list(s2, bounds, got_bounds)
            return self.ev(s2, e.slice, lambda s3, idx: self.do_index(s3, base, idx, k, e))
        return self.ev(st, e.value, got_base)

    def do_slice(self, st, base, lo, hi, k, node):
        if base is VNone or isinstance(base, VOpt):
            return self.split_opt(st, base,
                                  lambda s: self.raise_(s, "TypeError", f"None[:] at {ast.unparse(node)[:40]}"),
                                  lambda s, inner: self.do_slice(s, inner, lo, hi, k, node))
        if isinstance(base, VStr):
            fn = self.reg.specfns.get("str_slice")
            if fn is None:
                raise Unsupported("str slicing")
            return k(st, fn(self, st, base, lo, hi))
        t, ek = self.as_seq(st, base)
        r = self.slice_term(t, lo, hi)
        if isinstance(base, VBytes):
            return k(st, VBytes(r))
        if isinstance(base, VList):
            s2, nl = self.new_list(st, ek, r)
            return k(s2, nl)
        return k(st, VSeq(r, ek))

    def do_index(self, st, base, idx, k, node):
        where = ast.unparse(node)[:50]
        if base is VNone or isinstance(base, VOpt):
            return self.split_opt(st, base,
                                  lambda s: self.raise_(s, "TypeError", f"None[...] at {where}"),
                                  lambda s, inner: self.do_index(s, inner, idx, k, node))
        if isinstance(base, VTuple):
            idx = self.unwrap_strict(idx)
            if not (isinstance(idx, VInt) and is_lit(idx.t)):
                raise Unsupported(f"non-literal tuple index at {where}")
            i = lit_val(idx.t)
            if not -len(base.items) <= i < len(base.items):
                return self.raise_(st, "IndexError", where)
            return k(st, base.items[i])
        if isinstance(base, VDict):
            kt = self.key_term(idx, base.k)
            has = self.dict_has(st, base, kt)
            outs = []
            if Not(has).s != "false":
                outs += self.raise_(st.assume(Not(has)), "KeyError", where)
            s2 = st.assume(has)
            got = self.dict_get(s2, base, kt)
            self.dictcomp_facts(s2, base, kt, got)
            outs += k(s2, got)
            return outs
        if isinstance(base, VRef) and isinstance(idx, VStr) and idx.lit is not None \
                and self.field_decl(base.cls, idx.lit) is not None:
            return k(st, self.read_field(st, base, idx.lit))
        if isinstance(base, VPy) and base.what == "excargs":
            return k(st, VAny(self.arbitrary(INT, "excarg")))
        if isinstance(base, (VBytes, VList, VDeque, VSeq)):
            t, ek = self.as_seq(st, base)
            i = self.num(self.unwrap_strict(idx))
            n = seq_len(t)
            inb = And(Le(Neg(n), i), Lt(i, n))
            outs = []
            if Not(inb).s != "false":
                outs += self.raise_(st.assume(Not(inb)), "IndexError", where)
            s2 = st.assume(inb)
            ii = i if (is_lit(i) and lit_val(i) >= 0) else Ite(Lt(i, I(0)), Add(n, i), i)
            v = self.elem_value(s2, seq_nth(t, ii), ek)
            self.add_ref_facts(s2, v)
            if isinstance(base, VBytes):
                s2.pc.append(And(Le(I(0), v.t), Lt(v.t, I(256))))
            outs += k(s2, v)
            return outs
        if isinstance(base, VPy) and base.what == "structresult":
            # struct.unpack(...)[0]
            idx = self.unwrap_strict(idx)
            if isinstance(idx, VInt) and is_lit(idx.t) and lit_val(idx.t) == 0:
                return k(st, base.obj)
        if isinstance(base, VPy) and base.what == "constdict":
            # subscript of a module-level constant table (e.g. VENDORS[x]): the key may be missing -> KeyError;
            # otherwise an opaque value.  (A literal key that is present in the table's display never raises.)
            present = None
            try:
                import ast as _ast
                d = base.obj
                if isinstance(d, _ast.Dict) and isinstance(idx, (VInt, VStr)):
                    lit = lit_val(idx.t) if isinstance(idx, VInt) and is_lit(idx.t) else getattr(idx, "lit", None)
                    keys = [k_.value for k_ in d.keys if isinstance(k_, _ast.Constant)]
                    if lit is not None and len(keys) == len(d.keys):
                        present = lit in keys
            except Exception:
                present = None
            outs = []
            if present is not True:
                miss = self.arbitrary(BOOL, "tbl_missing") if present is None else TRUE
                outs += self.raise_(st.assume(miss), "KeyError", where)
                if present is False:
                    return outs
                st = st.assume(Not(miss))
            outs += k(st, VAny(self.arbitrary(INT, "tbl_val")))
            return outs
        if isinstance(base, VAny) and "subscript_opaque" in self.reg.specfns:
            return self.reg.specfns["subscript_opaque"](self, st, base, idx, k, where)
        raise Unsupported(f"subscript of {base!r} at {where}")

    def ev_ListComp(self, st, e, k):
        fn = getattr(self, "listcomp", None)
        if fn is None:
            raise Unsupported("list comprehension")
        return fn(st, e, k)

    def ev_GeneratorExp(self, st, e, k):
        # only consumed by models that know how (str.join): the expression itself is kept
        if len(e.generators) != 1 or e.generators[0].ifs or e.generators[0].is_async:
            raise Unsupported("generator expression")
        return self.ev(st, e.generators[0].iter, lambda s2, it: k(s2, VPy("genexp", e, it)))

    def ev_Call(self, st, e, k):
        return self.eval_call(st, e, k)
