"""Discharging obligations with the solver portfolio, in parallel."""
from __future__ import annotations

import multiprocessing as mp
import os
import re
import time

from .smt import solve, parse_model, Decls
from .state import Obligation

_TOKEN = re.compile(r"[^\s()]+")


def smt_text(decls: Decls, ob: Obligation, negate=True) -> str:
    body = []
    for t in ob.pc:
        body.append(f"(assert {t.s})")
    if negate:
        body.append(f"(assert (not {ob.goal.s}))")
    text = "\n".join(body)
    used = set(_TOKEN.findall(text))
    out = ["(set-logic ALL)", "(declare-sort Str 0)"]
    out += list(decls.sorts.values())
    for name, d in decls.funs.items():
        if name in used:
            out.append(d)
    lits = [t.s for t in decls.str_lits.values() if t.s in used]
    if len(lits) > 1:
        out.append("(assert (distinct " + " ".join(lits) + "))")
    out.append(text)
    return "\n".join(out)


def _work(job):
    idx, text, expect, budget, want = job
    r = solve(text, expect, budget, want_model_for=want)
    return idx, r


def discharge(func_results, budget=60, jobs=None, covers=True, model_terms=None, progress=None):
    """Solve every obligation (expect unsat) and cover check (expect sat) of the given functions."""
    jobs = jobs or min(16, os.cpu_count() or 4)
    work = []
    index = []
    for fr in func_results:
        names = [n for n in fr.decls.funs if n.startswith("p_") or n.startswith("g_")]
        # only 0-ary constants can be asked for
        names = [n for n in names if "() " in fr.decls.funs[n]]
        for ob in fr.obligations:
            if ob.result is not None:
                continue
            text = smt_text(fr.decls, ob)
            used = set(_TOKEN.findall(text))
            want = [n for n in names if n in used][:40]
            work.append((len(index), text, "unsat", budget, want))
            index.append(ob)
        if covers:
            for ob in fr.covers:
                text = smt_text(fr.decls, ob, negate=False)
                work.append((len(index), text, "sat", min(budget, 20), None))
                index.append(ob)
    t0 = time.time()
    if work:
        with mp.Pool(jobs) as pool:
            for idx, r in pool.imap_unordered(_work, work, chunksize=1):
                index[idx].result = r
                if progress:
                    progress(index[idx])
    return time.time() - t0
