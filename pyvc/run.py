"""Discharging obligations with the solver portfolio, in parallel."""
from __future__ import annotations

import multiprocessing as mp
import os
import re
import time

from .smt import solve, solve_excluding, parse_model, Decls
from .state import Obligation

_TOKEN = re.compile(r"[^\s()]+")


def smt_text(decls: Decls, ob: Obligation, negate=True, observe=None) -> str:
    body = []
    for i, (path, t, kn) in enumerate(observe or []):
        body.append(f"(define-fun obs!{i} () {t.sort} {t.s})")
    for t in ob.pc:
        body.append(f"(assert {t.s})")
    if negate:
        body.append(f"(assert (not {ob.goal.s}))")
    text = "\n".join(body)
    used = set(_TOKEN.findall(text))
    out = ["(set-logic ALL)", "(declare-sort Str 0)"]
    out += list(decls.sorts.values())
    for name, d in decls.funs.items():
        if name in used:
            out.append(d)
    for ax in getattr(decls, "axioms", []):
        toks = set(_TOKEN.findall(ax))
        if all((t not in decls.funs) or (t in used) for t in toks):
            out.append(f"(assert {ax})")
    lits = [t.s for t in decls.str_lits.values() if t.s in used]
    if len(lits) > 1:
        out.append("(assert (distinct " + " ".join(lits) + "))")
    out.append(text)
    return "\n".join(out)


def _work(job):
    idx, text, expect, budget, want = job[:5]
    refine = job[5] if len(job) > 5 else None
    r = solve(text, expect, budget, want_model_for=want)
    if r["result"] == "sat" and expect == "unsat" and refine:
        # refine with the concrete word layouts (true facts): either a better model or a proof
        r2 = solve(text + "\n" + refine, expect, budget, want_model_for=want)
        if r2["result"] in ("sat", "unsat"):
            r2["seconds"] += r["seconds"]
            r2["refined"] = True
            if r2["result"] == "unsat":
                r2["solver"] = str(r2["solver"]) + "+layout"
            r = r2
    if r["result"] == "sat" and want and "(" not in r.get("raw", "sat\n")[3:].strip()[:1]:
        pass
    return idx, r


def _chains(obligations, max_len=16):
    """Consecutive obligations of one path where each one assumes the previous goals form a chain:
    pc[k+1] == pc[k] + [goal[k]].  A chain is first tried as ONE query (pc[0] and not(all goals))."""
    chains, cur = [], []
    for ob in obligations:
        if ob.result is not None:
            continue
        if cur and len(cur) < max_len and len(ob.pc) == len(cur[-1].pc) + 1 and ob.pc[-1] is cur[-1].goal \
                or (cur and len(cur) < max_len and len(ob.pc) == len(cur[-1].pc) + 1 and ob.pc[-1].s == cur[-1].goal.s
                    and (len(ob.pc) < 2 or ob.pc[-2] is cur[-1].pc[-1] if cur[-1].pc else True)):
            cur.append(ob)
        else:
            if cur:
                chains.append(cur)
            cur = [ob]
    if cur:
        chains.append(cur)
    return chains


_G = {"results": None, "budget": 60}
_RF_CACHE = {}


def _refine_text(fi, used):
    fr = _G["results"][fi]
    if fi not in _RF_CACHE:
        _RF_CACHE[fi] = [(t.s, set(_TOKEN.findall(t.s))) for t in getattr(fr, "refine_facts", [])]
    out = []
    funs = fr.decls.funs
    for txt, toks in _RF_CACHE[fi]:
        if all((tok not in funs) or (tok in used) for tok in toks):
            out.append(f"(assert {txt})")
    return "\n".join(out)


def _work_chain(job):
    """job: (function index, [obligation indices within fr.obligations], [global indices]) - texts are built
    here, in the worker (the function results are inherited through fork)"""
    from .smt import And
    fi, obidx, gidx = job
    fr = _G["results"][fi]
    budget = _G["budget"]
    obs = list(getattr(fr, "observe", []) or [])[:120]
    want = [f"obs!{i}" for i in range(len(obs))]
    chain = [fr.obligations[i] for i in obidx]
    if len(chain) > 1:
        comb = Obligation(chain[0].func, "chain", "chain", chain[0].pc, And(*[ob.goal for ob in chain]))
        r = solve(smt_text(fr.decls, comb), "unsat", budget)
        if r["result"] == "unsat":
            out = []
            for g in gidx:
                rr = dict(r)
                rr["seconds"] = r["seconds"] / len(gidx)
                rr["grouped"] = len(gidx)
                out.append((g, rr))
            return out
    out = []
    for ob, g in zip(chain, gidx):
        text = smt_text(fr.decls, ob, observe=obs)
        r = solve(text, "unsat", budget, want_model_for=want)
        if r["result"] == "sat":
            rf = _refine_text(fi, set(_TOKEN.findall(text)))
            if rf:
                r2 = solve(text + "\n" + rf, "unsat", budget, want_model_for=want)
                if r2["result"] in ("sat", "unsat"):
                    r2["seconds"] += r["seconds"]
                    r2["refined"] = True
                    if r2["result"] == "unsat":
                        r2["solver"] = str(r2["solver"]) + "+layout"
                    r = r2
        out.append((g, r))
    return out


def _work_cover(job):
    fi, ci, g = job
    fr = _G["results"][fi]
    ob = fr.covers[ci]
    r = solve(smt_text(fr.decls, ob, negate=False), "sat", min(_G["budget"], 20))
    return g, r


def discharge(func_results, budget=60, jobs=None, covers=True, model_terms=None, progress=None):
    """Solve every obligation (expect unsat) and cover check (expect sat) of the given functions."""
    jobs = jobs or min(16, os.cpu_count() or 4)
    _G["results"] = func_results
    _G["budget"] = budget
    _RF_CACHE.clear()
    chain_jobs, cover_jobs, index = [], [], []
    for fi, fr in enumerate(func_results):
        obs = list(getattr(fr, "observe", []) or [])[:120]
        pos = {id(ob): i for i, ob in enumerate(fr.obligations)}
        for chain in _chains(fr.obligations):
            gidx = []
            for ob in chain:
                ob.meta["observe_paths"] = [(p, kn) for p, t, kn in obs]
                gidx.append(len(index))
                index.append(ob)
            chain_jobs.append((fi, [pos[id(ob)] for ob in chain], gidx))
        if covers:
            for ci, ob in enumerate(fr.covers):
                cover_jobs.append((fi, ci, len(index)))
                index.append(ob)
    t0 = time.time()
    if chain_jobs or cover_jobs:
        with mp.Pool(jobs) as pool:          # fork: workers inherit _G
            for res in pool.imap_unordered(_work_chain, chain_jobs, chunksize=1):
                for idx, r in res:
                    index[idx].result = r
            for idx, r in pool.imap_unordered(_work_cover, cover_jobs, chunksize=4):
                index[idx].result = r
    return time.time() - t0


def _work_cross(job):
    fi, oi = job
    fr = _G["results"][fi]
    ob = fr.obligations[oi]
    text = smt_text(fr.decls, ob)
    if "+layout" in str(ob.result.get("solver")):
        rf = _refine_text(fi, set(_TOKEN.findall(text)))
        text = text + "\n" + rf
    return fi, oi, solve_excluding(text, ob.result.get("solver"), _G["xbudget"])


def cross_check(func_results, budget=30, jobs=None):
    """thorough tier: every obligation answered `unsat` is put to the other solvers of the portfolio as well.
    -> dict(confirmed, unconfirmed, disagreements=[obligation ids])"""
    jobs = jobs or min(16, os.cpu_count() or 4)
    _G["results"] = func_results
    _G["xbudget"] = budget
    todo = []
    for fi, fr in enumerate(func_results):
        for oi, ob in enumerate(fr.obligations):
            if ob.result and ob.result.get("result") == "unsat" and ob.result.get("solver") not in (None, "trivial"):
                todo.append((fi, oi))
    out = dict(asked=len(todo), confirmed=0, unconfirmed=0, disagreements=[], by_solver={})
    if not todo:
        return out
    with mp.Pool(jobs) as pool:
        for fi, oi, r in pool.imap_unordered(_work_cross, todo, chunksize=4):
            ob = func_results[fi].obligations[oi]
            ob.result["second_opinion"] = r
            if r["result"] == "unsat":
                out["confirmed"] += 1
                out["by_solver"][r["solver"]] = out["by_solver"].get(r["solver"], 0) + 1
            elif r["result"] == "sat":
                out["disagreements"].append(ob.coarse_id)
            else:
                out["unconfirmed"] += 1
    return out
