"""Discharging obligations with the solver portfolio, in parallel."""
from __future__ import annotations

import multiprocessing as mp
import os
import re
import time

from .smt import solve, parse_model, Decls
from .state import Obligation

_TOKEN = re.compile(r"[^\s()]+")


def smt_text(decls: Decls, ob: Obligation, negate=True, observe=None) -> str:
    body = []
    for i, (path, t, kn) in enumerate(observe or []):
        body.append(f"(define-fun obs!{i} () {t.sort} {t.s})")
    for t in ob.pc:
        body.append(f"(assert {t.s})")
    if negate:
        body.append(f"(assert (not {ob.goal.s}))")
    text = "\n".join(body)
    used = set(_TOKEN.findall(text))
    out = ["(set-logic ALL)", "(declare-sort Str 0)"]
    out += list(decls.sorts.values())
    for name, d in decls.funs.items():
        if name in used:
            out.append(d)
    for ax in getattr(decls, "axioms", []):
        toks = set(_TOKEN.findall(ax))
        if all((t not in decls.funs) or (t in used) for t in toks):
            out.append(f"(assert {ax})")
    lits = [t.s for t in decls.str_lits.values() if t.s in used]
    if len(lits) > 1:
        out.append("(assert (distinct " + " ".join(lits) + "))")
    out.append(text)
    return "\n".join(out)


def _work(job):
    idx, text, expect, budget, want = job[:5]
    refine = job[5] if len(job) > 5 else None
    r = solve(text, expect, budget, want_model_for=want)
    if r["result"] == "sat" and expect == "unsat" and refine:
        # refine with the concrete word layouts (true facts): either a better model or a proof
        r2 = solve(text + "\n" + refine, expect, budget, want_model_for=want)
        if r2["result"] in ("sat", "unsat"):
            r2["seconds"] += r["seconds"]
            r2["refined"] = True
            if r2["result"] == "unsat":
                r2["solver"] = str(r2["solver"]) + "+layout"
            r = r2
    if r["result"] == "sat" and want and "(" not in r.get("raw", "sat\n")[3:].strip()[:1]:
        pass
    return idx, r


def discharge(func_results, budget=60, jobs=None, covers=True, model_terms=None, progress=None):
    """Solve every obligation (expect unsat) and cover check (expect sat) of the given functions."""
    jobs = jobs or min(16, os.cpu_count() or 4)
    work = []
    index = []
    for fr in func_results:
        obs = list(getattr(fr, "observe", []) or [])[:120]
        for ob in fr.obligations:
            if ob.result is not None:
                continue
            text = smt_text(fr.decls, ob, observe=obs)
            want = [f"obs!{i}" for i in range(len(obs))]
            ob.meta["observe_paths"] = [(p, kn) for p, t, kn in obs]
            used = set(_TOKEN.findall(text))
            rf = "\n".join(f"(assert {t.s})" for t in getattr(fr, "refine_facts", [])
                           if set(_TOKEN.findall(t.s)) & used and all(
                               tok in used or tok in fr.decls.funs and False or not tok.endswith("!0") or True
                               for tok in ()))
            rf_ok = []
            for t in getattr(fr, "refine_facts", []):
                toks = set(_TOKEN.findall(t.s))
                if all((tok not in fr.decls.funs) or (tok in used) for tok in toks):
                    rf_ok.append(f"(assert {t.s})")
            work.append((len(index), text, "unsat", budget, want, "\n".join(rf_ok)))
            index.append(ob)
        if covers:
            for ob in fr.covers:
                text = smt_text(fr.decls, ob, negate=False)
                work.append((len(index), text, "sat", min(budget, 20), None))
                index.append(ob)
    t0 = time.time()
    if work:
        with mp.Pool(jobs) as pool:
            for idx, r in pool.imap_unordered(_work, work, chunksize=1):
                index[idx].result = r
                if progress:
                    progress(index[idx])
    return time.time() - t0
