"""SMT-LIB term layer and solver portfolio for pyvc.

Terms are immutable (sort, text) pairs; everything is emitted as SMT-LIB2 text with
(set-logic ALL) and handed to the solver CLIs.  No solver bindings are used and no solver
is ever started without a hard wall-clock limit.
"""
from __future__ import annotations

import hashlib
import os
import re
import subprocess
import tempfile
import time

INT = "Int"
BOOL = "Bool"
REAL = "Real"
BYTES = "(Seq Int)"
SEQI = "(Seq Int)"
STR = "Str"          # uninterpreted sort: python str values (equality + a few total functions)


def arr(k, v):
    return f"(Array {k} {v})"


class T:
    """An SMT term."""
    __slots__ = ("s", "sort")

    def __init__(self, s: str, sort: str):
        self.s = s
        self.sort = sort

    def __repr__(self):
        return f"<{self.sort}:{self.s}>"

    def __eq__(self, other):
        return isinstance(other, T) and self.s == other.s and self.sort == other.sort

    def __hash__(self):
        return hash((self.s, self.sort))


TRUE = T("true", BOOL)
FALSE = T("false", BOOL)


def I(n: int) -> T:
    if n < 0:
        return T(f"(- {-n})", INT)
    return T(str(n), INT)


def R(x) -> T:
    if isinstance(x, int):
        return T(f"{x}.0" if x >= 0 else f"(- {-x}.0)", REAL)
    raise ValueError(x)


def is_lit(t: T):
    return t.sort == INT and (t.s.isdigit() or (t.s.startswith("(- ") and t.s[3:-1].isdigit()))


def lit_val(t: T) -> int:
    if t.s.isdigit():
        return int(t.s)
    return -int(t.s[3:-1])


def app(op: str, sort: str, *args: T) -> T:
    return T("(" + op + " " + " ".join(a.s for a in args) + ")", sort)


def And(*ts: T) -> T:
    xs = []
    for t in ts:
        if t.s == "true":
            continue
        if t.s == "false":
            return FALSE
        xs.append(t)
    if not xs:
        return TRUE
    if len(xs) == 1:
        return xs[0]
    return app("and", BOOL, *xs)


def Or(*ts: T) -> T:
    xs = []
    for t in ts:
        if t.s == "false":
            continue
        if t.s == "true":
            return TRUE
        xs.append(t)
    if not xs:
        return FALSE
    if len(xs) == 1:
        return xs[0]
    return app("or", BOOL, *xs)


def Not(t: T) -> T:
    if t.s == "true":
        return FALSE
    if t.s == "false":
        return TRUE
    if t.s.startswith("(not ") and t.s.count("(") - t.s.count(")") == 0:
        # strip double negation only for the simple outermost shape
        inner = t.s[5:-1]
        if inner.count("(") == inner.count(")"):
            depth = 0
            ok = True
            for ch in inner:
                if ch == "(":
                    depth += 1
                elif ch == ")":
                    depth -= 1
                    if depth < 0:
                        ok = False
                        break
            if ok:
                return T(inner, BOOL)
    return app("not", BOOL, t)


def Implies(a: T, b: T) -> T:
    if a.s == "true":
        return b
    if a.s == "false" or b.s == "true":
        return TRUE
    return app("=>", BOOL, a, b)


def Eq(a: T, b: T) -> T:
    assert a.sort == b.sort, (a, b)
    if a.s == b.s:
        return TRUE
    if is_lit(a) and is_lit(b):
        return TRUE if lit_val(a) == lit_val(b) else FALSE
    return app("=", BOOL, a, b)


def Ne(a, b):
    return Not(Eq(a, b))


def Ite(c: T, a: T, b: T) -> T:
    assert a.sort == b.sort, (a, b)
    if c.s == "true":
        return a
    if c.s == "false":
        return b
    if a.s == b.s:
        return a
    return app("ite", a.sort, c, a, b)


def _arith(op, a: T, b: T, f):
    if is_lit(a) and is_lit(b):
        return I(f(lit_val(a), lit_val(b)))
    sort = REAL if (a.sort == REAL or b.sort == REAL) else INT
    if sort == REAL:
        a, b = to_real(a), to_real(b)
    return app(op, sort, a, b)


def to_real(a: T) -> T:
    if a.sort == REAL:
        return a
    if is_lit(a):
        return R(lit_val(a))
    return app("to_real", REAL, a)


def Add(a, b):
    if is_lit(a) and lit_val(a) == 0 and b.sort == INT:
        return b
    if is_lit(b) and lit_val(b) == 0 and a.sort == INT:
        return a
    return _arith("+", a, b, lambda x, y: x + y)


def Sub(a, b):
    if is_lit(b) and lit_val(b) == 0 and a.sort == INT:
        return a
    return _arith("-", a, b, lambda x, y: x - y)


def Mul(a, b):
    if is_lit(a) and lit_val(a) == 1:
        return b
    if is_lit(b) and lit_val(b) == 1:
        return a
    return _arith("*", a, b, lambda x, y: x * y)


def Neg(a):
    if is_lit(a):
        return I(-lit_val(a))
    return app("-", a.sort, a)


def FloorDiv(a: T, b: T) -> T:
    """Python // for Int with a positive literal divisor (SMT div is floor for b>0)."""
    assert is_lit(b) and lit_val(b) > 0
    if is_lit(a):
        return I(lit_val(a) // lit_val(b))
    return app("div", INT, a, b)


def Mod(a: T, b: T) -> T:
    """Python % for Int with a positive literal divisor (SMT mod is non-negative)."""
    assert is_lit(b) and lit_val(b) > 0
    if is_lit(a):
        return I(lit_val(a) % lit_val(b))
    return app("mod", INT, a, b)


def Lt(a, b):
    if is_lit(a) and is_lit(b):
        return TRUE if lit_val(a) < lit_val(b) else FALSE
    if a.sort != b.sort:
        a, b = to_real(a), to_real(b)
    return app("<", BOOL, a, b)


def Le(a, b):
    if is_lit(a) and is_lit(b):
        return TRUE if lit_val(a) <= lit_val(b) else FALSE
    if a.sort != b.sort:
        a, b = to_real(a), to_real(b)
    return app("<=", BOOL, a, b)


def Gt(a, b):
    return Lt(b, a)


def Ge(a, b):
    return Le(b, a)


# ---- sequences -------------------------------------------------------------------------

def seq_empty(sort=SEQI) -> T:
    return T(f"(as seq.empty {sort})", sort)


def seq_unit(x: T) -> T:
    return app("seq.unit", f"(Seq {x.sort})", x)


def seq_len(s: T) -> T:
    if s.s.startswith("(as seq.empty"):
        return I(0)
    return app("seq.len", INT, s)


def seq_concat(*ss: T) -> T:
    xs = [s for s in ss if not s.s.startswith("(as seq.empty")]
    if not xs:
        return ss[0]
    if len(xs) == 1:
        return xs[0]
    return app("seq.++", xs[0].sort, *xs)


def seq_extract(s: T, off: T, ln: T) -> T:
    return app("seq.extract", s.sort, s, off, ln)


def seq_nth(s: T, i: T) -> T:
    m = re.match(r"\(Seq (.*)\)$", s.sort)
    return app("seq.nth", m.group(1), s, i)


def seq_contains_elem(s: T, x: T) -> T:
    return app("seq.contains", BOOL, s, seq_unit(x))


def seq_of_ints(vals) -> T:
    vals = list(vals)
    if not vals:
        return seq_empty()
    return seq_concat(*[seq_unit(I(v)) for v in vals])


def select(a: T, i: T) -> T:
    m = re.match(r"\(Array (\S+|\(.*?\)) (.*)\)$", a.sort)
    vs = _array_val_sort(a.sort)
    return app("select", vs, a, i)


def store(a: T, i: T, v: T) -> T:
    return app("store", a.sort, a, i, v)


def _split_sorts(s: str):
    """split the inside of '(Array K V)' into K and V (balanced parens)."""
    assert s.startswith("(Array ") and s.endswith(")")
    body = s[7:-1]
    depth = 0
    for idx, ch in enumerate(body):
        if ch == "(":
            depth += 1
        elif ch == ")":
            depth -= 1
        elif ch == " " and depth == 0:
            return body[:idx], body[idx + 1:]
    raise ValueError(s)


def _array_val_sort(s):
    return _split_sorts(s)[1]


def array_key_sort(s):
    return _split_sorts(s)[0]


# ---- declarations / context -------------------------------------------------------------

class Decls:
    """Collects declarations (order preserved) shared by all obligations of a run unit."""

    def __init__(self):
        self.sorts: dict[str, str] = {}
        self.funs: dict[str, str] = {}
        self.defs: dict[str, str] = {}
        self.counter = 0
        self.axioms: list[str] = []      # closed facts about declared constants (each a full SMT term)
        self.str_lits: dict[str, T] = {}

    def fresh(self, base: str, sort: str) -> T:
        self.counter += 1
        base = re.sub(r"[^A-Za-z0-9_$.!]", "_", base)
        name = f"{base}!{self.counter}"
        self.funs[name] = f"(declare-fun {name} () {sort})"
        return T(name, sort)

    def const(self, name: str, sort: str) -> T:
        if name not in self.funs:
            self.funs[name] = f"(declare-fun {name} () {sort})"
        return T(name, sort)

    def fun(self, name: str, argsorts, ret: str):
        if name not in self.funs:
            self.funs[name] = f"(declare-fun {name} ({' '.join(argsorts)}) {ret})"

    def str_lit(self, value: str) -> T:
        if value not in self.str_lits:
            h = re.sub(r"[^A-Za-z0-9_]", "_", value)[:24]
            name = f"str${len(self.str_lits)}${h}"
            self.funs[name] = f"(declare-fun {name} () {STR})"
            self.str_lits[value] = T(name, STR)
        return self.str_lits[value]

    def preamble(self) -> str:
        out = ["(set-logic ALL)", f"(declare-sort {STR} 0)"]
        out += list(self.sorts.values())
        out += list(self.funs.values())
        out += list(self.defs.values())
        lits = list(self.str_lits.values())
        if len(lits) > 1:
            out.append("(assert (distinct " + " ".join(t.s for t in lits) + "))")
        return "\n".join(out)


# ---- solver portfolio ---------------------------------------------------------------------

SOLVERS = [
    ("z3-4.8.12", lambda f, t: ["/usr/bin/z3", f"-T:{t}", f]),
    # same solver, other arithmetic core: decides the sequence-index obligations of nested loops several times faster
    ("z3-4.8.12-arith2", lambda f, t: ["/usr/bin/z3", f"-T:{t}", "smt.arith.solver=2", f]),
    ("cvc5-1.0.3", lambda f, t: ["/usr/bin/cvc5", "--strings-exp", f"--tlimit={t * 1000}", f]),
    ("z3-5.1.0", lambda f, t: ["z3-new", f"-T:{t}", f]),
]


def run_one(solver_idx: int, path: str, timeout: int):
    name, mk = SOLVERS[solver_idx]
    t0 = time.time()
    try:
        p = subprocess.run(mk(path, timeout), capture_output=True, text=True,
                           timeout=timeout + 5)
        out = p.stdout.strip()
    except subprocess.TimeoutExpired:
        out = "timeout"
    dt = time.time() - t0
    first = out.split("\n", 1)[0].strip() if out else "error"
    if first not in ("sat", "unsat", "unknown", "timeout"):
        first = "error:" + first[:200]
    return name, first, out, dt


def solve(smt_text: str, expect: str, budget: int, want_model_for=None, workdir=None):
    """Run the portfolio sequentially on one query.

    expect: 'unsat' (an obligation) or 'sat' (a vacuity/cover check).
    Returns dict(result, solver, seconds, raw, tried).  result is 'unsat', 'sat' or 'unknown'.
    A 'sat' answer is only accepted if no solver of the portfolio answers 'unsat'
    (the first solvers are tried with a short budget, then with the full one).
    """
    workdir = workdir or os.environ.get("VERIF_SMTDIR") or tempfile.gettempdir()
    os.makedirs(workdir, exist_ok=True)
    h = hashlib.sha1(smt_text.encode()).hexdigest()[:16]
    path = os.path.join(workdir, f"q{os.getpid()}_{h}.smt2")
    body = smt_text + "\n(check-sat)\n"
    if want_model_for:
        body += "(get-value (" + " ".join(want_model_for) + "))\n"
    with open(path, "w") as f:
        f.write(body)
    tried = []
    total = 0.0
    sat_seen = None
    try:
        # stage 1: every solver with a short budget; stage 2: full budget for the rest
        short = max(2, min(10, budget // 6))
        for stage_budget in (short, budget):
            for idx in range(len(SOLVERS)):
                name, first, out, dt = run_one(idx, path, stage_budget)
                total += dt
                tried.append((name, first, round(dt, 3)))
                if first == "unsat":
                    return dict(result="unsat", solver=name, seconds=total, raw=out, tried=tried)
                if first == "sat":
                    if expect == "sat":
                        return dict(result="sat", solver=name, seconds=total, raw=out, tried=tried)
                    if sat_seen is None:
                        sat_seen = (name, out)
            if sat_seen is not None:
                # nobody said unsat within the short stage after a sat: accept sat
                break
        if sat_seen is not None:
            return dict(result="sat", solver=sat_seen[0], seconds=total, raw=sat_seen[1], tried=tried)
        if tried and all(t[1].startswith("error") for t in tried):
            return dict(result="unknown", solver=None, seconds=total, raw="", tried=tried, solver_error=True)
        return dict(result="unknown", solver=None, seconds=total, raw="", tried=tried)
    finally:
        try:
            if os.environ.get("VERIF_KEEP_SLOW") and total > float(os.environ["VERIF_KEEP_SLOW"]):
                import shutil
                shutil.copy(path, os.path.join("/tmp", "slow_" + os.path.basename(path)))
            os.unlink(path)
        except OSError:
            pass


def solve_excluding(smt_text: str, exclude: str, budget: int, workdir=None):
    """Second opinion for an obligation already answered `unsat` by solver `exclude`: run the other solvers of the
    portfolio.  Returns dict(result: 'unsat'|'sat'|'unknown', solver, tried)."""
    workdir = workdir or os.environ.get("VERIF_SMTDIR") or tempfile.gettempdir()
    h = hashlib.sha1(smt_text.encode()).hexdigest()[:16]
    path = os.path.join(workdir, f"x{os.getpid()}_{h}.smt2")
    with open(path, "w") as f:
        f.write(smt_text + "\n(check-sat)\n")
    tried = []
    base = (exclude or "").split("+")[0]
    try:
        for idx, (name, _) in enumerate(SOLVERS):
            if name == base:
                continue
            name, first, out, dt = run_one(idx, path, budget)
            tried.append((name, first, round(dt, 3)))
            if first in ("unsat", "sat"):
                return dict(result=first, solver=name, tried=tried)
        return dict(result="unknown", solver=None, tried=tried)
    finally:
        try:
            os.unlink(path)
        except OSError:
            pass


_VAL_RE = re.compile(r"\(\s*([^\s()]+)\s+(.*)\)\s*$")


def parse_model(raw: str) -> dict:
    """Parse the (get-value ...) answer into {name: python value or raw string}."""
    lines = raw.split("\n", 1)
    if len(lines) < 2:
        return {}
    txt = lines[1].strip()
    res = {}
    # tokenise top-level pairs
    depth = 0
    start = None
    items = []
    for i, ch in enumerate(txt):
        if ch == "(":
            depth += 1
            if depth == 2:
                start = i
        elif ch == ")":
            if depth == 2 and start is not None:
                items.append(txt[start:i + 1])
                start = None
            depth -= 1
    for it in items:
        inner = it[1:-1].strip()
        sp = inner.find(" ")
        if sp < 0:
            continue
        name, val = inner[:sp], inner[sp + 1:].strip()
        res[name] = _parse_value(val)
    return res


def _parse_value(v: str):
    v = v.strip()
    if v in ("true", "false"):
        return v == "true"
    if re.fullmatch(r"\d+", v):
        return int(v)
    m = re.fullmatch(r"\(-\s*(\d+)\)", v)
    if m:
        return -int(m.group(1))
    m = re.fullmatch(r"(\d+)\.0", v)
    if m:
        return float(m.group(1))
    m = re.fullmatch(r"\(/\s*(\d+)(?:\.0)?\s+(\d+)(?:\.0)?\)", v)
    if m:
        return int(m.group(1)) / int(m.group(2))
    if v.startswith("(as seq.empty"):
        return []
    if v.startswith("(seq.unit") or v.startswith("(seq.++"):
        nums = re.findall(r"\(seq\.unit\s+(\(-\s*\d+\)|\d+)\)", v)
        out = []
        for n in nums:
            n = n.strip()
            out.append(-int(re.sub(r"[^\d]", "", n)) if n.startswith("(") else int(n))
        return out
    return v
