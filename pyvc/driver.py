"""Check driver: one property -> obligations -> verdict, evidence, replay files."""
from __future__ import annotations

import importlib
import json
import os
import subprocess
import sys
import time
import traceback

from .front import Program, repo_root
from .spec import REG
from .verify import Exec
from .run import discharge, smt_text
from .state import Obligation
from .smt import parse_model, TRUE

VERIF = os.path.dirname(os.path.dirname(os.path.abspath(__file__)))


class GroundOb:
    """A ground / structural obligation decided by exhaustive evaluation on the real modules or AST."""

    def __init__(self, oid, ok, detail="", backend="ground", witness=None):
        self.oid = oid
        self.ok = ok
        self.detail = detail
        self.backend = backend
        self.witness = witness


# development aid (seed trials on a scratch copy): VERIF_OUT redirects evidence/ and replays/; registered commands never set it
OUT = os.environ.get("VERIF_OUT") or VERIF


def load_known():
    p = os.path.join(VERIF, "known_findings.json")
    if not os.path.exists(p):
        return {"findings": [], "fixed": []}
    with open(p) as f:
        return json.load(f)


def load_lock():
    p = os.path.join(VERIF, "obligations.lock")
    if not os.path.exists(p):
        return {}
    with open(p) as f:
        return json.load(f)


def run_property(pid: str, tier: str, seed: int, write_lock=False, verbose=False):
    from props import PROPS            # property table (spec modules, ground checks, texts)
    t0 = time.time()
    if pid not in PROPS:
        print(f"unknown property {pid}")
        return 3
    P = PROPS[pid]
    for m in P["specs"]:
        importlib.import_module("specs." + m)
    budget = 60 if tier == "quick" else 240
    prog = Program()
    ex = Exec(prog, REG)
    results = []
    fuc = []
    for name, c in list(REG.contracts.items()):
        if c.trusted or pid not in c.props:
            continue
        r = ex.verify(c)
        results.append(r)
        fuc.append(name)
    # closure: a contract used at a call site of a verified function is itself verified in this check (modular soundness is
    # global, but a change inside a callee should be reported by the check of every property that depends on it)
    closure = []
    if P.get("closure", True) and not os.environ.get("VERIF_NO_CLOSURE"):
        done = set(fuc)
        changed = True
        while changed:
            changed = False
            used = set().union(*[r.used_contracts for r in results]) if results else set()
            for name in sorted(used):
                c = REG.contracts.get(name)
                if c is None or c.trusted or c.inline or getattr(c, "checks_only", False) or name in done:
                    continue
                try:
                    prog.func(name.split("#")[0])
                except KeyError:
                    continue
                done.add(name)
                results.append(ex.verify(c))
                fuc.append(name)
                closure.append(name)
                changed = True
    for name, lem in REG.lemma_obs.items():
        if pid in lem["props"]:
            results.append(ex.verify_lemma(lem))
    # model-extraction terms
    solve_wall = discharge(results, budget=budget)
    xc = None
    selftest = None
    native_xc = None
    if tier == "thorough" and not os.environ.get("VERIF_REPO"):
        from .run import cross_check
        skip = set((os.environ.get("VERIF_THOROUGH_SKIP") or "").split(","))      # development aid: second,selftest
        xc = cross_check(results, budget=30) if "second" not in skip else None
        selftest = seed_self_test(pid) if "selftest" not in skip else None
        # CPython cross-check: only contracts whose every obligation was discharged (a refuted or undecided one proves nothing)
        proved = [r.name for r in results if not r.unsupported and r.obligations and not r.name.startswith("lemma:") and
                  all(ob.result and ob.result["result"] == "unsat" for ob in r.obligations)]
        from .crosscheck import cross_check_native
        native_xc = cross_check_native(proved, P["specs"])
    # ground / structural obligations
    ground = []
    for g in P.get("ground", []):
        try:
            ground += g(prog)
        except Exception as e:      # a crashing ground check is a checker error
            print("checker error in ground obligations:", e)
            traceback.print_exc()
            return 3

    # bounded stand-ins: run on the real modules, reported under coverage.bounded, never counted as obligations
    bounded = []
    for g in P.get("bounded", []):
        try:
            bounded += g(prog)
        except Exception as e:
            print("checker error in bounded stand-in:", e)
            traceback.print_exc()
            return 3

    # ---- aggregate ---------------------------------------------------------------------------
    coarse = {}
    undecided = []
    refuted = []
    solver_errors = []
    dead = 0
    vacuous = []
    by_backend = {}
    solver_seconds = 0.0
    samples = []
    n_inst = 0
    slowest = []
    for r in results:
        if r.unsupported:
            undecided.append({"function": r.name, "reason": "unsupported: " + r.unsupported})
        for ob in r.obligations:
            n_inst += 1
            res = ob.result
            solver_seconds += res.get("seconds", 0.0)
            slowest.append((round(res.get("seconds", 0.0) * (res.get("grouped") or 1), 2), ob.coarse_id, res.get("solver")))
            cid = ob.coarse_id
            ent = coarse.setdefault(cid, {"instances": 0, "unsat": 0, "sat": 0, "unknown": 0, "solvers": set()})
            ent["instances"] += 1
            ent[res["result"]] += 1
            if res["result"] == "unsat":
                ent["solvers"].add(res["solver"])
                by_backend[res["solver"]] = by_backend.get(res["solver"], 0) + 1
            elif res["result"] == "sat":
                refuted.append((r, ob))
            else:
                if res.get("solver_error"):
                    solver_errors.append(f"{cid}: {res.get('tried')[0][1][:160]}")
                undecided.append({"obligation": cid, "reason": "solver: " + str(res.get("tried"))[:300]})
        for ob in r.covers:
            res = ob.result
            if res is None:
                continue
            if res["result"] != "sat":
                if ob.clause in ("requires-satisfiable", "assumptions-satisfiable"):
                    vacuous.append(f"{ob.func}: {ob.clause} -> {res['result']}")
                else:
                    dead += 1
    for g in ground:
        ent = coarse.setdefault(g.oid, {"instances": 0, "unsat": 0, "sat": 0, "unknown": 0, "solvers": set()})
        ent["instances"] += 1
        if g.ok is None:            # a structural rule that does not recognise the code's shape: undecided
            ent["unknown"] += 1
            undecided.append({"obligation": g.oid, "reason": "structural rule not applicable to this shape: " + g.detail[:200]})
        else:
            ent["unsat" if g.ok else "sat"] += 1
        ent["solvers"].add(g.backend)
        by_backend[g.backend] = by_backend.get(g.backend, 0) + (1 if g.ok else 0)

    discharged_ids = sorted(c for c, e in coarse.items() if e["sat"] == 0 and e["unknown"] == 0)
    total_ids = len(coarse)

    # ---- lock -----------------------------------------------------------------------------------
    lock = load_lock()
    if write_lock:
        lock[pid] = discharged_ids
        with open(os.path.join(VERIF, "obligations.lock"), "w") as f:
            json.dump(lock, f, indent=0, sort_keys=True)
        print(f"lock written: {len(discharged_ids)} obligations for {pid}")
    locked = set(lock.get(pid, []))
    missing = sorted(locked - set(coarse.keys()))

    # ---- violations --------------------------------------------------------------------------------
    known = load_known()
    known_here = [k for k in known.get("findings", []) if k["property"] == pid]
    violations = []
    known_hits = []
    spurious = []
    os.makedirs(os.path.join(OUT, "replays"), exist_ok=True)
    seen_cids = set()
    # known findings given as an *excluded witness condition* (flag): re-verify the function with the condition
    # excluded; what then discharges fails only because of the listed finding, anything else is a new violation
    flag_known = {}
    flag_undecided = set()
    for kf in known_here:
        if not kf.get("flag") or not kf.get("function"):
            continue
        fn = kf["function"]
        failing = [(r, ob) for r, ob in refuted if ob.func == fn]
        if not failing:
            continue
        REG.flags[kf["flag"]] = True
        try:
            r2 = ex.verify(REG.contracts[fn])
            discharge([r2], budget=budget, covers=False)
        finally:
            REG.flags[kf["flag"]] = False
        still = {ob.coarse_id for ob in r2.obligations if ob.result and ob.result["result"] == "sat"}
        unknown2 = {ob.coarse_id for ob in r2.obligations if ob.result and ob.result["result"] == "unknown"}
        if r2.unsupported:
            still = {ob.coarse_id for _, ob in failing}
        for r, ob in failing:
            if ob.coarse_id in unknown2:
                # the re-verification under the exclusion was not decided (solver budget): neither attributable to the
                # listed finding nor a new violation -> undecided
                flag_undecided.add(id(ob))
                undecided.append({"obligation": ob.coarse_id, "reason": "re-verification under the known-finding exclusion "
                                  "was not decided within the solver budget"})
            elif ob.coarse_id not in still:
                flag_known[id(ob)] = kf
    for r, ob in refuted:
        cid = ob.coarse_id
        model = parse_model(ob.result.get("raw", ""))
        kf = flag_known.get(id(ob)) or match_known(known_here, cid, ob, model, ex, r)
        if kf is not None:
            if kf["id"] not in [k["id"] for k in known_hits]:
                known_hits.append(kf)
            continue
        if id(ob) in flag_undecided:
            continue
        if cid in seen_cids:
            continue
        seen_cids.add(cid)
        rep = try_replay(pid, P, r, ob, model)
        path = os.path.join("replays", f"{pid}-{safe(cid)}.json")
        doc = {"property": pid, "obligation": cid, "function": ob.func, "kind": ob.kind, "clause": ob.clause,
               "path": list(ob.trace), "solver": ob.result.get("solver"), "solver_output": ob.result.get("raw", "")[:4000],
               "model": model, "meta": ob.meta, "replay": rep, "repo": repo_root()}
        with open(os.path.join(OUT, path), "w") as f:
            json.dump(doc, f, indent=1, default=str)
        if rep["status"] == "reproduced":
            violations.append((cid, path, ""))
        in_lock = cid in locked or (ob.kind == "raises" and any(l.startswith(ob.func + "::") for l in locked))
        if rep["status"] == "reproduced":
            pass
        elif rep["status"] == "not-reproduced" and not in_lock:
            spurious.append(cid)
            undecided.append({"obligation": cid, "reason": "refuted by the solver but the concretised input "
                              "passes natively (spurious model: weak callee contract)"})
        else:
            if in_lock or not locked:
                violations.append((cid, path, " no-failing-input-found"))
            else:
                undecided.append({"obligation": cid, "reason": "refuted, not in lock, no replay"})
    for g in ground:
        if g.ok is False:
            kf = next((k for k in known_here if k.get("obligation") == g.oid), None)
            if kf is not None:
                known_hits.append(kf)
                continue
            path = os.path.join("replays", f"{pid}-{safe(g.oid)}.json")
            rep = {"status": "reproduced", "detail": "ground obligation: the witness row itself is the failing input"}
            gr = P.get("ground_replay")
            if gr is not None and g.backend != "ground":
                try:
                    rep = gr(g) or rep
                except Exception as e:
                    rep = {"status": "no-replay", "detail": f"replay harness error: {e!r}"}
            with open(os.path.join(OUT, path), "w") as f:
                json.dump({"property": pid, "obligation": g.oid, "detail": g.detail, "witness": g.witness,
                           "backend": g.backend, "replay": rep, "repo": repo_root()}, f, indent=1, default=str)
            violations.append((g.oid, path, "" if rep.get("status") == "reproduced" else " no-failing-input-found"))

    for g in bounded:
        if not g.ok:
            kf = next((k for k in known_here if k.get("obligation") == g.oid), None)
            if kf is not None:
                known_hits.append(kf)
                continue
            path = os.path.join("replays", f"{pid}-{safe(g.oid)}.json")
            with open(os.path.join(OUT, path), "w") as f:
                json.dump({"property": pid, "obligation": g.oid, "detail": g.detail, "witness": g.witness,
                           "backend": g.backend, "repo": repo_root(),
                           "replay": {"status": "reproduced", "detail": "bounded stand-in: the failing input was "
                                      "constructed and run on the real modules of this tree"}}, f, indent=1, default=str)
            violations.append((g.oid, path, ""))

    # ---- evidence ------------------------------------------------------------------------------------
    known_obls = sorted({k["obligation"] for k in known_hits if k.get("obligation")} |
                        {ob.coarse_id for r_, ob in refuted if id(ob) in flag_known})
    n_total = total_ids - len([c for c in known_obls if c in coarse])
    n_dis = len([c for c in discharged_ids if c not in known_obls])
    full = (n_dis == n_total and not undecided and not violations and not vacuous and not missing)
    for r in results[:40]:
        for ob in r.obligations[:2]:
            samples.append({"id": ob.coarse_id, "path": list(ob.trace)[-6:], "goal": ob.goal.s[:200],
                            "result": ob.result.get("result"), "solver": ob.result.get("solver")})
    for g in ground[:5]:
        samples.append({"id": g.oid, "backend": g.backend, "ok": g.ok, "detail": g.detail[:200]})
    inlined = sorted(set().union(*[r.inlined for r in results])) if results else []
    auto_inl = sorted(set().union(*[getattr(r, "auto_inlined", set()) for r in results])) if results else []
    used = sorted(set().union(*[r.used_contracts for r in results])) if results else []
    trusted_used = [u for u in used if u in REG.contracts and REG.contracts[u].trusted]
    assumptions = list(P.get("assumptions", [])) + list(REG.assumptions)
    assumptions += [f"trusted contract (not verified): {u}" for u in trusted_used]
    unverified_used = [u for u in used if u in REG.contracts and not REG.contracts[u].trusted and not REG.contracts[u].inline
                       and u not in fuc]
    assumptions += [f"contract used at call sites as an abstraction, not verified in this check: {u}" +
                    (f" ({REG.contracts[u].note})" if REG.contracts[u].note else "") for u in unverified_used]
    assumptions += [f"function without a contract, its real body executed at the call sites (not verified on its own): {u}"
                    for u in auto_inl]
    casts = sorted(getattr(ex, "assumed_casts", set()))
    assumptions += [f"unchecked cast: {c_}" for c_ in casts]
    ev = {
        "property_id": pid, "tier": tier, "seed": seed,
        "level": P.get("category", "proof"),
        "coverage": {
            "obligations": n_total, "discharged": n_dis,
            "checker_cmd": f"./check {pid} --tier {tier}",
            "trusted_base": P.get("trusted_base", []) + ["pyvc VC generator (T-engine)", "z3 4.8.12 / z3 5.1.0 / cvc5 1.0.3 on unsat (T-smt)"],
            "explanation": P.get("explanation", "") + ("" if full else
                           f" NOT a full proof in this run: {n_dis}/{n_total} obligation families discharged; "
                           f"{len(undecided)} undecided, {len(violations)} violations, {len(known_hits)} known findings."),
            "obligation_instances": n_inst + len(ground),
            "functions_under_contract": fuc,
            "verified_because_called_by_those": closure,
            "inlined_accessors": inlined,
            "auto_inlined": auto_inl,
            "contracts_used_at_call_sites": used,
            "by_backend": by_backend,
            "solver_seconds": round(solver_seconds, 2),
            "solve_wall_s": round(solve_wall, 2),
            "slowest_queries": [list(x) for x in sorted(set(slowest), reverse=True)[:6]],
            "ground_rows": len(ground), "exhaustive": bool(ground),
            "undecided": undecided[:50], "dead_paths": dead, "vacuity_failures": vacuous,
            "lock_missing": missing, "spurious_models": spurious,
            "known_findings_hit": [k["id"] for k in known_hits],
            "known_finding_obligations_excluded_from_counts": known_obls,
            "complete": full,
            "second_solver": xc, "seed_self_test": selftest, "cpython_cross_check": native_xc,
            "bounded": {"note": "bounded stand-ins, NOT counted in obligations/discharged and not proofs",
                        "cases": len(bounded), "held": len([g for g in bounded if g.ok]),
                        "bound": sorted({g.backend for g in bounded}),
                        "samples": [{"id": g.oid, "ok": g.ok, "detail": g.detail[:160]} for g in bounded[:4]]},
            "samples": samples[:25],
        },
        "assumptions": assumptions,
        "wall_s": round(time.time() - t0, 2),
        "violations": len(violations),
    }
    os.makedirs(os.path.join(OUT, "evidence"), exist_ok=True)
    with open(os.path.join(OUT, "evidence", f"{pid}.json"), "w") as f:
        json.dump(ev, f, indent=1, default=str)

    # ---- verdict ---------------------------------------------------------------------------------------
    print(f"{pid}: {n_dis}/{n_total} obligation families discharged ({n_inst + len(ground)} instances), "
          f"{len(undecided)} undecided, {len(violations)} violations, {len(known_hits)} known findings, "
          f"wall {ev['wall_s']}s")
    if verbose:
        for u in undecided:
            print("  UNDECIDED", u)
    for k in known_hits:
        print(f"KNOWN-FINDING: property={pid} {k['what']}")
    if vacuous:
        print("checker error: vacuous contract(s):", vacuous)
        return 3
    if solver_errors:
        print("checker error: malformed solver input:", solver_errors[:3])
        return 3
    if n_total == 0:
        print("checker error: zero obligations generated")
        return 3
    if xc is not None:
        print(f"second solver: {xc['confirmed']}/{xc['asked']} unsat answers confirmed by another solver, "
              f"{xc['unconfirmed']} without a second answer, {len(xc['disagreements'])} disagreements")
        if xc["disagreements"]:
            print("checker error: solvers disagree on", xc["disagreements"][:5])
            return 3
    if native_xc is not None:
        if native_xc.get("error"):
            print("checker error: CPython cross-check failed to run:", native_xc["error"])
            return 3
        print(f"CPython cross-check: {native_xc['samples_run']} random samples inside the preconditions of "
              f"{native_xc['contracts_exercised']}/{native_xc['contracts_offered']} proved contracts run on the real functions, "
              f"{len(native_xc['disagreements'])} disagreements")
        if native_xc["disagreements"]:
            print("checker error: a PROVED contract is false on the real code for a concrete input (unsound model or "
                  "evaluator):", json.dumps(native_xc["disagreements"][:3], default=str)[:1500])
            return 3
    if selftest is not None:
        ok = [t for t in selftest if t.get("as_expected")]
        print(f"seed self-test: {len(ok)}/{len(selftest)} stored changes reported as expected")
        for t in selftest:
            if t.get("exit") == 0 and t.get("expected_exit") != 0:
                print(f"checker error: the check reports that {pid} HOLDS on the seeded change {t['seed']}")
                return 3
            if t.get("exit") == 0:
                print(f"  note: seed {t['seed']} is not detected (a clause this check states it does not decide)")
            if not t.get("as_expected"):
                print(f"  note: seed {t['seed']}: {t}")
    for cid, path, suffix in violations:
        print(f"VIOLATION property={pid} replay={path}{suffix}")
        print(f"  failed obligation: {cid}")
    if violations:
        return 1
    if missing:
        print("undecided: obligations in the lock were not generated:", missing[:10])
        return 2
    if flag_undecided:
        print("UNDECIDED: the known-finding re-verification was not decided within the solver budget")
        return 2
    lock_und = [u for u in undecided if u.get("obligation") in locked or
                (u.get("function") and any(l.startswith(u["function"] + "::") for l in locked))]
    if lock_und:
        for u in lock_und[:10]:
            print("UNDECIDED (was discharged on the reference tree):", u)
        return 2
    return 0


def seed_self_test(pid: str):
    """thorough tier: every stored seeded change of this property (a change known to break it while the pinned suite
    still passes) is applied to a scratch COPY of /repo's working tree and the quick check is run on the copy.
    Expected: exit 1 (violation), or exit 2 where meta.json says "expected": "undecided".  A seed on which the check
    reports that the property HOLDS (exit 0) is a soundness alarm."""
    import glob
    import shutil
    import subprocess
    import tempfile
    out = []
    for d in sorted(glob.glob(os.path.join(VERIF, "seeded", pid + "-*"))):
        patch = os.path.join(d, "patch.diff")
        if not os.path.exists(patch):
            continue
        try:
            meta = json.load(open(os.path.join(d, "meta.json")))
        except Exception:
            meta = {}
        # "missed": a stored change in a clause the check states it does NOT decide (listed under the property's
        # assumptions as NOT DECIDED); it is run and reported, and is not a soundness alarm
        expected = {"violation": 1, "undecided": 2, "missed": 0}.get(meta.get("expected", "violation"), 1)
        w = tempfile.mkdtemp(prefix="verif_seedcopy_")
        o = tempfile.mkdtemp(prefix="verif_seedout_")
        try:
            shutil.copytree(repo_root(), w, dirs_exist_ok=True,
                            ignore=shutil.ignore_patterns(".git", "__pycache__", "*.pyc", ".pytest_cache", "site", "docs"))
            ap = subprocess.run(["git", "apply", patch], cwd=w, capture_output=True, text=True)
            if ap.returncode != 0:
                out.append({"seed": os.path.basename(d), "outcome": "patch-does-not-apply-to-this-tree"})
                continue
            env = dict(os.environ, VERIF_REPO=w, VERIF_OUT=o, VERIF_TIER="quick", TZ="UTC")
            p = subprocess.run([sys.executable, "-c",
                                "import sys; sys.path.insert(0, %r); from pyvc.driver import main; "
                                "sys.exit(main([%r, '--tier', 'quick']))" % (VERIF, pid)],
                               env=env, capture_output=True, text=True, timeout=3600)
            viol = [ln.split("replay=")[0].strip() for ln in p.stdout.splitlines() if ln.startswith("  failed obligation")]
            out.append({"seed": os.path.basename(d), "exit": p.returncode, "expected_exit": expected,
                        "as_expected": p.returncode == expected,
                        "failed_obligations": [v.replace("failed obligation: ", "") for v in viol][:4]})
        except Exception as e:
            out.append({"seed": os.path.basename(d), "outcome": f"self-test error: {e!r}"})
        finally:
            shutil.rmtree(w, ignore_errors=True)
            shutil.rmtree(o, ignore_errors=True)
    return out


def safe(s):
    import re
    return re.sub(r"[^A-Za-z0-9_.-]", "_", s)[:120]


def match_known(known_here, cid, ob, model, ex, r):
    for k in known_here:
        if k.get("flag"):
            continue
        if k.get("obligation") != cid:
            continue
        # a finding is identified by a witness condition over the obligation's path / model
        cond = k.get("path_contains")
        if cond and not all(c in " ".join(ob.trace) for c in cond):
            continue
        mc = k.get("model_condition")
        if mc:
            try:
                if not eval(mc, {"m": model, "meta": ob.meta}):
                    continue
            except Exception:
                continue
        return k
    return None


def try_replay(pid, P, r, ob, model):
    fn = P.get("replay")
    if fn is None:
        return {"status": "no-replay", "detail": "no native replay harness for this obligation"}
    try:
        return fn(r, ob, model)
    except Exception as e:
        return {"status": "no-replay", "detail": f"replay harness error: {e!r}"}


def replay_file(path):
    """./check --replay <replays/x.json>: re-run the check of the property the file belongs to on the current tree and
    say whether the recorded obligation fails again (exit 1) or not (exit 0); for obligations with a concrete input the
    native replay harness is part of that run (its outcome is in the rewritten replay file)."""
    p = path if os.path.isabs(path) else os.path.join(VERIF, path)
    try:
        doc = json.load(open(p))
    except Exception as e:
        print("cannot read replay file:", e)
        return 3
    pid, cid = doc.get("property"), doc.get("obligation")
    print(f"replay: property {pid}, obligation {cid}")
    if doc.get("replay"):
        print("recorded replay outcome:", json.dumps(doc["replay"])[:400])
    import contextlib
    import io
    buf = io.StringIO()
    with contextlib.redirect_stdout(buf):
        rc = run_property(pid, "quick", 0)
    again = [ln for ln in buf.getvalue().splitlines() if ln.strip().startswith("failed obligation:") and cid in ln]
    if again:
        print(f"REPLAY: obligation {cid} fails again on this tree")
        return 1
    print(f"REPLAY: obligation {cid} does not fail on this tree (check exit {rc})")
    return 0 if rc in (0, 1, 2) else rc


def main(argv):
    import argparse
    if argv and argv[0] == "--replay":
        if len(argv) < 2:
            print("usage: ./check --replay <path>")
            return 3
        return replay_file(argv[1])
    ap = argparse.ArgumentParser()
    ap.add_argument("prop")
    ap.add_argument("--tier", default=os.environ.get("VERIF_TIER", "quick"))
    ap.add_argument("--write-lock", action="store_true")
    ap.add_argument("-v", action="store_true")
    a = ap.parse_args(argv)
    seed = int(os.environ.get("VERIF_SEED", "0") or 0)
    try:
        return run_property(a.prop, a.tier, seed, write_lock=a.write_lock, verbose=a.v)
    except Exception:
        traceback.print_exc()
        print("checker error")
        return 3
