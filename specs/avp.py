"""Contracts for diameter/message/avp/avp.py (C01, C04)."""
from pyvc.spec import REG as R, Raise
from pyvc.smt import I, Eq, Or, And, Lt, Le, INT, BOOL, app
from pyvc.values import VRef, VBool, VInt, VAny
from pyvc.state import Unsupported
from . import packer  # noqa

R.model("Avp", fields={"code": "int", "flags": "int", "payload": "bytes", "name": "Opt[str]",
                       "_vendor_id": "int"},
        dynamic={"_avps": "List[Avp]"})
R.model("AvpInfo", builtin=True, fields={"name": "str", "type": "Any:avpclass", "mandatory": "Opt[bool]",
                                         "vendor": "int"})
R.exception("AvpDecodeError", "Exception")
R.exception("AvpEncodeError", "Exception")
R.exception("ConversionError", "Error")
R.exception("Error", "Exception")

R.macro("bit", ["x", "j"], "(x // 2**j) % 2")      # only used with literal j via the variants below
R.macro("bit7", ["x"], "(x // 128) % 2")
R.macro("bit6", ["x"], "(x // 64) % 2")
R.macro("bit5", ["x"], "(x // 32) % 2")
R.macro("avp_hdr", ["v"], "ite(v != 0, 12, 8)")
R.macro("avp_wire", ["c", "f", "v", "p"],
        "be32(c) + be32(f * 2**24 + avp_hdr(v) + len(p)) + ite(v != 0, be32(v), b'') + p + zeros(pad4(len(p)))")
R.macro("avp_fields_ok", ["a"],
        "0 <= a.code < 2**32 and 0 <= a.flags < 256 and 0 <= a._vendor_id < 2**32 "
        "and len(a.payload) <= 2**24 - 13")
R.macro("inv_avp", ["a"], "avp_fields_ok(a) and (bit7(a.flags) == 1) == (a._vendor_id != 0)")

R.inline_fn("Avp.vendor_id", "Avp.is_vendor", "Avp.is_mandatory", "Avp.is_private")

R.contract("Avp.vendor_id.fset", params={"self": "Avp", "value": "int"},
           ensures=[("vendor", "self._vendor_id == value"),
                    ("v-bit", "self.flags == old(self.flags) - 128 * bit7(old(self.flags)) + ite(value != 0, 128, 0)")],
           modifies=["self.flags", "self._vendor_id"], props=["C01"])
R.contract("Avp.is_mandatory.fset", params={"self": "Avp", "value": "bool"},
           ensures=[("m-bit", "self.flags == old(self.flags) - 64 * bit6(old(self.flags)) + ite(value, 64, 0)")],
           modifies=["self.flags"], props=["C01"])
R.contract("Avp.is_private.fset", params={"self": "Avp", "value": "bool"},
           ensures=[("p-bit", "self.flags == old(self.flags) - 32 * bit5(old(self.flags)) + ite(value, 32, 0)")],
           modifies=["self.flags"], props=["C01"])
R.contract("Avp.length", params={"self": "Avp"}, returns="int",
           ensures=[("length", "result == avp_hdr(self._vendor_id) + len(self.payload)")], props=["C01"])
R.contract("Avp.__init__",
           params={"self": "Avp", "code": "int", "vendor_id": "int", "payload": "bytes", "flags": "int"},
           ensures=[("fields", "self.code == code and self.payload == payload and self._vendor_id == vendor_id "
                               "and self.name == 'Unknown'"),
                    ("v-bit", "self.flags == flags - 128 * bit7(flags) + ite(vendor_id != 0, 128, 0)")],
           modifies=["self.code", "self.flags", "self.payload", "self.name", "self._vendor_id"],
           props=["C01"])

R.contract("Avp.as_packed", params={"self": "Avp", "packer": "Packer"}, returns="Packer",
           requires=[("payload-fits", "len(self.payload) <= 2**24 - 13")],
           ensures=[("wire", "implies(avp_fields_ok(self), "
                             "pbuf(packer) == old(pbuf(packer)) + "
                             "avp_wire(self.code, self.flags, self._vendor_id, self.payload))"),
                    ("returns-packer", "result == packer")],
           raises=[Raise("ConversionError", "not avp_fields_ok(self)", "only_if")],
           modifies=["packer._Packer__buf.data"], props=["C01", "C02"])
R.contract("Avp.as_bytes", params={"self": "Avp"}, returns="bytes",
           requires=[("payload-fits", "len(self.payload) <= 2**24 - 13")],
           ensures=[("wire", "implies(avp_fields_ok(self), "
                             "result == avp_wire(self.code, self.flags, self._vendor_id, self.payload))")],
           raises=[Raise("ConversionError", "not avp_fields_ok(self)", "only_if")],
           props=["C01"])


# ---- dictionary -----------------------------------------------------------------------------------
# The two AVP tables of diameter.message.avp.dictionary are module-level state (avp.register() adds rows at run time):
# modelled as global tables; dict_known / dict_entry read them in the current state.
R.global_value("AVP_DICTIONARY", "Dict[int,AvpInfo]")
R.global_value("AVP_VENDOR_DICTIONARY", "Dict[int,Dict[int,AvpInfo]]")


def _dict_terms(ex, st, code, vendor):
    from pyvc.smt import Ite, And
    D = ex.resolve_global("AVP_DICTIONARY", spec=True)
    VD = ex.resolve_global("AVP_VENDOR_DICTIONARY", spec=True)
    c, v = ex.num(code), ex.num(vendor)
    inner = ex.dict_get(st, VD, v)
    known = Ite(Eq(v, I(0)), ex.dict_has(st, D, c), And(ex.dict_has(st, VD, v), ex.dict_has(st, inner, c)))
    entry = Ite(Eq(v, I(0)), ex.dict_get(st, D, c).t, ex.dict_get(st, inner, c).t)
    return known, entry


@R.specfn("dict_known")
def _dict_known(ex, st, code, vendor):
    return VBool(_dict_terms(ex, st, code, vendor)[0])


@R.specfn("dict_entry")
def _dict_entry(ex, st, code, vendor):
    return VRef(_dict_terms(ex, st, code, vendor)[1], "AvpInfo")


@R.specfn("avp_class_ok")
def _avp_class_ok(ex, st, tok):
    """tok is the class id of a subclass of Avp (ground obligation C01.dict: every dictionary
    `type` is an Avp subclass inheriting __init__/as_packed/length)"""
    ids = [ex.class_id(n) for n in ex.subclass_names("Avp")]
    return VBool(Or(*[Eq(ex.unwrap(tok).t, i) for i in ids]))


R.object_invariant("AvpInfo", "avp_class_ok(self.type)")
R.assume("table invariant: every row of the AVP tables names an Avp subclass as its type (ground obligations C01.dict[*] for "
         "the rows present at import; avp.register requires it of the rows it adds)")
R.contract("get_avp_dictionary_entry", params={"avp_code": "int", "vendor_id": "int"},
           returns="Opt[AvpInfo]",
           ensures=["is_none(result) == (not dict_known(avp_code, vendor_id))",
                    "implies(not is_none(result), some(result) == dict_entry(avp_code, vendor_id) "
                    "and avp_class_ok(some(result).type))"],
           raises=[], props=["C01", "C04"],
           note="the lookup itself is verified against the two tables (it raises nothing, also for unknown vendors)")
R.assume("table invariant (assumed): AVP_DICTIONARY and the per-vendor tables of AVP_VENDOR_DICTIONARY are pairwise distinct "
         "dict objects (they are separate dict displays in dictionary.py; register creates new ones with {})")
R.kind_hints[("register", "{}")] = "Dict[int,AvpInfo]"
R.contract("diameter.message.avp.avp.register", params={"avp": "int", "name": "str", "type_cls": "Any:avpclass", "vendor": "Opt[int]", "mandatory": "Opt[bool]"},
           ghost={"c2": "int", "v2": "int"},
           requires=[("type-is-an-avp-class", "avp_class_ok(type_cls)")],
           assume_pre=[("tables-are-separate-objects",
                        "implies(v2 in AVP_VENDOR_DICTIONARY, AVP_VENDOR_DICTIONARY[v2] != AVP_DICTIONARY) and "
                        "implies(not is_none(vendor) and some(vendor) in AVP_VENDOR_DICTIONARY, "
                        "AVP_VENDOR_DICTIONARY[some(vendor)] != AVP_DICTIONARY and "
                        "implies(v2 in AVP_VENDOR_DICTIONARY and v2 != some(vendor), "
                        "AVP_VENDOR_DICTIONARY[v2] != AVP_VENDOR_DICTIONARY[some(vendor)]))")],
           ensures=[("the-registered-avp-is-found",
                     "implies(is_none(vendor) or some(vendor) != 0, dict_known(avp, ite(is_none(vendor), 0, some(vendor))) and "
                     "dict_entry(avp, ite(is_none(vendor), 0, some(vendor))).name == name and "
                     "dict_entry(avp, ite(is_none(vendor), 0, some(vendor))).type == type_cls and "
                     "dict_entry(avp, ite(is_none(vendor), 0, some(vendor))).mandatory == mandatory)"),
                    ("other-rows-are-untouched",
                     "implies(not (c2 == avp and v2 == ite(is_none(vendor), 0, some(vendor))), "
                     "dict_known(c2, v2) == old(dict_known(c2, v2)) and "
                     "implies(dict_known(c2, v2), dict_entry(c2, v2) == old(dict_entry(c2, v2))))")],
           raises=[], modifies=["dict:AVP_DICTIONARY", "dict:AVP_VENDOR_DICTIONARY", "*dict:Dict[int,AvpInfo]"],
           props=["C01"],
           note="register(vendor=0) writes AVP_VENDOR_DICTIONARY[0], which the lookup never reads (vendor 0 is looked up in "
                "AVP_DICTIONARY): stated by the guard of the first clause")


@R.specfn("call_opaque")
def _call_opaque(ex, st, f, args, kwargs, k, where):
    """Calling a dictionary `type` token: instantiates that Avp subclass; all of them inherit
    Avp.__init__ (structural obligation C01.struct.init-not-overridden)."""
    from pyvc.smt import store
    if getattr(f, "tag", None) != "avpclass":
        hk = R.specfns.get("call_opaque_" + str(getattr(f, "tag", None)))
        if hk is None:
            raise Unsupported(f"call of opaque value with tag {getattr(f, 'tag', None)} at {where}")
        return hk(ex, st, f, args, kwargs, k, where)
    s2, r = ex.alloc_ref(st)
    a = ex.heap_array(s2, "$type", INT, INT)
    s2.heap["$type"] = store(a, r, f.t)
    obj = VRef(r, "Avp")
    c = ex.contract_of("Avp.__init__")
    fi = ex.prog.func("Avp.__init__")
    return ex.apply_contract(s2, c, [obj] + list(args), kwargs, lambda s3, _r: k(s3, obj), where, fi=fi)


# decoding one AVP at position p of buf (spec of from_unpacker)
R.macro("d_code", ["b", "p"], "u32(b[p:p + 4])")
R.macro("d_fl", ["b", "p"], "u32(b[p + 4:p + 8])")
R.macro("d_flags", ["b", "p"], "d_fl(b, p) // 2**24")
R.macro("d_len", ["b", "p"], "d_fl(b, p) % 2**24")
R.macro("d_hasv", ["b", "p"], "bit7(d_flags(b, p)) == 1")
R.macro("d_hdr", ["b", "p"], "ite(d_hasv(b, p), 12, 8)")
R.macro("d_vendor", ["b", "p"], "ite(d_hasv(b, p), u32(b[p + 8:p + 12]), 0)")
R.macro("d_plen", ["b", "p"], "ite(d_len(b, p) - d_hdr(b, p) > 0, d_len(b, p) - d_hdr(b, p), 0)")
R.macro("d_payload", ["b", "p"], "b[p + d_hdr(b, p):p + d_hdr(b, p) + d_plen(b, p)]")
R.macro("d_end", ["b", "p"], "p + d_hdr(b, p) + (d_plen(b, p) + 3) // 4 * 4")

R.macro("avp_at_layout", ["a", "b", "p"],
        "a.code == d_code(b, p) and a._vendor_id == d_vendor(b, p) and a.payload == d_payload(b, p) and "
        "a.flags == d_flags(b, p) - 128 * bit7(d_flags(b, p)) + ite(a._vendor_id != 0, 128, 0)")


def _avp_at_term(ex, st, a, b, p):
    from pyvc.models import _ufun
    a = ex.unwrap(a)
    f = [ex.read_field(st, a, n) for n in ("code", "_vendor_id", "flags", "payload")]
    return _ufun(ex, "avp_at_wire", [INT, INT, INT, "(Seq Int)", "(Seq Int)", INT], "Bool",
                 f[0].t, f[1].t, f[2].t, f[3].t, ex.unwrap(b).t, ex.num(p))


@R.specfn("avp_at")
def _avp_at(ex, st, a, b, p):
    """AVP object `a` carries exactly the code, vendor id, flags (V normalised) and payload that the RFC 6733 layout
    functions d_* read at offset p of buffer b.  Kept as an uninterpreted predicate of the four field values, the
    buffer and the offset; its defining equation (avp_at_layout) is instantiated where it is established
    (Avp.from_unpacker) - this keeps the layout arithmetic out of the loop and postcondition queries."""
    return VBool(_avp_at_term(ex, st, a, b, p))


@R.specfn("avp_at_def")
def _avp_at_def(ex, st, a, b, p):
    from pyvc.speceval import SpecEnv
    body = ex.spec_bool(SpecEnv(st, {"a": a, "b": b, "p": p}), "avp_at_layout(a, b, p)")
    return VBool(Eq(_avp_at_term(ex, st, a, b, p), body))
@R.specfn("wf_at")
def _wf_at(ex, st, b, p):
    """abstract name of wf_avp_at(b, p) (the AVP at offset p of b is well-formed); defining equation: wf_at_def"""
    from pyvc.models import _ufun
    return VBool(_ufun(ex, "wf_at", ["(Seq Int)", INT], "Bool", ex.unwrap(b).t, ex.num(p)))


@R.specfn("wf_at_def")
def _wf_at_def(ex, st, b, p):
    from pyvc.models import _ufun
    from pyvc.speceval import SpecEnv
    body = ex.spec_bool(SpecEnv(st, {"b": b, "p": p}), "wf_avp_at(b, p)")
    return VBool(Eq(_ufun(ex, "wf_at", ["(Seq Int)", INT], "Bool", ex.unwrap(b).t, ex.num(p)), body))


def _avp_bytes_term(ex, st, a, b, p, q):
    from pyvc.models import _ufun
    a = ex.unwrap(a)
    f = [ex.read_field(st, a, n) for n in ("code", "_vendor_id", "flags", "payload")]
    return _ufun(ex, "avp_bytes_at", [INT, INT, INT, "(Seq Int)", "(Seq Int)", INT, INT], "Bool",
                 f[0].t, f[1].t, f[2].t, f[3].t, ex.unwrap(b).t, ex.num(p), ex.num(q))


@R.specfn("avp_bytes_at")
def _avp_bytes_at(ex, st, a, b, p, q):
    """the RFC 6733 encoding avp_wire(code, flags, vendor, payload) of AVP object `a` equals the bytes b[p:q]; kept as an
    uninterpreted predicate of the four field values, b, p, q - its defining equation is instantiated where it is
    established (Avp.from_unpacker) and where it is used (lemma decoded-list-re-encodes)"""
    return VBool(_avp_bytes_term(ex, st, a, b, p, q))


@R.specfn("avp_bytes_at_def")
def _avp_bytes_at_def(ex, st, a, b, p, q):
    from pyvc.speceval import SpecEnv
    body = ex.spec_bool(SpecEnv(st, {"a": a, "b": b, "p": p, "q": q}),
                        "avp_wire(a.code, a.flags, a._vendor_id, a.payload) == b[p:q]")
    return VBool(Eq(_avp_bytes_term(ex, st, a, b, p, q), body))


@R.specfn("avp_reencode_lemma")
def _avp_reencode_lemma(ex, st, b, p):
    """instance of the proved lemma `avp-reencode` at (b, p)"""
    from pyvc.speceval import SpecEnv
    return VBool(ex.spec_bool(SpecEnv(st, {"b": b, "p": p}), "implies(wf_avp_at(b, p), reenc_at(b, p))"))


R.contract("Avp.from_unpacker", params={"unpacker": "Unpacker"}, returns="Avp",
           requires=["upos(unpacker) >= 0"],
           ensures=[("code", "result.code == d_code(ubuf(unpacker), old(upos(unpacker)))"),
                    ("vendor", "result._vendor_id == d_vendor(ubuf(unpacker), old(upos(unpacker)))"),
                    ("flags", "result.flags == d_flags(ubuf(unpacker), old(upos(unpacker))) "
                              "- 128 * bit7(d_flags(ubuf(unpacker), old(upos(unpacker)))) "
                              "+ ite(result._vendor_id != 0, 128, 0)"),
                    ("payload", "result.payload == d_payload(ubuf(unpacker), old(upos(unpacker)))"),
                    ("position", "upos(unpacker) == d_end(ubuf(unpacker), old(upos(unpacker)))"),
                    ("identical-to-the-wire", "avp_at(result, ubuf(unpacker), old(upos(unpacker)))"),
                    ("a-well-formed-avp-re-encodes-to-its-bytes",
                     "implies(wf_at(ubuf(unpacker), old(upos(unpacker))), "
                     "avp_bytes_at(result, ubuf(unpacker), old(upos(unpacker)), upos(unpacker)))"),
                    ("progress", "upos(unpacker) >= old(upos(unpacker)) + 8"),
                    ("in-buffer", "upos(unpacker) <= len(ubuf(unpacker))"),
                    ("type", "ite(dict_known(result.code, result._vendor_id), "
                             "avp_class_ok(dict_entry(result.code, result._vendor_id).type), type_is(result, Avp))"),
                    ("name", "result.name == ite(dict_known(result.code, result._vendor_id) and "
                             "dict_entry(result.code, result._vendor_id).name != '', "
                             "dict_entry(result.code, result._vendor_id).name, 'Unknown')")],
           raises=[Raise("ConversionError",
                         "d_end(ubuf(unpacker), upos(unpacker)) > len(ubuf(unpacker)) or "
                         "upos(unpacker) + 8 > len(ubuf(unpacker)) or "
                         "upos(unpacker) + d_hdr(ubuf(unpacker), upos(unpacker)) > len(ubuf(unpacker))", "iff")],
           hints_for={"identical-to-the-wire": ["avp_at_def(result, ubuf(unpacker), old(upos(unpacker)))"],
                      "a-well-formed-avp-re-encodes-to-its-bytes": [
                          "avp_reencode_lemma(ubuf(unpacker), old(upos(unpacker)))",
                          "avp_bytes_at_def(result, ubuf(unpacker), old(upos(unpacker)), upos(unpacker))",
                          "wf_at_def(ubuf(unpacker), old(upos(unpacker)))"]},
           modifies=["unpacker._Unpacker__pos"], allocates=True, props=["C01", "C04", "C02"])

R.contract("Avp.from_bytes", params={"avp_data": "bytes"}, returns="Avp",
           ensures=[("code", "result.code == d_code(avp_data, 0)"),
                    ("vendor", "result._vendor_id == d_vendor(avp_data, 0)"),
                    ("flags", "result.flags == d_flags(avp_data, 0) - 128 * bit7(d_flags(avp_data, 0)) "
                              "+ ite(result._vendor_id != 0, 128, 0)"),
                    ("payload", "result.payload == d_payload(avp_data, 0)")],
           raises=[Raise("AvpDecodeError",
                         "d_end(avp_data, 0) > len(avp_data) or 8 > len(avp_data) or d_hdr(avp_data, 0) > len(avp_data)",
                         "iff")],
           allocates=True, props=["C01", "C04"])

R.contract("Avp._flags", params={"self": "Avp"}, returns="List[str]", props=["C04"],
           note="raises nothing")
R.contract("Avp.__str__", params={"self": "Avp"}, returns="str", modifies=["self._avps"], props=["C04"],
           requires=["len(self.payload) >= 0"],
           note="rendering any AVP never raises (the value getter may only raise AvpDecodeError, which is caught)")

# Avp.new without a value: flags as requested, dictionary default for M
R.macro("new_m", ["e", "m"], "ite(is_none(m), ite(is_none(e.mandatory), False, some(e.mandatory)), some(m))")
R.contract("Avp.new#novalue",
           params={"avp_code": "int", "vendor_id": "int", "value": "None", "is_mandatory": "Opt[bool]",
                   "is_private": "Opt[bool]"},
           returns="Avp",
           ensures=[("fields", "result.code == avp_code and result._vendor_id == vendor_id and result.payload == b'' "
                               "and result.name == dict_entry(avp_code, vendor_id).name"),
                    ("flags", "result.flags == ite(vendor_id != 0, 128, 0) "
                              "+ ite(new_m(dict_entry(avp_code, vendor_id), is_mandatory), 64, 0) "
                              "+ ite(is_none(is_private), 0, ite(some(is_private), 32, 0))"),
                    ("type", "avp_class_ok(dict_entry(avp_code, vendor_id).type)")],
           raises=[Raise("ValueError", "not dict_known(avp_code, vendor_id)", "iff")],
           allocates=True, props=["C01"])

# ---- re-encoding a decoded, well-formed AVP reproduces its bytes (pure lemma over the layout functions) ----------
R.macro("wf_avp_at", ["b", "p"],
        "0 <= p and p + 8 <= len(b) and p + d_hdr(b, p) <= len(b) and d_end(b, p) <= len(b) and "
        "d_len(b, p) >= d_hdr(b, p) and implies(d_hasv(b, p), d_vendor(b, p) != 0) and "
        "b[p + d_hdr(b, p) + d_plen(b, p):d_end(b, p)] == zeros(pad4(d_plen(b, p)))")
R.macro("reenc_at", ["b", "p"],
        "avp_wire(d_code(b, p), d_flags(b, p) - 128 * bit7(d_flags(b, p)) + ite(d_vendor(b, p) != 0, 128, 0), "
        "d_vendor(b, p), d_payload(b, p)) == b[p:d_end(b, p)]")
R.lemma_ob("avp-reencode", vars={"b": "bytes", "p": "int"},
           assumes=[("well-formed-avp", "wf_avp_at(b, p)")],
           shows=[("bytes-reproduced", "reenc_at(b, p)")],
           props=["C01", "C02"],
           note="a well-formed AVP (length field covers its header, V flag iff a non-zero vendor id, zero padding) decoded by the "
                "layout functions and encoded by avp_wire gives back exactly its bytes")
