"""C18: graceful shutdown (safety clauses)."""
from pyvc.spec import REG as R, Raise
from . import node, c13, c15  # noqa
from .node import READY, READY_WAITING_DWA, DISCONNECTING, CLOSING, CLOSED, R_CLEAN

R.model("Application", fields={"g_stopped": "bool"})
R.contract("Application.stop", trusted=True, params={"self": "Application"},
           ghost_modifies=["self.g_stopped"], ghost_ensures=["self.g_stopped"], modifies=["*Event.flag"],
           note="behavioural contract of the polymorphic stop(): the application is stopped (ghost flag)")
R.contract("StoppableThread.join", trusted=True, params={"self": "StoppableThread", "timeout": "Opt[int]"},
           modifies=["*PeerConnection.state", "*Socket.closed"],
           note="environment step: while joining, the I/O thread closes connections")


@R.specfn("dict_size")
def _dict_size(ex, st, d):
    from pyvc.values import VInt
    from pyvc.smt import INT, app, Le, I
    ex.decls.fun("dict_size", [INT, INT], INT)
    stamp = ex.decls.fresh("dsz", INT)
    st.pc.append(Le(I(0), stamp))
    return VInt(stamp)


R.contract("Node.stop", params={"self": "Node", "wait_timeout": "int", "force": "bool"},
           ghost={"kc": "str", "a": "Application", "s": "Socket"},
           requires=[("generators-in-range", "seq_ok(self.end_to_end_seq)"),
                     ("identity-encodable", "encodable(self.origin_host) and encodable(self.realm_name)")],
           ensures=[("marks-stopping", "self._stopping"),
                    ("forced-stop-sends-nothing",
                     "implies(force and kc in old(self.connections), "
                     "items(out(old(self.connections[kc]))) == old(items(out(self.connections[kc]))))"),
                    ("listening-sockets-closed", "implies(s in old(items(self.tcp_sockets)) or s in old(items(self.sctp_sockets)), s.closed)"),
                    ("applications-stopped", "implies(a in old(items(self.applications)), a.g_stopped)"),
                    ("io-threads-told-to-stop", "self._connection_thread.stopped and self._stat_collect_thread.stopped")],
           raises=[Raise("RuntimeError", "not self._started or self._stopping", "iff")],
           ensures_exc={"RuntimeError": [("refused-stop-changes-nothing", "self._stopping == old(self._stopping)")]},
           ghost_modifies=["*MsgQueue.g_put", "*Application.g_stopped"],
           modifies=["self._stopping", "*PeerConnection.state", "*SequenceGenerator._sequence", "*StoppableThread.stopped",
                     "*Socket.closed", "*Event.flag", "dict:self.connections"],
           props=["C18", "C12"])
@R.specfn("own_generator")
def _own_generator(ex, st, node, conn):
    """ownership instance: a connection's hop-by-hop generator is created in PeerConnection.__init__ and is never the
    node's end-to-end generator"""
    from pyvc.speceval import SpecEnv
    from pyvc.values import VBool
    return VBool(ex.spec_bool(SpecEnv(st, {"n": ex.unwrap(node), "c": ex.unwrap(conn)}), "c.hop_by_hop_seq != n.end_to_end_seq"))


R.assume("ownership: PeerConnection.hop_by_hop_seq objects are distinct from Node.end_to_end_seq (created in their constructors)")
R.loop("Node.stop", 0,       # for conn in self.connections.values(): DPR to the ready ones
       invariants=[("stopping", "self._stopping and not force"),
                   ("gen", "seq_ok(self.end_to_end_seq)")],
       step=[("dpr-exactly-to-ready-connections",
              "ite(prev(conn.state) == %d or prev(conn.state) == %d, "
              "len(out(conn)) == prev(len(out(conn))) + 1 and type_is(items(out(conn))[prev(len(out(conn)))], DisconnectPeerRequest) "
              "and items(out(conn))[prev(len(out(conn)))].disconnect_cause == 0 and conn.state == %d, "
              "items(out(conn)) == prev(items(out(conn))) and conn.state == prev(conn.state))" % (READY, READY_WAITING_DWA, DISCONNECTING))],
       hints=["own_generator(self, self.connections[cur])"],
       modifies=["*MsgQueue.g_put", "*PeerConnection.state", "*SequenceGenerator._sequence"])
R.loop("Node.stop", 1,       # wait loop: the I/O thread removes connections meanwhile (environment)
       invariants=[("stopping", "self._stopping and not force"),
                   ("deadline-is-the-start-of-the-wait-plus-the-timeout", "wait_until >= old(clock()) + wait_timeout")],
       step_brk=[("the-wait-is-abandoned-only-at-the-deadline", "clock() >= old(clock()) + wait_timeout")],
       modifies=["dict:self.connections", "*PeerConnection.state", "*Socket.closed"],
       local_kinds={"abort_wait": "bool"})
R.loop("Node.stop", 2, invariants=[("t", "True")])
R.loop("Node.stop", 3,
       invariants=[("closed-so-far", "implies(s in done, s.closed)"), ("stopping", "self._stopping"),
                   ("threads", "self._connection_thread.stopped and self._stat_collect_thread.stopped"),
                   ("monotone", "implies(old(s.closed), s.closed) or True")],
       modifies=["*Socket.closed"])
R.loop("Node.stop", 4,
       invariants=[("closed-so-far", "implies(s in done, s.closed)"), ("tcp-stay-closed", "implies(s in old(items(self.tcp_sockets)), s.closed)"),
                   ("stopping", "self._stopping"),
                   ("threads", "self._connection_thread.stopped and self._stat_collect_thread.stopped")],
       modifies=["*Socket.closed"])
R.loop("Node.stop", 5,
       invariants=[("stopped-so-far", "implies(a in done, a.g_stopped)"),
                   ("sockets-stay-closed", "implies(s in old(items(self.tcp_sockets)) or s in old(items(self.sctp_sockets)), s.closed)"),
                   ("stopping", "self._stopping"),
                   ("threads", "self._connection_thread.stopped and self._stat_collect_thread.stopped")],
       modifies=["*Application.g_stopped", "*Event.flag"])

from pyvc.spec import Clause as _Clause
_sl = R.contracts["Node._handle_connections@for:wsock"]
_sl.ensures.append(_Clause("closing-connection-is-closed-only-after-its-output-is-flushed",
    "implies(old(wconn(self, wsock)).g_close_calls == old(wconn(self, wsock).g_close_calls) + 1 and "
    "old(wconn(self, wsock)).g_close_reason == %d, len(old(wconn(self, wsock))._write_buffer) == 0)" % R_CLEAN))
_sl.ensures.append(_Clause("clean-close-only-after-the-dpa",
    "implies(old(wconn(self, wsock)).g_close_calls == old(wconn(self, wsock).g_close_calls) + 1 and "
    "old(wconn(self, wsock)).g_close_reason == %d, old(wconn(self, wsock).state) == %d)" % (R_CLEAN, CLOSING)))
_sl.ensures.append(_Clause("a-closing-connection-whose-output-is-flushed-is-released",
    "implies(old(wsock.fd in self.socket_peers) and old(wconn(self, wsock).state) == %d and "
    "len(old(wconn(self, wsock))._write_buffer) == 0, "
    "old(wconn(self, wsock)).g_close_calls == old(wconn(self, wsock).g_close_calls) + 1 and "
    "old(wconn(self, wsock)).g_close_reason == %d and in_no_table(self, old(wconn(self, wsock))))" % (CLOSING, R_CLEAN)))
for _p in ("C18", "C06"):
    if _p not in _sl.props:
        _sl.props.append(_p)
# the interrupt-pipe case: a connection that asks for attention while CLOSING is released only once its output is flushed
_il = R.contracts["Node._handle_connections@for:rsock#interrupt"]
_il.ensures.append(_Clause("a-closing-connection-with-pending-output-is-not-released-yet",
    "implies(not is_none(c) and old(some(c).state) == %d and old(len(some(c)._write_buffer)) > 0, "
    "some(c).g_close_calls == old(some(c).g_close_calls))" % CLOSING))
_il.ensures.append(_Clause("a-closing-connection-without-pending-output-is-released",
    "implies(not is_none(c) and old(some(c).state) == %d and old(len(some(c)._write_buffer)) == 0, "
    "some(c).g_close_calls == old(some(c).g_close_calls) + 1 and some(c).g_close_reason == %d and "
    "in_no_table(self, some(c)))" % (CLOSING, R_CLEAN)))




# ---- the stop branch at the top of the I/O loop: `if _thread.is_stopped:` (slice, extracted mechanically) ----------------
_STOP_MODS = ["*PeerConnection.state", "*StoppableThread.stopped", "*Socket.closed", "*Peer.connection", "*Peer.last_connect",
              "*Peer.last_disconnect", "*Peer.disconnect_reason", "dict:self.connections", "dict:self.peer_sockets",
              "dict:self.socket_peers", "dict:self._half_ready_connections", "dict:self._peer_waiting_answer", "*Event.flag",
              "*list:Peer"]
_STOP_GHOST = ["*PeerConnection.g_close_calls", "*PeerConnection.g_close_reason", "*PeerConnection.g_attn"]
R.contract("Node._handle_connections@if:_thread.is_stopped", params={"self": "Node", "_thread": "StoppableThread"},
           ghost={"kc2": "str"},
           ensures=[("every-registered-connection-is-closed-and-released",
                     "implies(old(kc2 in self.connections), old(self.connections[kc2]).state == %d and "
                     "old(self.connections[kc2]).g_close_calls > old(self.connections[kc2].g_close_calls) and "
                     "not (kc2 in self.connections))" % CLOSED)],
           raises=[],
           modifies=_STOP_MODS, ghost_modifies=_STOP_GHOST, props=["C18", "C14"],
           note="the shutdown step of the I/O thread: every connection registered when the stop flag is seen goes through "
                "close_connection_socket and close(); nothing escapes - in particular the table is not iterated while it is "
                "being emptied (iteration over a live dictionary view whose key set changes raises RuntimeError)")
R.loop("Node._handle_connections@if:_thread.is_stopped", 0,
       invariants=[("closed-so-far", "implies(kc2 in done and old(kc2 in self.connections), old(self.connections[kc2]).state == %d)" % CLOSED),
                   ("counted-so-far", "implies(kc2 in done and old(kc2 in self.connections), "
                                      "old(self.connections[kc2]).g_close_calls > old(self.connections[kc2].g_close_calls))"),
                   ("monotone", "implies(old(kc2 in self.connections), "
                                "old(self.connections[kc2]).g_close_calls >= old(self.connections[kc2].g_close_calls))"),
                   ("released-so-far", "implies(kc2 in done, not (kc2 in self.connections))"),
                   ("nothing-is-added", "implies(kc2 in self.connections, old(kc2 in self.connections) and "
                                        "self.connections[kc2] == old(self.connections[kc2]))")],
       hints=["conn_keyed_by_ident_old(self, cur)"],
       modifies=_STOP_MODS + _STOP_GHOST)


@R.specfn("conn_keyed_by_ident_old")
def _conn_keyed_old(ex, st, n, k):
    """instance, for the visited key, of the table invariant `connections[k].ident == k` in the ENTRY state"""
    from pyvc.speceval import SpecEnv
    from .node import _VB
    es = ex.entry_state
    return _VB(ex.spec_bool(SpecEnv(es, {"n": ex.unwrap(n), "k": ex.unwrap(k)}),
                            "implies(k in n.connections, n.connections[k].ident == k)"))

# ---- stopping an application: both consumer threads are told to stop, blocked senders are woken ---------------------------
R.contract("ThreadingApplication.stop", params={"self": "ThreadingApplication"},
           ensures=[("both-consumer-threads-told-to-stop",
                     "self._resp_queue_consumer.stopped and self._recv_queue_consumer.stopped"),
                    ("base-class-stop-runs", "self.g_stopped")],
           ghost_modifies=["*Application.g_stopped"],
           modifies=["self._resp_queue_consumer.stopped", "self._recv_queue_consumer.stopped", "*Event.flag",
                     "*PeerConnection.state", "*Socket.closed"],
           props=["C18"],
           note="the threading application stops its request consumer and its answer consumer before it waits for them "
                "(join is an environment step) and then runs the base class' stop")
R.contract("Application.stop#base", params={"self": "Application"}, ghost={"hb": "int"},
           ensures=[("every-blocked-sender-is-woken",
                     "implies(hb in self._answer_waiting, self._answer_waiting[hb].event.flag)")],
           raises=[], modifies=["*Event.flag"], props=["C18"],
           note="the base class' stop: every caller blocked in send_request is released (it then returns without an answer)")
R.loop("Application.stop", 0,
       invariants=[("woken-so-far", "implies(hb in done, self._answer_waiting[hb].event.flag)")],
       modifies=["*Event.flag"])
