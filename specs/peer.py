"""Contracts for diameter/node/peer.py: framing loop (C05), gate (C06), writer (C15), timers (C11)."""
from pyvc.spec import REG as R, Raise
from . import node_model  # noqa

PEER_RECV, PEER_SEND = 0x01, 0x02
CONNECTING, CONNECTED, READY, READY_WAITING_DWA, DISCONNECTING, CLOSING, CLOSED = 0x10, 0x11, 0x12, 0x13, 0x1a, 0x1b, 0x1c

R.model("BytesQueue", builtin=True, fields={"g_n": "int"})
R.model("MsgQueue", builtin=True, fields={"g_put": "Seq[Message]", "g_taken": "Seq[Message]"})
R.model("PeerConnection", fields={"_read_buffer_queue": "BytesQueue", "_write_msg_queue": "MsgQueue",
                                  "g_dlog": "Seq[Message]", "message_handler": "Any:handler"})
R.model("Message", fields={"g_src": "bytes"})
R.contract("BytesQueue.get", trusted=True, params={"self": "BytesQueue", "block": "bool", "timeout": "int"},
           returns="bytes", raises=[Raise("queue.Empty", "True", "may")],
           ghost_modifies=["self.g_n"], ghost_ensures=["self.g_n == old(self.g_n) + 1"],
           ensures_exc={"queue.Empty": ["self.g_n == old(self.g_n)"]},
           note="environment input: an arbitrary chunk of received bytes, or a timeout; g_n counts the chunks handed out")
R.contract("BytesQueue.put", trusted=True, params={"self": "BytesQueue", "item": "bytes"})
R.contract("MsgQueue.get", trusted=True, params={"self": "MsgQueue", "block": "bool", "timeout": "int"},
           returns="Message", raises=[Raise("queue.Empty", "True", "may")],
           ghost_modifies=["self.g_taken"],
           ghost_ensures=["items(self.g_taken) == old(items(self.g_taken)) + [result]"],
           ensures_exc={"queue.Empty": ["self.g_taken == old(self.g_taken)"]})
R.contract("MsgQueue.put", trusted=True, params={"self": "MsgQueue", "item": "Message"},
           ghost_modifies=["self.g_put"],
           ghost_ensures=["items(self.g_put) == old(items(self.g_put)) + [item]"])

# Message.from_bytes: ghost source bytes of a decoded message
R.contracts["Message.from_bytes"].ghost_ensures += R.contracts["Message.from_bytes"].ghost_ensures.__class__(
    [type(R.contracts["Message.from_bytes"].ensures[0])("ghost-src", "result.g_src == msg_data")])

R.inline_fn("PeerConnection.is_receiver", "PeerConnection.is_sender", "PeerConnection.is_waiting_for_dwa",
            "PeerConnection.write_buffer")
R.contract("PeerConnection.reset_last_read", params={"self": "PeerConnection"},
           ensures=[("stamp", "self._last_read >= int(old(clock()))")], modifies=["self._last_read"], props=["C05", "C11"])
R.contract("PeerConnection.reset_last_message", params={"self": "PeerConnection"},
           modifies=["self._last_msg"], props=["C05"])
R.model("PeerConnection", fields={"g_attn": "int"})
R.contract("PeerConnection.demand_attention", trusted=True, params={"self": "PeerConnection"},
           raises=[], ghost_modifies=["self.g_attn"], ghost_ensures=["self.g_attn == old(self.g_attn) + 1"],
           note="os.write to the node's interrupt pipe: assumed not to raise while the node lives; g_attn counts the signals")
R.contract("PeerConnection.close", params={"self": "PeerConnection", "signal_node": "bool"},
           ensures=[("closed", f"self.state == {CLOSED}"),
                    ("workers-stopped", "self._read_thread.stopped and self._write_thread.stopped"),
                    ("node-signalled-iff-asked", "self.g_attn == old(self.g_attn) + ite(signal_node, 1, 0)")],
           ghost_modifies=["self.g_attn"],
           modifies=["self.state", "self._read_thread.stopped", "self._write_thread.stopped"],
           props=["C05", "C19", "C09", "C13"])

R.model("PeerConnection", fields={"g_handled": "Seq[Message]"})


@R.specfn("call_opaque_handler")
def _call_handler(ex, st, f, args, kwargs, k, where):
    """conn.message_handler(conn, msg): every invocation is logged (ghost); the handler (Node._receive_message,
    verified separately) raises nothing"""
    from pyvc.smt import seq_concat, seq_unit
    conn, msg = args
    log = ex.read_field(st, conn, "g_handled")
    st = ex.write_field(st, conn, "g_handled", type(log)(seq_concat(log.t, seq_unit(msg.t)), log.elem))
    return k(st, __import__("pyvc.values", fromlist=["VNone"]).VNone)



# the dispatcher as seen by the framing loop: every call is a delivery (ghost log); what the handler does to the
# node is irrelevant here except that it leaves the read buffer alone and does not raise (C14 proves the latter
# for Node._receive_message)
_HANDLER_MODS = ["*Avp._avps", "*PeerConnection.state", "*PeerConnection._last_dwr", "*PeerConnection.host_identity",
                 "*PeerConnection.node_name", "*PeerConnection.origin_host", "*PeerConnection.auth_application_ids",
                 "*PeerConnection.acct_application_ids", "*PeerConnection.host_ip_address"]
R.contract("PeerConnection.__dispatch_message", params={"self": "PeerConnection", "msg": "Message"},
           modifies=_HANDLER_MODS,
           ghost_modifies=["self.g_dlog"],
           ghost_ensures=["items(self.g_dlog) == old(items(self.g_dlog)) + [msg]"],
           checks_only=True,
           note="used by work_read_queue; its own gate contract is in C06")

R.macro("rb", ["c"], "c._read_buffer")
R.macro("hlen", ["b"], "u32(b[0:4]) % 2**24")
R.contract("PeerConnection.work_read_queue", params={"self": "PeerConnection", "_thread": "StoppableThread"},
           requires=[("starts-empty", "rb(self) == b''")],
           raises=[], modifies=["self._read_buffer", "self._last_read", "self._last_msg", "self.state",
                                "self._read_thread.stopped", "self._write_thread.stopped"] + _HANDLER_MODS,
           ghost_modifies=["self.g_dlog", "self._read_buffer_queue.g_n", "self.g_attn"],
           props=["C05", "C14", "C07", "C11", "C08"],
           note="thread target: raises nothing; the framing obligations are the loop clauses below")
R.macro("stuck", ["b"], "len(b) < 20 or hlen(b) > len(b)")
R.loop("PeerConnection.work_read_queue", 0,
       invariants=[("no-complete-frame-left-waiting", "stuck(rb(self)) or self.state == %d" % CLOSED)],
       step_back=[("a-stopped-reader-leaves-at-its-next-iteration", "not prev(_thread.stopped)")],
       local_kinds={"resume_waiting": "bool", "message": "Opt[Message]", "msg_header": "Opt[MessageHeader]"},
       step=[("every-received-chunk-restarts-the-idle-timer",
              "implies(self._read_buffer_queue.g_n > prev(self._read_buffer_queue.g_n), "
              "self._last_read >= int(prev(clock())))")],
       modifies=["self._read_buffer", "self._last_read", "self._last_msg", "self.g_dlog", "self._read_buffer_queue.g_n", "self.g_attn"] + _HANDLER_MODS)
R.loop("PeerConnection.work_read_queue", 1,
       invariants=[("waiting-only-when-stuck", "implies(resume_waiting, stuck(rb(self)))")],
       local_kinds={"message": "Opt[Message]", "msg_header": "Opt[MessageHeader]"},
       step_ret=[("gives-up-only-on-impossible-length",
                  "len(prev(rb(self))) >= 20 and hlen(prev(rb(self))) < 20 and self.state == %d" % CLOSED)],
       decreases="ite(resume_waiting, 0, 1 + len(rb(self)))",
       step=[("wait-leaves-buffer", "implies(hlen(prev(rb(self))) > len(prev(rb(self))), "
                                    "rb(self) == prev(rb(self)) and resume_waiting and "
                                    "items(self.g_dlog) == prev(items(self.g_dlog)))"),
             ("consumes-exactly-one-frame", "implies(20 <= hlen(prev(rb(self))) <= len(prev(rb(self))), "
                                            "rb(self) == prev(rb(self))[hlen(prev(rb(self))):])"),
             ("at-most-one-delivery", "len(self.g_dlog) <= prev(len(self.g_dlog)) + 1 and "
                                      "len(self.g_dlog) >= prev(len(self.g_dlog))"),
             ("delivered-is-the-frame", "implies(len(self.g_dlog) == prev(len(self.g_dlog)) + 1, "
                                        "items(self.g_dlog)[len(self.g_dlog) - 1].g_src == "
                                        "prev(rb(self))[:hlen(prev(rb(self)))] and "
                                        "20 <= hlen(prev(rb(self))) <= len(prev(rb(self))))")],
       modifies=["self._read_buffer", "self._last_msg", "self.g_dlog", "self.g_attn"] + _HANDLER_MODS)
