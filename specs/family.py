"""Generated contract family: one contract per __post_init__ override of the command classes, derived mechanically
from the class table of the real source on every run (C02/C03/C20: refinement of the behavioural contract
Message.__post_init__; C11/C18: the R bit of the messages the node builds itself)."""
import ast

from pyvc.spec import REG as R, Raise
from pyvc.front import Program
from . import node_model  # noqa

R.inline_ctor.add("Message.__init__")
_prog = Program(only_modules=["diameter.message"])


def _literal_kind(node):
    if isinstance(node, ast.Constant) and isinstance(node.value, bool):
        return "Opt[bool]"
    if isinstance(node, ast.Constant) and isinstance(node.value, int):
        return "Opt[Any]"
    if isinstance(node, ast.List):
        return "Opt[List[Any]]"
    return "Opt[Any]"


R.contract("assign_attr_from_defs", trusted=True, params={"obj": "Message", "avp_list": "List[Avp]"},
           raises=[Raise("AvpDecodeError", "len(avp_list) > 0", "only_if")],
           modifies=["dyn:obj if len(avp_list) > 0", "*list:Any if len(avp_list) > 0", "*Avp._avps if len(avp_list) > 0"],
           note="ASSUMED (C03 describes it): populates the declared attributes from the AVP list; raises only AvpDecodeError "
                "(from a grouped AVP whose payload is malformed) and only if there are AVPs")
R.assume("assumed contract: assign_attr_from_defs (attribute population; only its frame and raises clause are used)")

_msg = _prog.cls("Message")
FAMILY = []
for ci in [_msg] + _msg.all_subclasses():
    fi = ci.methods.get("__post_init__")
    if fi is None or ci.name in ("Message",):
        continue
    # declare the dynamic attributes this body sets with setattr(self, "<name>", <literal>) or self.<name> = ...
    dyn = {}
    for n in ast.walk(fi.node):
        if isinstance(n, ast.Call) and isinstance(n.func, ast.Name) and n.func.id == "setattr" and len(n.args) == 3 \
                and isinstance(n.args[1], ast.Constant) and isinstance(n.args[1].value, str):
            dyn[n.args[1].value] = _literal_kind(n.args[2])
    known = R.models["Message"].dynamic if "Message" in R.models else {}
    R.model("Message", dynamic={k: v for k, v in dyn.items() if k not in known and k not in R.models["Message"].fields})
    if ci.name in ("DefinedMessage", "UndefinedMessage"):
        continue
    ens = []
    code = None
    for c in ci.mro():
        if "code" in c.consts and isinstance(c.consts["code"], ast.Constant):
            code = c.consts["code"].value
            break
    if code is not None:
        ens.append(("sets-command-code", f"self.header.command_code == {code}"))
    if ci.name.endswith("Request"):
        ens.append(("request-bit-set", "bit7(self.header.command_flags) == 1"))
    elif ci.name.endswith("Answer"):
        ens.append(("request-bit-clear", "bit7(self.header.command_flags) == 0"))
    ens.append(("flags-stay-an-octet", "0 <= self.header.command_flags < 256"))
    ens.append(("avps-kept-or-consumed", "len(self._avps) == 0 or (self._avps == old(self._avps) and "
                                         "items(self._avps) == old(items(self._avps)))"))
    name = f"{ci.name}.__post_init__"
    R.contract(name, params={"self": ci.name},
               requires=[("flags-octet", "0 <= self.header.command_flags < 256")],
               ensures=ens,
               raises=[Raise("AvpDecodeError", "len(self._avps) > 0", "only_if")],
               modifies=["self.header.command_code", "self.header.command_flags", "self._avps", "dyn:self",
                         "*list:Any if len(self._avps) > 0", "*Avp._avps if len(self._avps) > 0"],
               props=["C02", "C20", "C11", "C18", "C03"],
               note="generated: refines the behavioural contract Message.__post_init__ (frame: header code/flags, AVP list, "
                    "own attributes only)")
    FAMILY.append(name)

R.contract("DefinedMessage.__post_init__", params={"self": "DefinedMessage"},
           modifies=["self._additional_avps"], props=["C02", "C20", "C11", "C18"])

R.contract("UndefinedMessage.__post_init__", trusted=True, params={"self": "UndefinedMessage"},
           raises=[Raise("AvpDecodeError", "len(self._avps) > 0", "only_if")],
           ensures=[("header-and-avps-kept", "self.header.command_flags == old(self.header.command_flags) and "
                                             "self.header.command_code == old(self.header.command_code) and "
                                             "self._avps == old(self._avps) and items(self._avps) == old(items(self._avps))")],
           modifies=["dyn:self", "*Avp._avps"],
           note="ASSUMED (read from the code): _assign_attr_values only sets attributes named after the AVPs and reads AVP values")
R.assume("assumed contract: UndefinedMessage.__post_init__ where specs/c03.py is not loaded (it is VERIFIED against the real body, with a functional step contract for _assign_attr_values, under C03 and C04)")
