"""Contracts for diameter/node/node.py."""
from pyvc.spec import REG as R, Raise
from . import node_model, peer, helpers, c20  # noqa

CONNECTING, CONNECTED, READY, READY_WAITING_DWA, DISCONNECTING, CLOSING, CLOSED = 0x10, 0x11, 0x12, 0x13, 0x1a, 0x1b, 0x1c
R_DPR, R_SHUTDOWN, R_CLEAN, R_SOCKFAIL, R_GONE, R_FAILCONN, R_FAILCE, R_CERREJ, R_DWATO, R_UNKNOWN = \
    0x20, 0x21, 0x22, 0x30, 0x31, 0x32, 0x33, 0x34, 0x35, 0x40

R.model("PeerStats", fields={})
R.contract("PeerStats.add_received_req", trusted=True, params={"self": "PeerStats"},
           note="assumed: statistics bookkeeping raises nothing")
R.contract("PeerStats.add_processed_req_time", trusted=True,
           params={"self": "PeerStats", "req_name": "str", "req_time": "float"},
           note="assumed: statistics bookkeeping raises nothing")
R.contract("PeerStats.add_sent_result_code", trusted=True, params={"self": "PeerStats", "result_code": "Opt[int]"},
           raises=[Raise("TypeError", "is_none(result_code)", "iff")],
           note="assumed from reading the code: int(result_code / 1000) raises TypeError for None")
R.assume("assumed contracts (not verified): PeerStats.add_received_req / add_processed_req_time / add_sent_result_code")

R.macro("peer_of", ["n", "c"],
        "ite(c.node_name in n.peers, n.peers[c.node_name], ite(c.host_identity in n.peers, n.peers[c.host_identity], None))")
R.inline_fn("Node._find_connection_peer")
R.macro("out", ["c"], "c._write_msg_queue.g_put")     # ghost: every message ever queued on the connection
R.macro("is_req", ["m"], "bit7(m.header.command_flags) == 1")

R.contract("PeerConnection.add_out_msg", params={"self": "PeerConnection", "out_msg": "Message"},
           ghost_modifies=["list:self._write_msg_queue.g_put"],
           ensures=[("queued", "items(out(self)) == old(items(out(self))) + [out_msg]")],
           props=["C07", "C15"])
R.contract("Node._update_peer_counters",
           params={"self": "Node", "conn": "PeerConnection", "cer": "int", "cea": "int", "dwr": "int", "dwa": "int",
                   "dpr": "int", "dpa": "int", "app_request": "int", "app_answer": "int"},
           modifies=["*PeerCounters.cer", "*PeerCounters.cea", "*PeerCounters.dwr", "*PeerCounters.dwa",
                     "*PeerCounters.dpr", "*PeerCounters.dpa", "*PeerCounters.requests", "*PeerCounters.answers"],
           props=["C07", "C14"], note="raises nothing")

# ---- C17: retransmission window ------------------------------------------------------------------------------
R.kind_hints[("Node._record_answer", "deque")] = "Deque[int]"
R.macro("msg_key", ["m"], "fstr_hbh_e2e(m.header.hop_by_hop_identifier, m.header.end_to_end_identifier)")
R.macro("mkey", ["m"], "fstr('{}:{}', m.header.hop_by_hop_identifier, m.header.end_to_end_identifier)")
R.macro("dq_push", ["xs", "x", "ml"], "ite(ml <= 0, xs[0:0], ite(len(xs) >= ml, xs[1:] + [x], xs + [x]))")
R.macro("window", ["n", "o"], "ite(o in n._sent_answers, items(n._sent_answers[o]), items(n._sent_answers[o])[0:0])")
R.macro("dq_ok", ["d"], "len(d) <= maxlen(d) or maxlen(d) <= 0")

R.contract("Node._record_answer", params={"self": "Node", "conn": "PeerConnection", "message": "Message"},
           ghost={"o": "Opt[bytes]"},
           requires=[("window-well-formed", "implies(o in self._sent_answers, len(self._sent_answers[o]) <= maxlen(self._sent_answers[o]))"),
                     ("windows-not-shared",
                      "implies(mkey(message) in self._origin_waiting_answer and o in self._sent_answers and "
                      "self._origin_waiting_answer[mkey(message)][0] in self._sent_answers and "
                      "self._origin_waiting_answer[mkey(message)][0] != o, "
                      "self._sent_answers[o] != self._sent_answers[self._origin_waiting_answer[mkey(message)][0]])")],
           ensures=[("untracked-message-changes-nothing",
                     "implies(not old(mkey(message) in self._origin_waiting_answer), "
                     "(o in self._sent_answers) == old(o in self._sent_answers) and window(self, o) == old(window(self, o)))"),
                    ("answered-id-enters-window",
                     "implies(old(mkey(message) in self._origin_waiting_answer) and "
                     "old(self._origin_waiting_answer[mkey(message)][0]) == o, "
                     "o in self._sent_answers and window(self, o) == "
                     "old(dq_push(window(self, o), message.header.end_to_end_identifier, "
                     "ite(o in self._sent_answers, maxlen(self._sent_answers[o]), self.retransmit_queue_size))))"),
                    ("other-origins-untouched",
                     "implies(old(mkey(message) in self._origin_waiting_answer) and "
                     "old(self._origin_waiting_answer[mkey(message)][0]) != o, "
                     "(o in self._sent_answers) == old(o in self._sent_answers) and window(self, o) == old(window(self, o)))"),
                    ("pending-entry-released", "not (mkey(message) in self._origin_waiting_answer)")],
           raises=[Raise("TypeError", "mkey(message) in self._origin_waiting_answer and "
                                      "not is_none(peer_of(self, conn)) and hasattr(message, 'result_code') and "
                                      "(not has(message, 'result_code') or is_none(message.result_code))", "only_if")],
           modifies=["dict:self._sent_answers", "dict:self._origin_waiting_answer",
                     "deque:self._sent_answers[self._origin_waiting_answer[mkey(message)][0]] "
                     "if mkey(message) in self._origin_waiting_answer"],
           props=["C17", "C19"])
