"""Contracts for diameter/node/node.py."""
from pyvc.spec import REG as R, Raise
from . import node_model, peer, helpers, c20, family  # noqa

CONNECTING, CONNECTED, READY, READY_WAITING_DWA, DISCONNECTING, CLOSING, CLOSED = 0x10, 0x11, 0x12, 0x13, 0x1a, 0x1b, 0x1c
R_DPR, R_SHUTDOWN, R_CLEAN, R_SOCKFAIL, R_GONE, R_FAILCONN, R_FAILCE, R_CERREJ, R_DWATO, R_UNKNOWN = \
    0x20, 0x21, 0x22, 0x30, 0x31, 0x32, 0x33, 0x34, 0x35, 0x40

R.model("PeerStats", fields={})
R.contract("PeerStats.add_received_req", trusted=True, params={"self": "PeerStats"},
           note="assumed: statistics bookkeeping raises nothing")
R.contract("PeerStats.add_processed_req_time", trusted=True,
           params={"self": "PeerStats", "req_name": "str", "req_time": "float"},
           note="assumed: statistics bookkeeping raises nothing")
R.contract("PeerStats.add_sent_result_code", trusted=True, params={"self": "PeerStats", "result_code": "Opt[int]"},
           raises=[Raise("TypeError", "is_none(result_code)", "iff")],
           note="assumed from reading the code: int(result_code / 1000) raises TypeError for None")
R.assume("assumed contracts (not verified): PeerStats.add_received_req / add_processed_req_time / add_sent_result_code")

R.macro("peer_of", ["n", "c"],
        "ite(c.node_name in n.peers, n.peers[c.node_name], ite(c.host_identity in n.peers, n.peers[c.host_identity], None))")
R.contract("Node._find_connection_peer", params={"self": "Node", "conn": "PeerConnection"}, returns="Opt[Peer]",
           ensures=[("lookup", "result == peer_of(self, conn)")], pure=True, props=["C08", "C11", "C13"])
R.macro("out", ["c"], "c._write_msg_queue.g_put")     # ghost: every message ever queued on the connection
R.macro("is_req", ["m"], "bit7(m.header.command_flags) == 1")

R.contract("PeerConnection.add_out_msg", params={"self": "PeerConnection", "out_msg": "Message"},
           ghost_modifies=["self._write_msg_queue.g_put"],
           ensures=[("queued", "items(out(self)) == old(items(out(self))) + [out_msg]")],
           props=["C07", "C15"])
R.contract("Node._update_peer_counters",
           params={"self": "Node", "conn": "PeerConnection", "cer": "int", "cea": "int", "dwr": "int", "dwa": "int",
                   "dpr": "int", "dpa": "int", "app_request": "int", "app_answer": "int"},
           modifies=["*PeerCounters.cer", "*PeerCounters.cea", "*PeerCounters.dwr", "*PeerCounters.dwa",
                     "*PeerCounters.dpr", "*PeerCounters.dpa", "*PeerCounters.requests", "*PeerCounters.answers"],
           props=["C07", "C14"], note="raises nothing")

# ---- C17: retransmission window ------------------------------------------------------------------------------
R.kind_hints[("Node._record_answer", "deque")] = "Deque[int]"
R.macro("msg_key", ["m"], "fstr_hbh_e2e(m.header.hop_by_hop_identifier, m.header.end_to_end_identifier)")
R.macro("mkey", ["m"], "fstr('{}:{}', m.header.hop_by_hop_identifier, m.header.end_to_end_identifier)")
R.macro("dq_push", ["xs", "x", "ml"], "ite(ml == 0, xs[0:0], ite(ml > 0 and len(xs) >= ml, xs[1:] + [x], xs + [x]))")
R.macro("window", ["n", "o"], "ite(o in n._sent_answers, items(n._sent_answers[o]), items(n._sent_answers[o])[0:0])")
R.macro("dq_ok", ["d"], "maxlen(d) < 0 or len(d) <= maxlen(d)")
R.macro("win_ok", ["n", "o"], "implies(o in n._sent_answers, dq_ok(n._sent_answers[o]))")
R.macro("sa_untouched", ["n"], "unchanged(n._sent_answers) and unchanged('deque:int') and unchanged(n._origin_waiting_answer)")
R.macro("win_sep", ["n", "o", "x"], "implies(o in n._sent_answers and x in n._sent_answers and o != x, "
                                     "n._sent_answers[o] != n._sent_answers[x])")
R.macro("win_same", ["n", "o"], "(o in n._sent_answers) == old(o in n._sent_answers) and "
                                "implies(o in n._sent_answers, n._sent_answers[o] == old(n._sent_answers[o]) and "
                                "items(n._sent_answers[o]) == old(items(n._sent_answers[o])) and "
                                "maxlen(n._sent_answers[o]) == old(maxlen(n._sent_answers[o])))")

_OWA = "self._origin_waiting_answer"
_OWA_ONLY = ("(mk in OWA) == (old(mk in OWA) and not (COND and mk == mkey(message))) and "
             "implies(mk in OWA, OWA[mk][0] == old(OWA[mk][0]))").replace("OWA", _OWA)
R.contract("Node._record_answer", params={"self": "Node", "conn": "PeerConnection", "message": "Message"},
           ghost={"o": "Opt[bytes]", "mk": "str"},
           requires=[("window-well-formed", "win_ok(self, o)"),
                     ("windows-not-shared",
                      "implies(mkey(message) in self._origin_waiting_answer and o in self._sent_answers and "
                      "self._origin_waiting_answer[mkey(message)][0] in self._sent_answers and "
                      "self._origin_waiting_answer[mkey(message)][0] != o, "
                      "self._sent_answers[o] != self._sent_answers[self._origin_waiting_answer[mkey(message)][0]])")],
           ensures=[("untracked-message-changes-nothing",
                     "implies(not old(mkey(message) in self._origin_waiting_answer), "
                     "(o in self._sent_answers) == old(o in self._sent_answers) and window(self, o) == old(window(self, o)))"),
                    ("answered-id-enters-window",
                     "implies(old(mkey(message) in self._origin_waiting_answer) and "
                     "old(self._origin_waiting_answer[mkey(message)][0]) == o, "
                     "o in self._sent_answers and window(self, o) == "
                     "old(dq_push(window(self, o), message.header.end_to_end_identifier, "
                     "ite(o in self._sent_answers, maxlen(self._sent_answers[o]), self.retransmit_queue_size))))"),
                    ("other-origins-untouched",
                     "implies(old(mkey(message) in self._origin_waiting_answer) and "
                     "old(self._origin_waiting_answer[mkey(message)][0]) != o, "
                     "(o in self._sent_answers) == old(o in self._sent_answers) and window(self, o) == old(window(self, o)))"),
                    ("pending-entry-released", "not (mkey(message) in self._origin_waiting_answer)"),
                    ("only-the-answered-record-leaves-the-origin-table", _OWA_ONLY.replace("COND", "True")),
                    ("a-new-window-is-bounded-by-the-configured-size",
                     "implies(not old(o in self._sent_answers) and o in self._sent_answers, "
                     "maxlen(self._sent_answers[o]) == self.retransmit_queue_size)"),
                    ("windows-stay-well-formed", "win_ok(self, o)")],
           # raises: nothing.  Until session 7 this contract *encoded* what the code did (TypeError from the statistics call
           # for an answer without Result-Code); written from C07 ("never two answers for one request": a send that fails
           # after queueing makes the node answer 5012 as well) it is refuted on that code - genuine defect, fixed in /repo.
           modifies=["dict:self._sent_answers", "dict:self._origin_waiting_answer",
                     "deque:self._sent_answers[self._origin_waiting_answer[mkey(message)][0]] "
                     "if mkey(message) in self._origin_waiting_answer"],
           props=["C17", "C19"])

R.macro("pwa_has", ["n", "h", "x"], "h in n._peer_waiting_answer and x in n._peer_waiting_answer[h]")
_REC_TYPEERR = ("mkey(message) in self._origin_waiting_answer and not is_none(peer_of(self, conn)) and "
                "hasattr(message, 'result_code') and (not has(message, 'result_code') or is_none(message.result_code))")
R.contract("Node.send_message", params={"self": "Node", "conn": "PeerConnection", "message": "Message"},
           ghost={"o": "Opt[bytes]", "mk": "str"},
           requires=[("flags-octet", "0 <= message.header.command_flags < 256"),
                     ("window-well-formed", "implies(not is_req(message), win_ok(self, o))"),
                     ("windows-not-shared",
                      "implies(not is_req(message) and mkey(message) in self._origin_waiting_answer and o in self._sent_answers and "
                      "self._origin_waiting_answer[mkey(message)][0] in self._sent_answers and "
                      "self._origin_waiting_answer[mkey(message)][0] != o, "
                      "self._sent_answers[o] != self._sent_answers[self._origin_waiting_answer[mkey(message)][0]])")],
           ensures=[("windows-stay-well-formed", "implies(old(win_ok(self, o)), win_ok(self, o))"),
                    ("queued-once", "items(out(conn)) == old(items(out(conn))) + [message]"),
                    ("answer-releases-pending-hbh",
                     "implies(not is_req(message), not pwa_has(self, conn.host_identity, message.header.hop_by_hop_identifier))"),
                    ("answer-releases-the-origin-record", "implies(not is_req(message), not (mkey(message) in self._origin_waiting_answer))"),
                    ("only-the-answered-record-leaves-the-origin-table", _OWA_ONLY.replace("COND", "not is_req(message)")),
                    ("request-keeps-window", "implies(is_req(message), (o in self._sent_answers) == old(o in self._sent_answers) "
                                             "and window(self, o) == old(window(self, o)))"),
                    ("answered-id-enters-window",
                     "implies(not is_req(message) and old(mkey(message) in self._origin_waiting_answer) and "
                     "old(self._origin_waiting_answer[mkey(message)][0]) == o, "
                     "o in self._sent_answers and window(self, o) == "
                     "old(dq_push(window(self, o), message.header.end_to_end_identifier, "
                     "ite(o in self._sent_answers, maxlen(self._sent_answers[o]), self.retransmit_queue_size))))")],
           ghost_modifies=["conn._write_msg_queue.g_put"],
           modifies=["dict:self._sent_answers if not is_req(message)",
                     "dict:self._origin_waiting_answer if not is_req(message)",
                     "deque:self._sent_answers[self._origin_waiting_answer[mkey(message)][0]] "
                     "if not is_req(message) and mkey(message) in self._origin_waiting_answer",
                     "dict:self._peer_waiting_answer[conn.host_identity] "
                     "if not is_req(message) and conn.host_identity in self._peer_waiting_answer"],
           props=["C07", "C09", "C17", "C19"])

# ---- handlers called by _receive_message -------------------------------------------------------------------
R.model("Application", fields={"g_requests": "Seq[Message]", "g_answers": "Seq[Message]"})
R.model("FailedAvp", builtin=True, fields={})
R.contract("FailedAvp.__new__", trusted=True, params={"additional_avps": "List[Avp]"}, returns="FailedAvp", allocates=True)
R.model("Node", fields={"g_dlv_app": "Seq[Application]", "g_dlv_msg": "Seq[Message]",
                        "g_ans_app": "Seq[Application]", "g_ans_msg": "Seq[Message]",
                        "g_ho_failed": "int"})       # ghost: number of hand-overs to an application that raised
R.contract("Application.receive_request", trusted=True, params={"self": "Application", "message": "Message"},
           requires=[("registered", "not is_none(self._node)")],
           raises=[Raise("Exception", "True", "may")],
           ghost_modifies=["some(self._node).g_dlv_app", "some(self._node).g_dlv_msg", "some(self._node).g_ho_failed"],
           ghost_ensures=["items(some(self._node).g_dlv_app) == old(items(some(self._node).g_dlv_app)) + [self]",
                          "items(some(self._node).g_dlv_msg) == old(items(some(self._node).g_dlv_msg)) + [message]",
                          "some(self._node).g_ho_failed == old(some(self._node).g_ho_failed)"],
           ensures_exc={"Exception": ["items(some(self._node).g_dlv_app) == old(items(some(self._node).g_dlv_app)) + [self]",
                                      "items(some(self._node).g_dlv_msg) == old(items(some(self._node).g_dlv_msg)) + [message]",
                                      "some(self._node).g_ho_failed == old(some(self._node).g_ho_failed) + 1"]},
           note="behavioural contract of the user-facing hook: hands the request to the application (ghost log), may raise "
                "anything, transmits nothing synchronously (assumption about user handlers; ThreadingApplication only enqueues)")
R.contract("Application.receive_answer", trusted=True, params={"self": "Application", "message": "Message"},
           requires=[("registered", "not is_none(self._node)")],
           raises=[Raise("Exception", "True", "may")],
           ghost_modifies=["some(self._node).g_ans_app", "some(self._node).g_ans_msg"],
           ghost_ensures=["items(some(self._node).g_ans_app) == old(items(some(self._node).g_ans_app)) + [self]",
                          "items(some(self._node).g_ans_msg) == old(items(some(self._node).g_ans_msg)) + [message]"],
           modifies=["*WaitingMessage.answer", "*Event.flag"])
R.assume("user request/answer handlers may raise anything but transmit nothing synchronously on the node's connections")

R.contract("validate_message_avps", trusted=True, params={"msg": "Message"}, returns="List[Avp]",
           ensures=["fresh(result)"], note="C08 verifies it; here only its frame (modifies nothing) is used")

# one node-built answer to `message` queued on `conn` (and nothing else queued there)
R.macro("mirrors", ["a", "m"],
        "a.header.hop_by_hop_identifier == m.header.hop_by_hop_identifier and "
        "a.header.end_to_end_identifier == m.header.end_to_end_identifier and "
        "a.header.application_id == m.header.application_id and bit7(a.header.command_flags) == 0 and "
        "ite(is_generic_msg(a), a.header.command_code == m.header.command_code, a.header.command_code == class_code(a))")
R.macro("one_answer", ["c", "m", "rc"],
        "len(out(c)) == old(len(out(c))) + 1 and items(out(c))[0:old(len(out(c)))] == old(items(out(c))) and "
        "mirrors(items(out(c))[old(len(out(c)))], m) and items(out(c))[old(len(out(c)))].result_code == rc")
R.macro("nothing_sent", ["c"], "items(out(c)) == old(items(out(c)))")
_NODE_READY = [("flags-octet", "0 <= message.header.command_flags < 256"),
               ("identity-encodable", "encodable(self.origin_host) and encodable(self.realm_name)"),
               ("is-request", "is_req(message)")]
_ANSWER_MODS = ["dict:self._sent_answers", "dict:self._origin_waiting_answer", "*$deques",
                "dict:self._peer_waiting_answer[conn.host_identity] if conn.host_identity in self._peer_waiting_answer"]
_WIN_REQ = [("window-well-formed", "win_ok(self, o)"),
            ("windows-not-shared",
             "implies(mkey(message) in self._origin_waiting_answer and o in self._sent_answers and "
             "self._origin_waiting_answer[mkey(message)][0] in self._sent_answers and "
             "self._origin_waiting_answer[mkey(message)][0] != o, "
             "self._sent_answers[o] != self._sent_answers[self._origin_waiting_answer[mkey(message)][0]])")]
_ANS_MODS = ["dict:self._sent_answers", "dict:self._origin_waiting_answer",
             "deque:self._sent_answers[self._origin_waiting_answer[mkey(message)][0]] "
             "if mkey(message) in self._origin_waiting_answer",
             "dict:self._peer_waiting_answer[conn.host_identity] if conn.host_identity in self._peer_waiting_answer"]
_WIN_ENS = [("windows-stay-well-formed", "win_ok(self, o)"),
            ("origin-record-released", "not (mkey(message) in self._origin_waiting_answer)"),
            ("answered-id-enters-window",
             "implies(old(mkey(message) in self._origin_waiting_answer) and "
             "old(self._origin_waiting_answer[mkey(message)][0]) == o, "
             "o in self._sent_answers and window(self, o) == "
             "old(dq_push(window(self, o), message.header.end_to_end_identifier, "
             "ite(o in self._sent_answers, maxlen(self._sent_answers[o]), self.retransmit_queue_size))))")]

R.inline_fn("PeerConnection.reset_last_dwa", "PeerConnection.reset_last_dwr")
R.contract("Node.auth_application_ids", trusted=True, params={"self": "Node"}, returns="List[int]", allocates=True)
R.contract("Node.acct_application_ids", trusted=True, params={"self": "Node"}, returns="List[int]", allocates=True)
R.contract("Node.receive_dwr", params={"self": "Node", "conn": "PeerConnection", "message": "Message"},
           ghost={"o": "Opt[bytes]"}, requires=_NODE_READY + _WIN_REQ,
           ensures=[("one-2001-dwa", "one_answer(conn, message, 2001)"),
                    ("origin-state-id", "items(out(conn))[old(len(out(conn)))].origin_state_id == self.state_id"),
                    ("state-untouched", "conn.state == old(conn.state)")] + _WIN_ENS,
           ghost_modifies=["conn._write_msg_queue.g_put"], modifies=_ANS_MODS, props=["C07", "C11"])
R.contract("Node.receive_dpr", params={"self": "Node", "conn": "PeerConnection", "message": "Message"},
           ghost={"o": "Opt[bytes]"}, requires=_NODE_READY + _WIN_REQ,
           ensures=[("one-2001-dpa", "one_answer(conn, message, 2001)"),
                    ("no-longer-routable", "conn.state == %d" % DISCONNECTING),
                    ("reason-recorded", "implies(not is_none(old(peer_of(self, conn))), "
                                        "some(old(peer_of(self, conn))).disconnect_reason == %d)" % R_DPR)] + _WIN_ENS,
           ghost_modifies=["conn._write_msg_queue.g_put"],
           modifies=_ANS_MODS + ["conn.state", "*Peer.disconnect_reason"], props=["C07", "C12", "C09"])
R.contract("Node.receive_dwa", params={"self": "Node", "conn": "PeerConnection", "message": "Message"},
           ensures=[("ready-again", "conn.state == ite(old(conn.state) == %d, %d, old(conn.state))" % (READY_WAITING_DWA, READY)),
                    ("timer-cleared", "conn._last_dwr == 0"), ("nothing-sent", "nothing_sent(conn)")],
           modifies=["conn.state", "conn._last_dwr"], props=["C07", "C11", "C12", "C09", "C10"])
R.contract("Node.receive_dpa", params={"self": "Node", "conn": "PeerConnection", "message": "Message"},
           ensures=[("closing", "conn.state == %d" % CLOSING), ("nothing-sent", "nothing_sent(conn)"),
                    ("the-io-loop-is-woken-to-close-the-connection", "conn.g_attn == old(conn.g_attn) + 1")],
           ghost_modifies=["conn.g_attn"],
           modifies=["conn.state"], props=["C07", "C18"])

# ---- C08: request dispatch ---------------------------------------------------------------------------------
from pyvc.spec import REG as _R2
from pyvc.values import VBool as _VB
from pyvc.models import _ufun as _uf
from pyvc.smt import INT as _INT, BOOL as _BOOL


@R.specfn("is_app")
def _is_app(ex, st, tok):
    return _VB(_uf(ex, "tok_isinst", [_INT, _INT], _BOOL, ex.unwrap(tok).t, ex.class_id("Application")))


@R.specfn("as_app")
def _as_app(ex, st, tok):
    from pyvc.values import VRef
    t = ex.unwrap(tok).t
    if t.sort != _INT:
        # e.g. a hint evaluated where `cur` still names the element of an earlier loop of another kind: not applicable
        raise RuntimeError("spec name 'cur' is unbound here (element of another loop)")
    return VRef(t, "Application")


R.macro("routes", ["n", "realm"], "n._peer_routes[realm]")
R.macro("app_matches", ["n", "c", "realm", "k", "appid"],
        "k in routes(n, realm) and is_app(k) and as_app(k).application_id == appid and "
        "implies(not is_none(peer_of(n, c)), some(peer_of(n, c)) in routes(n, realm)[k])")
R.macro("app_matched_before", ["n", "c", "m", "k"], "old(app_matches(n, c, realm_of(m), k, m.header.application_id))")
R.macro("delivered_to", ["n", "a", "m"], "items(n.g_dlv_app) == old(items(n.g_dlv_app)) + [a] and items(n.g_dlv_msg) == old(items(n.g_dlv_msg)) + [m]")
R.macro("no_delivery", ["n"], "items(n.g_dlv_app) == old(items(n.g_dlv_app)) and items(n.g_dlv_msg) == old(items(n.g_dlv_msg))")
@R.specfn("app_registered")
def _app_registered(ex, st, node, tok):
    """Inv_routes instance: an Application key of the route table is registered with this node (add_application)"""
    from pyvc.smt import Implies, Eq, Not
    from pyvc.values import VRef
    a = VRef(ex.unwrap(tok).t, "Application")
    isapp = _uf(ex, "tok_isinst", [_INT, _INT], _BOOL, a.t, ex.class_id("Application"))
    nd = ex.read_field(st, a, "_node")
    return _VB(Implies(isapp, ex.values_equal(st, nd, ex.unwrap(node))))

R.macro("realm_of", ["m"], "utf8dec(some(m.destination_realm))")

R.contract("Node._receive_app_request", params={"self": "Node", "conn": "PeerConnection", "message": "Message"},
           ghost={"o": "Opt[bytes]", "w": "Any:routekey", "h1": "str", "mk": "str"},
           requires=_NODE_READY + _WIN_REQ + [
               ("realm-attr-set", "implies(hasattr(message, 'destination_realm'), has(message, 'destination_realm') and "
                                  "not is_none(message.destination_realm) and valid_utf8(some(message.destination_realm)))")],
           ensures=[("no-realm-3007", "implies(not old(hasattr(message, 'destination_realm')), one_answer(conn, message, 3007))"),
                    ("foreign-realm-3003", "implies(old(hasattr(message, 'destination_realm')) and "
                                           "not old(realm_of(message) in self._peer_routes), one_answer(conn, message, 3003))"),
                    ("no-matching-app-3007",
                     "implies(old(hasattr(message, 'destination_realm')) and old(realm_of(message) in self._peer_routes) and "
                     "len(out(conn)) == old(len(out(conn))) + 1, "
                     "items(out(conn))[old(len(out(conn)))].result_code == 3007 and mirrors(items(out(conn))[old(len(out(conn)))], message) "
                     "and not old(app_matches(self, conn, realm_of(message), w, message.header.application_id)))"),
                    ("at-most-one-answer", "len(out(conn)) <= old(len(out(conn))) + 1 and "
                                           "items(out(conn))[0:old(len(out(conn)))] == old(items(out(conn)))"),
                    ("delivery-exactly-once-to-a-matching-app",
                     "no_delivery(self) or (len(self.g_dlv_app) == old(len(self.g_dlv_app)) + 1 and "
                     "delivered_to(self, items(self.g_dlv_app)[old(len(self.g_dlv_app))], message) and nothing_sent(conn) and "
                     "app_matched_before(self, conn, message, items(self.g_dlv_app)[old(len(self.g_dlv_app))]))"),
                    ("answered-or-delivered", "no_delivery(self) == (len(out(conn)) == old(len(out(conn))) + 1)"),
                    ("a-delivered-request-is-pending-from-the-connection-it-arrived-on",
                     "implies(not no_delivery(self), pwa_has(self, conn.host_identity, message.header.hop_by_hop_identifier))"),
                    ("no-other-host-gets-a-pending-entry",
                     "implies(h1 != conn.host_identity, (h1 in self._peer_waiting_answer) == old(h1 in self._peer_waiting_answer))"),
                    ("only-the-answered-record-leaves-the-origin-table",
                     _OWA_ONLY.replace("COND", "len(out(conn)) == old(len(out(conn))) + 1")),
                    ("node-answer-releases-the-origin-record", "implies(len(out(conn)) == old(len(out(conn))) + 1, "
                                                               "not (mkey(message) in self._origin_waiting_answer))"),
                    ("windows-stay-well-formed", "win_ok(self, o)"),
                    ("a-failed-hand-over-is-never-swallowed", "self.g_ho_failed == old(self.g_ho_failed)")],
           raises=[Raise("Exception", "True", "may")],
           ensures_exc={"Exception": [("failing-sends-nothing", "nothing_sent(conn)"), ("failing-keeps-windows", "sa_untouched(self)"),
                                      ("only-a-request-handler-fails", "not no_delivery(self)")]},
           ghost_modifies=["conn._write_msg_queue.g_put", "self.g_dlv_app", "self.g_dlv_msg", "self.g_ho_failed"],
           modifies=_ANS_MODS + ["dict:self._peer_waiting_answer",
                                 "dict:self._peer_waiting_answer[conn.host_identity] if conn.host_identity in self._peer_waiting_answer"],
           props=["C08", "C07", "C09"])
R.loop("Node._receive_app_request", 0,
       invariants=[("none-chosen-yet", "is_none(receiving_app)"),
                   ("visited-do-not-match", "implies(w in done, not app_matches(self, conn, realm_name, w, app_id))"),
                   ("nothing-happened", "nothing_sent(conn) and no_delivery(self) and realm_name == old(realm_of(message)) and "
                                        "app_id == message.header.application_id and peer == old(peer_of(self, conn))")],
       hints=["app_registered(self, cur)"],
       local_kinds={"receiving_app": "Opt[Application]"})
R.kind_hints[("Node._receive_app_request", "{}")] = "Dict[int,float]"

R.contract("Node._receive_app_answer", params={"self": "Node", "conn": "PeerConnection", "message": "Message"},
           requires=[("apps-registered", "implies(mkey(message) in self._app_waiting_answer, "
                                         "self._app_waiting_answer[mkey(message)]._node == self)")],
           ensures=[("nothing-sent", "nothing_sent(conn)"),
                    ("only-the-recorded-app",
                     "items(self.g_ans_app) == old(items(self.g_ans_app)) or "
                     "(old(mkey(message) in self._app_waiting_answer) and "
                     "items(self.g_ans_app) == old(items(self.g_ans_app)) + [old(self._app_waiting_answer[mkey(message)])] and "
                     "items(self.g_ans_msg) == old(items(self.g_ans_msg)) + [message] and "
                     "old(self._app_waiting_answer[mkey(message)]) in self.applications)"),
                    ("unknown-id-ignored", "implies(not old(mkey(message) in self._app_waiting_answer), "
                                           "items(self.g_ans_app) == old(items(self.g_ans_app)))")],
           raises=[Raise("Exception", "True", "may")],
           ghost_modifies=["self.g_ans_app", "self.g_ans_msg"],
           modifies=["*WaitingMessage.answer", "*Event.flag", "dict:self._app_waiting_answer"], props=["C10", "C07"])

# capabilities exchange handlers: contracts used by _receive_message (verified under C06)
R.contract("Node.receive_cer", params={"self": "Node", "conn": "PeerConnection", "message": "Message"},
           ghost={"o": "Opt[bytes]"}, requires=_NODE_READY + _WIN_REQ,
           ensures=[("windows-stay-well-formed", "win_ok(self, o)"),
                    ("exactly-one-cea", "len(out(conn)) == old(len(out(conn))) + 1 and "
                                        "items(out(conn))[0:old(len(out(conn)))] == old(items(out(conn))) and "
                                        "mirrors(items(out(conn))[old(len(out(conn)))], message)")] + _WIN_ENS,
           raises=[Raise("Exception", "True", "may")],
           ensures_exc={"Exception": [("nothing-sent-when-failing", "nothing_sent(conn)"), ("failing-keeps-windows", "sa_untouched(self)")]},
           ghost_modifies=["conn._write_msg_queue.g_put"],
           modifies=_ANS_MODS + ["*PeerConnection.state", "conn.node_name", "conn.auth_application_ids",
                                 "conn.acct_application_ids", "conn.origin_host", "conn.host_identity",
                                 "conn.host_ip_address", "*Peer.connection", "*Peer.disconnect_reason", "*Peer.last_connect",
                                 "dict:self._half_ready_connections", "*Event.flag", "*StoppableThread.stopped"],
           trusted=True, props=[],
           note="ASSUMED here (C07 uses it); C06 verifies the capabilities-exchange outcome cases separately")
R.contract("Node.receive_cea", params={"self": "Node", "conn": "PeerConnection", "message": "Message"},
           ensures=[("nothing-sent", "nothing_sent(conn)")],
           raises=[Raise("Exception", "True", "may")],
           ensures_exc={"Exception": [("nothing-sent-when-failing", "nothing_sent(conn)")]},
           modifies=["*PeerConnection.state", "conn.auth_application_ids", "conn.acct_application_ids", "conn.host_identity",
                     "*Peer.connection", "*Peer.disconnect_reason", "*Peer.last_connect", "*Peer.last_disconnect",
                     "dict:self._half_ready_connections", "dict:self.connections", "dict:self.peer_sockets",
                     "dict:self._peer_waiting_answer", "*Event.flag", "*StoppableThread.stopped", "*Socket.closed"],
           trusted=True, props=[],
           note="ASSUMED here; raises for a CEA lacking Origin-Host / Result-Code (AttributeError), sends nothing")

R.macro("dup_cond", ["n", "m"],
        "hasattr(m, 'origin_host') and is_req(m) and bit4(m.header.command_flags) == 1 and "
        "m.origin_host in n._sent_answers and m.header.end_to_end_identifier in n._sent_answers[m.origin_host]")
R.macro("new_out", ["c"], "items(out(c))[old(len(out(c)))]")
R.contract("Node._receive_message", params={"self": "Node", "conn": "PeerConnection", "msg": "Message"},
           ghost={"o": "Opt[bytes]", "w": "Any:routekey", "mk": "str"},
           requires=[("flags-octet", "0 <= msg.header.command_flags < 256"),
                     ("identity-encodable", "encodable(self.origin_host) and encodable(self.realm_name)"),
                     ("origin-host-attr", "implies(hasattr(msg, 'origin_host'), has(msg, 'origin_host'))"),
                     ("realm-attr-set", "implies(hasattr(msg, 'destination_realm'), has(msg, 'destination_realm') and "
                                        "not is_none(msg.destination_realm) and valid_utf8(some(msg.destination_realm)))"),
                     ("windows-well-formed", "win_ok(self, o)"),
                     ("windows-not-shared", "win_sep(self, o, msg.origin_host) and implies(mkey(msg) in self._origin_waiting_answer, "
                                            "win_sep(self, o, self._origin_waiting_answer[mkey(msg)][0]))"),
                     ("apps-registered", "implies(mkey(msg) in self._app_waiting_answer, self._app_waiting_answer[mkey(msg)]._node == self)")],
           ensures=[("never-answers-an-answer", "implies(not is_req(msg), nothing_sent(conn))"),
                    ("at-most-one-answer", "len(out(conn)) <= old(len(out(conn))) + 1 and "
                                           "items(out(conn))[0:old(len(out(conn)))] == old(items(out(conn)))"),
                    ("answer-mirrors-the-request", "implies(len(out(conn)) == old(len(out(conn))) + 1, mirrors(new_out(conn), msg))"),
                    ("duplicate-is-rejected-by-the-node",
                     "implies(old(dup_cond(self, msg)), no_delivery(self) and len(out(conn)) == old(len(out(conn))) + 1 and "
                     "(new_out(conn).result_code == 5012 or new_out(conn).result_code == 5005))"),
                    ("the-origin-of-an-unanswered-request-is-remembered",
                     "implies(is_req(msg) and hasattr(msg, 'origin_host') and len(out(conn)) == old(len(out(conn))), "
                     "mkey(msg) in self._origin_waiting_answer and self._origin_waiting_answer[mkey(msg)][0] == msg.origin_host)"),
                    ("the-node-answers-application-requests-only-with-the-specified-errors",
                     "implies(len(out(conn)) == old(len(out(conn))) + 1 and msg.header.command_code != 257 and "
                     "msg.header.command_code != 280 and msg.header.command_code != 282, "
                     "new_out(conn).result_code == 3003 or new_out(conn).result_code == 3007 or "
                     "new_out(conn).result_code == 5005 or new_out(conn).result_code == 5012)"),
                    ("base-protocol-never-reaches-applications",
                     "implies(msg.header.command_code == 257 or msg.header.command_code == 280 or "
                     "msg.header.command_code == 282, no_delivery(self))"),
                    ("a-request-whose-hand-over-to-the-application-failed-is-answered-5012",
                     "implies(is_req(msg) and self.g_ho_failed > old(self.g_ho_failed), "
                     "len(out(conn)) == old(len(out(conn))) + 1 and new_out(conn).result_code == 5012)")],
           raises=[],
           ghost_modifies=["conn._write_msg_queue.g_put", "self.g_dlv_app", "self.g_dlv_msg", "self.g_ans_app", "self.g_ans_msg",
                           "self.g_ho_failed",
                           "conn.g_close_calls", "conn.g_close_reason", "*PeerConnection.g_attn"],
           modifies=["dict:self._sent_answers", "dict:self._origin_waiting_answer", "*deque:int", "dict:self._peer_waiting_answer",
                     "dict:self._app_waiting_answer", "dict:self.socket_peers", "*list:Peer",
                     "*dict:Dict[int,float]", "*PeerCounters.cer", "*PeerCounters.cea", "*PeerCounters.dwr", "*PeerCounters.dwa",
                     "*PeerCounters.dpr", "*PeerCounters.dpa", "*PeerCounters.requests", "*PeerCounters.answers",
                     "*PeerConnection.state", "*PeerConnection._last_dwr", "conn.node_name", "conn.auth_application_ids",
                     "conn.acct_application_ids", "conn.origin_host", "conn.host_identity", "conn.host_ip_address",
                     "*Peer.connection", "*Peer.disconnect_reason", "*Peer.last_connect", "*Peer.last_disconnect",
                     "dict:self._half_ready_connections", "dict:self.connections", "dict:self.peer_sockets",
                     "*Event.flag", "*StoppableThread.stopped", "*Socket.closed", "*WaitingMessage.answer"],
           props=["C07", "C17", "C14", "C08"],
           note="message handler of every connection: raises nothing (C14), at most one answer and only for requests (C07), "
                "T-flag duplicates rejected without delivery (C17)")

R.contracts["Node._receive_message"].ghost_bind = {"Node._receive_app_request": {"mk": "mkey(msg)"}}

# ---- C11 / C06 timers, C18 senders ---------------------------------------------------------------------------
R.macro("seq_ok", ["g"], "1 <= g._sequence <= 2**32 - 1")
R.macro("eff", ["p", "peerval", "nodeval"], "ite(not is_none(p) and not is_none(peerval) and some(peerval) != 0, some(peerval), nodeval)")
R.inline_fn("PeerConnection.last_read_since", "PeerConnection.dwa_wait_time")
R.model("PeerConnection", fields={"g_close_calls": "int", "g_close_reason": "int"})

R.contract("Node.close_connection_socket", params={"self": "Node", "conn": "PeerConnection", "disconnect_reason": "int"},
           trusted=True,
           ghost_modifies=["conn.g_close_calls", "conn.g_close_reason"],
           ghost_ensures=["conn.g_close_calls == old(conn.g_close_calls) + 1", "conn.g_close_reason == disconnect_reason"],
           ensures=[("nothing-sent", "nothing_sent(conn)")],
           modifies=["*PeerConnection.state", "*Peer.connection", "*Peer.disconnect_reason", "*Peer.last_disconnect", "*Peer.last_connect",
                     "dict:self.connections", "dict:self.peer_sockets", "dict:self._peer_waiting_answer", "*Event.flag",
                     "*StoppableThread.stopped", "*Socket.closed"],
           note="ASSUMED here (C13 verifies the table effects); the ghost counter records each call and its reason")

_SENDER_REQ = [("generators-in-range", "seq_ok(conn.hop_by_hop_seq) and seq_ok(self.end_to_end_seq) and "
                                        "conn.hop_by_hop_seq != self.end_to_end_seq"),
               ("identity-encodable", "encodable(self.origin_host) and encodable(self.realm_name)")]
for _nm, _cls in (("send_dwr", "DeviceWatchdogRequest"), ("send_dpr", "DisconnectPeerRequest"), ("send_cer", "CapabilitiesExchangeRequest")):
    _extra = []
    _mods = ["conn.hop_by_hop_seq._sequence", "self.end_to_end_seq._sequence"]
    if _nm == "send_dwr":
        _extra = [("awaiting-dwa", "conn.state == ite(old(conn.state) == %d or old(conn.state) == %d, %d, old(conn.state))" % (READY, READY_WAITING_DWA, READY_WAITING_DWA)),
                  ("dwr-timestamp", "conn._last_dwr >= int(old(clock()))"),
                  ("origin-state-id", "new_out(conn).origin_state_id == self.state_id")]
        _mods += ["conn.state", "conn._last_dwr"]
    if _nm == "send_dpr":
        _extra = [("disconnecting", "conn.state == %d" % DISCONNECTING), ("cause-rebooting", "new_out(conn).disconnect_cause == 0")]
        _mods += ["conn.state"]
    R.contract(f"Node.{_nm}", params={"self": "Node", "conn": "PeerConnection"},
               requires=_SENDER_REQ,
               ensures=[("one-request-queued", "len(out(conn)) == old(len(out(conn))) + 1 and "
                                               "items(out(conn))[0:old(len(out(conn)))] == old(items(out(conn)))"),
                        ("is-the-request", "is_req(new_out(conn)) and type_is(new_out(conn), %s)" % _cls),
                        ("ids-fresh-and-nonzero", "new_out(conn).header.hop_by_hop_identifier == succ32(old(conn.hop_by_hop_seq._sequence)) "
                                                  "and new_out(conn).header.hop_by_hop_identifier != 0 and "
                                                  "new_out(conn).header.end_to_end_identifier == succ32(old(self.end_to_end_seq._sequence))"),
                        ("generators-stay-in-range", "seq_ok(conn.hop_by_hop_seq) and seq_ok(self.end_to_end_seq)")] + _extra,
               ghost_modifies=["conn._write_msg_queue.g_put"], modifies=_mods, props=["C11", "C16", "C18", "C06", "C09"])

R.macro("now0", [], "int(old(clock()))")
R.macro("now1", [], "int(clock())")
R.macro("T_idle", ["n", "c"], "eff(peer_of(n, c), some(peer_of(n, c)).idle_timeout, n.idle_timeout)")
R.macro("T_dwa", ["n", "c"], "eff(peer_of(n, c), some(peer_of(n, c)).dwa_timeout, n.dwa_timeout)")
R.macro("T_cea", ["n", "c"], "eff(peer_of(n, c), some(peer_of(n, c)).cea_timeout, n.cea_timeout)")
R.macro("T_cer", ["n", "c"], "eff(peer_of(n, c), some(peer_of(n, c)).cer_timeout, n.cer_timeout)")
R.macro("untouched", ["c"], "nothing_sent(c) and c.state == old(c.state) and c._last_dwr == old(c._last_dwr) and "
                            "c.g_close_calls == old(c.g_close_calls)")
R.macro("closed_with", ["c", "r"], "c.g_close_calls == old(c.g_close_calls) + 1 and c.g_close_reason == r and nothing_sent(c)")
R.contract("Node._check_timers", params={"self": "Node", "conn": "PeerConnection"},
           requires=_SENDER_REQ + [("dwr-timer-consistent", "implies(conn.state == %d, conn._last_dwr > 0)" % READY_WAITING_DWA),
                                   ("clock-sane", "conn._last_read >= 0 and conn._last_dwr >= 0")],
           ensures=[
               ("quiet-while-stopping", "implies(old(self._stopping), untouched(conn))"),
               ("idle-sends-exactly-one-dwr",
                "implies(not old(self._stopping) and old(conn.state) == %d and now0() - old(conn._last_read) > old(T_idle(self, conn)), "
                "len(out(conn)) == old(len(out(conn))) + 1 and type_is(new_out(conn), DeviceWatchdogRequest) and "
                "is_req(new_out(conn)) and conn.state == %d and conn._last_dwr >= now0() and "
                "conn.g_close_calls == old(conn.g_close_calls))" % (READY, READY_WAITING_DWA)),
               ("no-dwr-while-traffic-arrives",
                "implies(old(conn.state) == %d and now1() - old(conn._last_read) <= old(T_idle(self, conn)), untouched(conn))" % READY),
               ("dwa-timeout-closes",
                "implies(not old(self._stopping) and old(conn.state) == %d and now0() - old(conn._last_dwr) > old(T_dwa(self, conn)), "
                "closed_with(conn, %d))" % (READY_WAITING_DWA, R_DWATO)),
               ("waiting-for-dwa-sends-nothing-more",
                "implies(old(conn.state) == %d, nothing_sent(conn) and "
                "implies(now1() - old(conn._last_dwr) <= old(T_dwa(self, conn)), untouched(conn)))" % READY_WAITING_DWA),
               ("ce-timeout-closes",
                "implies(not old(self._stopping) and old(conn.state) == %d and "
                "now0() - old(conn._last_read) > ite(old(conn._direction) == 2, old(T_cea(self, conn)), old(T_cer(self, conn))) and "
                "(old(conn._direction) == 1 or old(conn._direction) == 2), closed_with(conn, %d))" % (CONNECTED, R_FAILCE)),
               ("ce-within-timeout-untouched",
                "implies(old(conn.state) == %d and "
                "now1() - old(conn._last_read) <= ite(old(conn._direction) == 2, old(T_cea(self, conn)), old(T_cer(self, conn))), "
                "untouched(conn))" % CONNECTED),
               ("other-states-untouched",
                "implies(old(conn.state) != %d and old(conn.state) != %d and old(conn.state) != %d, untouched(conn))"
                % (CONNECTED, READY, READY_WAITING_DWA))],
           ghost_modifies=["conn._write_msg_queue.g_put", "conn.g_close_calls", "conn.g_close_reason"],
           modifies=["conn.hop_by_hop_seq._sequence", "self.end_to_end_seq._sequence", "conn.state", "conn._last_dwr",
                     "*PeerConnection.state", "*Peer.connection", "*Peer.disconnect_reason", "*Peer.last_disconnect", "*Peer.last_connect",
                     "dict:self.connections", "dict:self.peer_sockets", "dict:self._peer_waiting_answer", "*Event.flag",
                     "*StoppableThread.stopped", "*Socket.closed", "dict:self.socket_peers",
                     "dict:self._half_ready_connections", "*list:Peer"],
           props=["C11", "C06", "C18", "C14"],     # C14: a handshake that dies silently is timed out and released
           note="total decision function over (stopping, state, virtual clock readings, node and per-peer timers)")

# ---- C09: answers of applications go back to the requesting connection --------------------------------------
from pyvc.smt import TRUE as _TRUE, Implies as _Implies, Or as _Or, Eq as _Eq, Not as _Not


@R.specfn("excl_unique_hbh")
def _excl_unique_hbh(ex, st, node, h, h0, hbh):
    """KNOWN-FINDING exclusion C09-equal-hbh: when switched on, assumes that no host other than the requester holds a
    pending request with the same hop-by-hop id (instantiated for the host the search stops at)."""
    from pyvc.speceval import SpecEnv
    if not R.flags.get("C09.unique-hbh"):
        return _VB(_TRUE)
    env = SpecEnv(st, {"n": ex.unwrap(node), "h": ex.unwrap(h), "h0": ex.unwrap(h0), "x": ex.unwrap(hbh)})
    return _VB(ex.spec_bool(env, "h == h0 or not pwa_has(n, h, x)"))


@R.specfn("inv_one_conn_per_host")
def _one_conn_per_host(ex, st, c, c0):
    """Inv_conn instance (C13): two registered connections with the same host identity are the same connection"""
    from pyvc.speceval import SpecEnv
    env = SpecEnv(st, {"c": ex.unwrap(c), "c0": ex.unwrap(c0)})
    return _VB(ex.spec_bool(env, "implies(c.host_identity == c0.host_identity, c == c0)"))


R.exception("NotRoutable", "NodeError")
R.exception("NodeError", "Exception")
_READY2 = "(%s.state == %d or %s.state == %d)"
R.contract("Node.route_answer", params={"self": "Node", "message": "Message"}, returns="Tuple[PeerConnection,Message]",
           ghost={"h0": "str", "k0": "str"},
           requires=[("request-pending-from-h0", "pwa_has(self, h0, message.header.hop_by_hop_identifier)"),
                     ("inner-tables-distinct", "True")],
           ensures=[("routes-to-the-requester", "result[0].host_identity == h0"),
                    ("ready-only", _READY2 % ("result[0]", READY, "result[0]", READY_WAITING_DWA)),
                    ("same-message", "result[1] == message"),
                    ("consumed-at-most-once", "not pwa_has(self, h0, message.header.hop_by_hop_identifier)"),
                    ("requesters-connection",
                     "implies(k0 in self.connections and self.connections[k0].host_identity == h0, result[0] == self.connections[k0])")],
           raises=[Raise("NotRoutable",
                         "not (k0 in self.connections and self.connections[k0].host_identity == h0 and "
                         + _READY2 % ("self.connections[k0]", READY, "self.connections[k0]", READY_WAITING_DWA) + ")", "only_if")],
           modifies=["dict:self._peer_waiting_answer[h0]"],
           props=["C09"],
           note="h0 = host identity of the connection the request arrived on; k0 = an arbitrary connection id (witness)")
R.loop("Node.route_answer", 0,
       invariants=[("not-found-yet", "is_none(waiting_host_identity)"),
                   ("requester-not-visited", "not (h0 in done)")],
       hints=["excl_unique_hbh(self, cur, h0, message_id)"],
       local_kinds={"waiting_host_identity": "Opt[str]"})
R.loop("Node.route_answer", 1,
       invariants=[("none-yet", "is_none(conn)"),
                   ("witness-not-visited", "implies(k0 in done, self.connections[k0].host_identity != waiting_host_identity)")],
       hints=["implies(k0 in self.connections, inv_one_conn_per_host(self.connections[cur], self.connections[k0]))"],
       local_kinds={"conn": "Opt[PeerConnection]"})
R.assume("Inv_conn: at most one registered connection per host identity (instantiated for the connection found)")

R.contract("Application.send_answer", params={"self": "Application", "message": "Message"},
           ghost={"h0": "str", "k0": "str", "o": "Opt[bytes]"},
           requires=[("registered", "not is_none(self._node)"),
                     ("request-pending-from-h0", "pwa_has(some(self._node), h0, message.header.hop_by_hop_identifier)"),
                     ("is-an-answer", "0 <= message.header.command_flags < 256 and not is_req(message)"),
                     ("window-well-formed", "win_ok(some(self._node), o)"),
                     ("windows-not-shared", "implies(mkey(message) in some(self._node)._origin_waiting_answer, "
                                            "win_sep(some(self._node), o, some(self._node)._origin_waiting_answer[mkey(message)][0]))")],
           ensures=[("transmitted-once-on-the-requesters-connection",
                     "implies(k0 in old(some(self._node).connections) and old(some(self._node).connections[k0].host_identity) == h0, "
                     "items(out(some(self._node).connections[k0])) == old(items(out(some(self._node).connections[k0]))) + [message])"),
                    ("second-submission-fails", "not pwa_has(some(self._node), h0, message.header.hop_by_hop_identifier)")],
           raises=[Raise("NotRoutable", "True", "may")],
           ensures_exc={"NotRoutable": [("nothing-transmitted",
                                         "implies(k0 in some(self._node).connections, "
                                         "items(out(some(self._node).connections[k0])) == old(items(out(some(self._node).connections[k0]))))")]},
           ghost_modifies=["*MsgQueue.g_put"],
           modifies=["dict:some(self._node)._peer_waiting_answer[h0]", "dict:some(self._node)._sent_answers",
                     "dict:some(self._node)._origin_waiting_answer", "*deque:int", "*dict:Dict[int,float]"],
           props=["C09"])

# ---- C10: request routing ---------------------------------------------------------------------------------------
R.model("Node", fields={"g_sel_offer": "Seq[Any]", "peer_route_select_func": "Any:selector"})


@R.specfn("call_opaque_selector")
def _call_selector(ex, st, f, args, kwargs, k, where):
    """the peer-selection callback: assumed to return one of the peers it is offered; the offered list is logged (ghost)"""
    from pyvc.smt import seq_contains_elem, seq_concat, seq_unit
    from pyvc.values import VRef
    node, app, msg, peers = args
    items, _ = ex.as_seq(st, peers)
    r = ex.decls.fresh("selected_peer", _INT)
    st = st.assume(seq_contains_elem(items, r))
    res = VRef(r, "Peer")
    ex.add_ref_facts(st, res)
    if hasattr(peers, "comp"):
        ex.comp_instantiate(st, peers, r)
    log = ex.read_field(st, node, "g_sel_offer")
    st = ex.write_field(st, node, "g_sel_offer", type(log)(seq_concat(log.t, seq_unit(peers.t)), log.elem))
    return k(st, res)


R.assume("the peer selection callback returns one of the peers it is offered and raises nothing (default: select_least_used_peer)")
R.macro("ready_peer", ["p"], "not is_none(p.connection) and (some(p.connection).state == %d or some(p.connection).state == %d)" % (READY, READY_WAITING_DWA))
R.macro("rq_realm", ["n", "m"], "ite(hasattr(m, 'destination_realm'), utf8dec(some(m.destination_realm)), n.realm_name)")
R.macro("rq_list_known", ["n", "a", "m"],
        "rq_realm(n, m) in n._peer_routes and (a in routes(n, rq_realm(n, m)) or '_default' in routes(n, rq_realm(n, m)))")
R.macro("rq_list", ["n", "a", "m"],
        "ite(a in routes(n, rq_realm(n, m)), routes(n, rq_realm(n, m))[a], routes(n, rq_realm(n, m))['_default'])")
R.contract("Node.route_request", params={"self": "Node", "app": "Application", "message": "Message"},
           returns="Tuple[PeerConnection,Message]", ghost={"p": "Peer"}, ghost_out={"q": ("peer", "Peer")},
           requires=[("realm-attr-set", "implies(hasattr(message, 'destination_realm'), has(message, 'destination_realm') and "
                                        "not is_none(message.destination_realm) and valid_utf8(some(message.destination_realm)))"),
                     ("ids-nonneg", "message.header.hop_by_hop_identifier >= 0")],
           ensures=[("sent-to-an-eligible-ready-peer",
                     "old(rq_list_known(self, app, message)) and q in old(rq_list(self, app, message)) and "
                     "ready_peer(q) and result[0] == some(q.connection)"),
                    ("hop-by-hop-nonzero", "message.header.hop_by_hop_identifier != 0"),
                    ("a-new-hop-by-hop-id-is-drawn-from-the-connections-generator",
                     "implies(old(message.header.hop_by_hop_identifier) == 0, "
                     "message.header.hop_by_hop_identifier == succ32(old(result[0].hop_by_hop_seq._sequence)) and "
                     "result[0].hop_by_hop_seq._sequence == message.header.hop_by_hop_identifier)"),
                    ("keeps-a-given-hop-by-hop", "implies(old(message.header.hop_by_hop_identifier) != 0, "
                                                 "message.header.hop_by_hop_identifier == old(message.header.hop_by_hop_identifier))"),
                    ("answer-correlation-recorded", "mkey(message) in self._app_waiting_answer and "
                                                    "self._app_waiting_answer[mkey(message)] == app and result[1] == message")],
           raises=[Raise("NotRoutable", "not (rq_list_known(self, app, message) and p in rq_list(self, app, message) and ready_peer(p))", "only_if")],
           ghost_modifies=["self.g_sel_offer"],
           modifies=["message.header.hop_by_hop_identifier", "*SequenceGenerator._sequence", "dict:self._app_waiting_answer"],
           props=["C10", "C16", "C06", "C12", "C08"],     # C08: an outbound lookup must not alter the routing table
           note="p is an arbitrary witness peer: NotRoutable only if p is not an eligible ready peer (so: raised only when no "
                "eligible peer exists); on NotRoutable the frame shows that no table changed and nothing was queued")
R.loop("Node.route_request", 0,
       invariants=[("not-found", "is_none(peer_list)"),
                   ("app-key-not-visited", "not (app in done)")],
       local_kinds={"peer_list": "Opt[List[Peer]]"})

R.contract("Event.__new__", trusted=True, params={}, returns="Event", allocates=True, ensures=["not result.flag"])
R.contract("Event.wait", trusted=True, params={"self": "Event", "timeout": "Opt[int]"}, returns="bool",
           modifies=["*WaitingMessage.answer", "*Event.flag"],
           note="blocking wait: other threads may deliver an answer meanwhile (environment effect on the waiter objects)")
R.inline_fn("WaitingMessage.__init__")
R.exception("EmptyAnswer", "ApplicationError")
R.exception("ApplicationError", "Exception")
R.contract("Application.handle_answer", trusted=True, params={"self": "Application", "message": "Message"},
           raises=[Raise("Exception", "True", "may")],
           ghost_modifies=["self.g_unexpected"],
           ghost_ensures=["self.g_unexpected == old(self.g_unexpected) + [message]"],
           note="user hook for unexpected answers (behavioural contract)")
R.model("Application", fields={"g_unexpected": "Seq[Message]"})
R.contract("Application.receive_answer#impl", params={"self": "Application", "message": "Message"},
           ensures=[("waiter-gets-exactly-this-answer",
                     "implies(old(message.header.hop_by_hop_identifier in self._answer_waiting), "
                     "old(self._answer_waiting[message.header.hop_by_hop_identifier]).answer == message and "
                     "old(self._answer_waiting[message.header.hop_by_hop_identifier]).event.flag and "
                     "self.g_unexpected == old(self.g_unexpected))"),
                    ("unexpected-goes-to-own-handler",
                     "implies(not old(message.header.hop_by_hop_identifier in self._answer_waiting), "
                     "self.g_unexpected == old(self.g_unexpected) + [message])")],
           raises=[Raise("Exception", "not (message.header.hop_by_hop_identifier in self._answer_waiting)", "only_if")],
           ghost_modifies=["self.g_unexpected"],
           modifies=["self._answer_waiting[message.header.hop_by_hop_identifier].answer "
                     "if message.header.hop_by_hop_identifier in self._answer_waiting",
                     "self._answer_waiting[message.header.hop_by_hop_identifier].event.flag "
                     "if message.header.hop_by_hop_identifier in self._answer_waiting"],
           props=["C10"])
R.contract("Application.send_request", params={"self": "Application", "message": "Message", "timeout": "int"},
           returns="Message", ghost={"p": "Peer"},
           requires=[("registered", "not is_none(self._node)"), ("app-id-set", "not is_none(self.application_id)"),
                     ("flags", "0 <= message.header.command_flags < 256 and is_req(message)"),
                     ("realm-attr-set", "implies(hasattr(message, 'destination_realm'), has(message, 'destination_realm') and "
                                        "not is_none(message.destination_realm) and valid_utf8(some(message.destination_realm)))"),
                     ("ids-nonneg", "message.header.hop_by_hop_identifier >= 0 and message.header.end_to_end_identifier >= 0")],
           ensures=[("waiter-released", "not (message.header.hop_by_hop_identifier in self._answer_waiting)"),
                    ("ids-set", "message.header.hop_by_hop_identifier != 0 and message.header.end_to_end_identifier != 0")],
           raises=[Raise("NotRoutable", "True", "may"), Raise("TimeoutError", "True", "may"), Raise("EmptyAnswer", "True", "may")],
           ensures_exc={"TimeoutError": [("waiter-released", "not (message.header.hop_by_hop_identifier in self._answer_waiting)"),
                                         ("a-late-answer-can-still-be-attributed-to-the-sender",
                                          "mkey(message) in some(self._node)._app_waiting_answer and "
                                          "some(self._node)._app_waiting_answer[mkey(message)] == self")],
                        "EmptyAnswer": [("waiter-released", "not (message.header.hop_by_hop_identifier in self._answer_waiting)")],
                        "NotRoutable": [("no-waiter-registered", "unchanged(self._answer_waiting)")]},
           ghost_modifies=["*MsgQueue.g_put", "some(self._node).g_sel_offer"],
           modifies=["message.header.hop_by_hop_identifier", "message.header.end_to_end_identifier",
                     "message.header.application_id", "*SequenceGenerator._sequence",
                     "dict:some(self._node)._app_waiting_answer", "dict:self._answer_waiting", "*WaitingMessage.answer", "*Event.flag"],
           props=["C10", "C19"])
R.kind_hints[("Application.__init__", "{}")] = "Dict[int,WaitingMessage]"

# C10 (schedules): the blocked sender's waiter is registered BEFORE the request is handed to the node - otherwise an answer
# arriving right after the hand-over finds no waiter and is treated as unexpected while the sender times out.  Expressed
# as a call-site obligation: inside Application.send_request, Node.send_message is used through a copy of its verified
# contract with one more precondition (a stronger precondition only restricts where the contract may be used).
import copy as _copy
from pyvc.spec import Clause as _Clause
from pyvc.values import parse_kind as _parse_kind
_sm = _copy.copy(R.contracts["Node.send_message"])
_sm.requires = list(_sm.requires) + [_Clause("waiter-registered-before-the-request-is-handed-over",
                                             "implies(is_req(message), message.header.hop_by_hop_identifier in app._answer_waiting)")]
_sm.ghost = _copy.copy(_sm.ghost)
_sm.ghost["app"] = _parse_kind("Application")
R.contracts["Application.send_request"].call_overrides = {"Node.send_message": _sm}
R.contracts["Application.send_request"].ghost_bind = {"Node.send_message": {"app": "self"}}

# C10 (schedules): the waiter is woken only AFTER its answer has been stored (the blocked sender reads waiting.answer as soon
# as the event is set).  Call-site obligation inside Application.receive_answer on Event.set.
_es = _copy.copy(R.contracts["Event.set"])
_es.requires = list(_es.requires) + [_Clause("answer-stored-before-the-waiter-is-woken", "not is_none(wm.answer) and wm.event == self")]
_es.ghost = _copy.copy(_es.ghost)
_es.ghost["wm"] = _parse_kind("WaitingMessage")
R.contracts["Application.receive_answer#impl"].call_overrides = {"Event.set": _es}
R.contracts["Application.receive_answer#impl"].ghost_bind = {"Event.set": {"wm": "waiting"}}
