"""Contracts for diameter/node/_helpers.py: identifier generators (C16), validate_message_avps (C08)."""
from pyvc.spec import REG as R, Raise
from . import node_model  # noqa

MAX32 = 2**32 - 1
MAX64 = 2**64 - 1
R.macro("succ32", ["s"], f"ite(s == {MAX32}, 1, s + 1)")
R.macro("succ64", ["s"], f"ite(s == {MAX64}, 1, s + 1)")

R.inline_fn("SequenceGenerator.sequence")
R.contract("SequenceGenerator.__init__", params={"self": "SequenceGenerator", "include_now": "Opt[int]"},
           requires=[("timestamp-nonneg", "implies(not is_none(include_now), some(include_now) >= 0)")],
           ensures=[("in-range", f"1 <= self._sequence <= {MAX32}"),
                    ("time-in-high-bits", "implies(not is_none(include_now) and some(include_now) != 0, "
                                          "self._sequence // 2**20 == some(include_now) % 2**12)")],
           modifies=["self._sequence", "self._busy_lock"], props=["C16"])
R.contract("SequenceGenerator.next_sequence", params={"self": "SequenceGenerator"}, returns="int",
           requires=[("invariant", f"1 <= self._sequence <= {MAX32}")],
           ensures=[("successor", "result == succ32(old(self._sequence))"),
                    ("stored", "self._sequence == result"),
                    ("never-zero", f"1 <= result <= {MAX32}")],
           modifies=["self._sequence"], props=["C16", "C10"])
R.lemma_ob("seq32-closed-form", vars={"a": "int", "k": "int"},
           assumes=[f"1 <= a <= {MAX32}", "k >= 0"],
           shows=[("step", f"succ32((a - 1 + k) % {MAX32} + 1) == (a - 1 + k + 1) % {MAX32} + 1"),
                  ("base", f"(a - 1 + 0) % {MAX32} + 1 == a")],
           props=["C16"], note="k-fold successor = ((a-1+k) mod MAX)+1: explicit induction schema (base + step)")
R.lemma_ob("seq32-distinct", vars={"a": "int", "i": "int", "j": "int"},
           assumes=[f"1 <= a <= {MAX32}", f"0 <= i < j and j - i < {MAX32}"],
           shows=[("distinct", f"(a - 1 + i) % {MAX32} + 1 != (a - 1 + j) % {MAX32} + 1"),
                  ("nonzero", f"(a - 1 + i) % {MAX32} + 1 >= 1")],
           props=["C16"], note="draws i<j less than MAX apart are distinct (until the counter space wraps)")

R.contract("SessionGenerator.next_id", params={"self": "SessionGenerator", "optional": "Tuple[]"}, returns="str",
           requires=[("invariant", f"0 <= self._sequence <= {MAX64}")],
           ensures=[("successor", "self._sequence == succ64(old(self._sequence))"),
                    ("never-zero", f"1 <= self._sequence <= {MAX64}")],
           modifies=["self._sequence"], props=["C16"])
R.lemma_ob("seq64-distinct", vars={"a": "int", "i": "int", "j": "int"},
           assumes=[f"1 <= a <= {MAX64}", f"0 <= i < j and j - i < {MAX64}"],
           shows=[("distinct", f"(a - 1 + i) % {MAX64} + 1 != (a - 1 + j) % {MAX64} + 1")],
           props=["C16"])
R.lemma_ob("seq64-closed-form", vars={"a": "int", "k": "int"},
           assumes=[f"1 <= a <= {MAX64}", "k >= 0"],
           shows=[("step", f"succ64((a - 1 + k) % {MAX64} + 1) == (a - 1 + k + 1) % {MAX64} + 1")],
           props=["C16"])

R.object_invariant("SequenceGenerator", f"1 <= self._sequence <= {MAX32}")
R.assume("class invariant SequenceGenerator: 1 <= _sequence <= 2^32-1 (established by __init__, preserved by next_sequence - "
         "both proved under C16 - and no other writer in the package)")


@R.specfn("hex_of")
def _hex_of(ex, st, b):
    """bytes.hex() of a byte string (the same uninterpreted, injective function the model of bytes.hex uses)"""
    from pyvc.values import VStr
    from pyvc.smt import STR, SEQI, app
    ex.decls.fun("bytes_hex", [SEQI], STR)
    return VStr(app("bytes_hex", STR, ex.unwrap(b).t))


R.contract("SessionGenerator.__init__", params={"self": "SessionGenerator", "node_name": "str"},
           ensures=[("start-time-field-is-the-unix-time-of-creation",
                     "self._base_value == hex_of(be32(int(clock()))) and clock() >= old(clock())"),
                    ("identity-field", "self.diameter_identity == node_name"),
                    ("counter-in-range", f"0 <= self._sequence <= {MAX64}")],
           raises=[Raise("OverflowError", "True", "may")],
           modifies=["self._base_value", "self._busy_lock", "self._sequence", "self.diameter_identity"], props=["C16"],
           note="the second field of every session id is the 4-byte big-endian hex of int(time.time()) read when the "
                "generator is created (the virtual clock advances exactly at time.time()/sleep readings, so any other "
                "clock source leaves clock() behind); OverflowError only after 2106")
