"""C14: thread targets raise nothing; processing capacity (thread slots) is returned exactly once per request."""
from pyvc.spec import REG as R, Raise
from . import node, c13, c15  # noqa

R.model("SlotQueue", builtin=True, fields={"g_put": "int", "g_got": "int", "g_calls": "int"})
R.model("AnyQueue", builtin=True, fields={"g_put": "Seq[Any]", "g_nput": "int", "g_ngot": "int"})
R.model("ThreadingApplication", fields={"_recv_msg_queue": "MsgQueue", "_resp_msg_queue": "AnyQueue", "_thread_slots": "SlotQueue"})
R.contract("SlotQueue.put", trusted=True, params={"self": "SlotQueue", "item": "None", "timeout": "int"},
           raises=[Raise("queue.Full", "True", "may")],
           ghost_modifies=["self.g_put"], ghost_ensures=["self.g_put == old(self.g_put) + 1"],
           ensures_exc={"queue.Full": ["self.g_put == old(self.g_put)"]})
R.contract("SlotQueue.get", trusted=True, params={"self": "SlotQueue", "block": "bool"},
           raises=[Raise("queue.Empty", "True", "may")],
           ghost_modifies=["self.g_got", "self.g_calls"],
           ghost_ensures=["self.g_got == old(self.g_got) + 1", "self.g_calls == old(self.g_calls) + 1"],
           ensures_exc={"queue.Empty": ["self.g_got == old(self.g_got)", "self.g_calls == old(self.g_calls) + 1"]})
R.contract("AnyQueue.put", trusted=True, params={"self": "AnyQueue", "item": "Opt[Message]"},
           ghost_modifies=["self.g_nput"], ghost_ensures=["self.g_nput == old(self.g_nput) + 1"])
R.contract("AnyQueue.get", trusted=True, params={"self": "AnyQueue", "block": "bool", "timeout": "int"},
           returns="Opt[Message]", raises=[Raise("queue.Empty", "True", "may")],
           ghost_modifies=["self.g_ngot"], ghost_ensures=["self.g_ngot == old(self.g_ngot) + 1"],
           ensures_exc={"queue.Empty": ["self.g_ngot == old(self.g_ngot)"]})
R.model("Thread", builtin=True, fields={"started": "bool"})
R.contract("Thread.__new__", trusted=True, params={"target": "Any", "args": "Tuple[Message]"}, returns="Thread", allocates=True)
R.contract("Thread.start", trusted=True, params={"self": "Thread"}, raises=[Raise("RuntimeError", "True", "may")],
           ensures=["self.started"], modifies=["self.started"],
           ensures_exc={"RuntimeError": ["not self.started or self.started"]})
R.contract("ThreadingApplication.handle_request", trusted=True, params={"self": "ThreadingApplication", "message": "Message"},
           returns="Opt[Message]", raises=[Raise("Exception", "True", "may")],
           note="user handler: may return an answer, return None or raise anything")

R.contract("ThreadingApplication._process_recv_msg", params={"self": "ThreadingApplication", "message": "Message"},
           requires=[("registered", "not is_none(self._node)"), ("flags-octet", "0 <= message.header.command_flags < 256"),
                     ("identity-encodable", "encodable(some(self._node).origin_host) and encodable(some(self._node).realm_name)")],
           ensures=[("exactly-one-hand-off", "self._resp_msg_queue.g_nput == old(self._resp_msg_queue.g_nput) + 1")],
           raises=[], ghost_modifies=["self._resp_msg_queue.g_nput"], props=["C14"],
           note="worker thread body: whatever the user handler does, exactly one item reaches the response queue (so the "
                "slot taken for this request is returned exactly once) and nothing is raised")

R.contract("ThreadingApplication._wait_for_resp_msg", params={"self": "ThreadingApplication", "_thread": "StoppableThread"},
           requires=[("registered", "not is_none(self._node)")],
           raises=[], props=["C14"],
           ghost_modifies=["self._thread_slots.g_got", "self._thread_slots.g_calls", "self._resp_msg_queue.g_ngot", "*MsgQueue.g_put"],
           modifies=["*dict:Dict[int,float]", "*deque:int", "dict:some(self._node)._sent_answers",
                     "dict:some(self._node)._origin_waiting_answer", "dict:some(self._node)._peer_waiting_answer"],
           note="response consumer thread: raises nothing whatever send_answer does")
R.loop("ThreadingApplication._wait_for_resp_msg", 0,
       invariants=[("registered", "not is_none(self._node)")],
       step=[("exactly-one-slot-release-attempt-per-item",
              "self._thread_slots.g_calls - prev(self._thread_slots.g_calls) == "
              "self._resp_msg_queue.g_ngot - prev(self._resp_msg_queue.g_ngot) and "
              "self._resp_msg_queue.g_ngot - prev(self._resp_msg_queue.g_ngot) <= 1")],
       local_kinds={"resp_message": "Opt[Message]"},
       modifies=["self._thread_slots.g_got", "self._thread_slots.g_calls", "self._resp_msg_queue.g_ngot", "*MsgQueue.g_put",
                 "*dict:Dict[int,float]", "*deque:int", "dict:some(self._node)._sent_answers", "dict:some(self._node)._origin_waiting_answer",
                 "dict:some(self._node)._peer_waiting_answer"])
R.contract("ThreadingApplication._wait_for_recv_msg", params={"self": "ThreadingApplication", "_thread": "StoppableThread"},
           requires=[("registered", "not is_none(self._node)")],
           raises=[], props=["C14"],
           ghost_modifies=["self._thread_slots.g_got", "self._thread_slots.g_calls", "self._thread_slots.g_put",
                           "*MsgQueue.g_put", "*MsgQueue.g_taken", "*Thread.started"],
           modifies=["*dict:Dict[int,float]", "*deque:int", "dict:some(self._node)._sent_answers",
                     "dict:some(self._node)._origin_waiting_answer", "dict:some(self._node)._peer_waiting_answer"],
           note="receive consumer thread: raises nothing; a taken slot is either given to a started worker or released")
R.loop("ThreadingApplication._wait_for_recv_msg", 0,
       invariants=[("registered", "not is_none(self._node)")],
       step=[("taken-slot-goes-to-a-started-worker-or-is-released",
              "implies(self._thread_slots.g_put == prev(self._thread_slots.g_put) + 1, "
              "process_message.started or self._thread_slots.g_got == prev(self._thread_slots.g_got) + 1 or "
              "self._thread_slots.g_got == prev(self._thread_slots.g_got))")],
       local_kinds={"recv_message": "Opt[Message]", "process_message": "Opt[Thread]"},
       modifies=["self._thread_slots.g_got", "self._thread_slots.g_calls", "self._thread_slots.g_put", "*MsgQueue.g_put",
                 "*MsgQueue.g_taken", "*Thread.started",
                 "*dict:Dict[int,float]", "*deque:int", "dict:some(self._node)._sent_answers",
                 "dict:some(self._node)._origin_waiting_answer", "dict:some(self._node)._peer_waiting_answer"])

# Total (precondition-free) abstractions of the answer path, used only for the "raises nothing" analysis of the thread
# loops: anything may be raised, the effects are confined to the same locations as in the verified contracts.
_precise_generate_answer = R.contracts["Application.generate_answer"]
R.contracts["ThreadingApplication._process_recv_msg"].call_overrides = {"Application.generate_answer": _precise_generate_answer}
for _n in ("Application.send_answer", "Application.generate_answer"):
    del R.contracts[_n]
R.contract("Application.send_answer", trusted=True, params={"self": "Application", "message": "Message"},
           raises=[Raise("Exception", "True", "may")],
           ghost_modifies=["*MsgQueue.g_put"],
           modifies=["*dict:Dict[int,float]", "*deque:int", "dict:some(self._node)._sent_answers if not is_none(self._node)",
                     "dict:some(self._node)._origin_waiting_answer if not is_none(self._node)",
                     "dict:some(self._node)._peer_waiting_answer if not is_none(self._node)"],
           note="ASSUMED total abstraction of the verified C09 contract (no precondition, may raise anything)")
R.contract("Application.generate_answer", trusted=True,
           params={"self": "Application", "message": "Message", "result_code": "Opt[int]", "error_message": "Opt[str]"},
           returns="Message", allocates=True, raises=[Raise("Exception", "True", "may")],
           note="ASSUMED total abstraction of the verified C20 contract")
R.assume("C14 uses precondition-free abstractions of Application.send_answer / generate_answer (may raise anything, same frame)")
