"""C13 (table consistency), C12 (reconnect policy), C19 (release of per-connection state)."""
from pyvc.spec import REG as R, Raise
from . import node  # noqa
from .node import CONNECTING, CONNECTED, READY, READY_WAITING_DWA, DISCONNECTING, CLOSING, CLOSED, R_DPR, R_SOCKFAIL, _VB

R.kind_hints[("Node.remove_peer_connection", "{}")] = "Dict[Any:routekey,List[Peer]]"
R.kind_hints[("Node.remove_peer_connection", "[]")] = "List[Peer]"
R.macro("in_no_table", ["n", "c"],
        "not (c.ident in n.connections) and not (c.ident in n.peer_sockets) and "
        "not (c.ident in n._half_ready_connections) and "
        "not (c.socket_fileno in n.socket_peers and n.socket_peers[c.socket_fileno] == c)")

R.contract("Node.remove_peer_connection", params={"self": "Node", "conn": "PeerConnection", "disconnect_reason": "int"},
           ensures=[("gone-from-every-table", "in_no_table(self, conn)"),
                    ("pending-answers-dropped", "not (conn.host_identity in self._peer_waiting_answer)"),
                    ("own-link-cleared-with-reason-and-time",
                     "implies(not is_none(old(peer_of(self, conn))) and old(some(peer_of(self, conn)).connection) == conn, "
                     "is_none(some(old(peer_of(self, conn))).connection) and "
                     "not is_none(some(old(peer_of(self, conn))).last_disconnect) and "
                     "not is_none(some(old(peer_of(self, conn))).disconnect_reason))"),
                    ("already-set-reason-kept",
                     "implies(not is_none(old(peer_of(self, conn))) and not is_none(old(some(peer_of(self, conn)).disconnect_reason)), "
                     "some(old(peer_of(self, conn))).disconnect_reason == old(some(peer_of(self, conn)).disconnect_reason))"),
                    ("sibling-connection-keeps-the-peer-link",
                     "implies(not is_none(old(peer_of(self, conn))) and not is_none(old(some(peer_of(self, conn)).connection)) and "
                     "old(some(some(peer_of(self, conn)).connection)) != conn, "
                     "some(old(peer_of(self, conn))).connection == old(some(peer_of(self, conn)).connection))")],
           modifies=["dict:self.connections", "dict:self.peer_sockets", "dict:self.socket_peers",
                     "dict:self._half_ready_connections", "dict:self._peer_waiting_answer",
                     "*Peer.connection", "*Peer.last_disconnect", "*Peer.disconnect_reason", "*Event.flag", "*list:Peer"],
           props=["C13", "C12", "C19", "C09", "C07"])
R.loop("Node.remove_peer_connection", 0, invariants=[("t", "True")], modifies=["dict:app_list", "*list:Peer"])
R.loop("Node.remove_peer_connection", 1, invariants=[("t", "True")], modifies=["dict:app_list", "*list:Peer"])
R.loop("Node.remove_peer_connection", 2, invariants=[("t", "True")], modifies=["*Event.flag"],
       local_kinds={"any_peer_ready": "bool"})
R.loop("Node.remove_peer_connection", 3, invariants=[("t", "True")], local_kinds={"any_peer_ready": "bool"})

R.contract("Node._generate_connection_id", trusted=True, params={"self": "Node", "cur_iteration": "int"}, returns="str",
           ensures=["not (result in self.connections)"], raises=[Raise("RuntimeError", "True", "may")], pure=True,
           note="ASSUMED: os.urandom based id, retried until unused")
R.macro("workers_stopped", ["c"], "c._read_thread.stopped and c._write_thread.stopped")
R.macro("tables_unchanged", ["n"], "unchanged(n.connections) and unchanged(n.peer_sockets) and unchanged(n.socket_peers) "
                                   "and unchanged(n._half_ready_connections)")
R.contract("Node._add_peer_connection",
           params={"self": "Node", "conn": "PeerConnection", "peer_socket": "Socket", "proto": "int"}, returns="Opt[str]",
           ensures=[("refused-while-stopping",
                     "implies(old(self._stopping), is_none(result) and peer_socket.closed and tables_unchanged(self))"),
                    ("refused-connection-is-released",
                     "implies(is_none(result), peer_socket.closed and tables_unchanged(self) and workers_stopped(conn))"),
                    ("second-connection-of-a-connected-peer-refused",
                     "implies(not old(self._stopping) and old(conn.node_name != '' and conn.node_name in self.peers and "
                     "not is_none(self.peers[conn.node_name].connection)), is_none(result))"),
                    ("registered-in-every-table",
                     "implies(not is_none(result), conn.ident == some(result) and self.connections[conn.ident] == conn and "
                     "conn.ident in self.connections and conn.ident in self.peer_sockets and "
                     "self.peer_sockets[conn.ident] == peer_socket and conn.socket_fileno == peer_socket.fd and "
                     "conn.socket_fileno in self.socket_peers and self.socket_peers[conn.socket_fileno] == conn and "
                     "not old(some(result) in self.connections))"),
                    ("linked-to-its-peer-or-half-ready",
                     "implies(not is_none(result), "
                     "ite(not is_none(peer_of(self, conn)) and old(is_none(some(peer_of(self, conn)).connection)), "
                     "some(peer_of(self, conn)).connection == conn and is_none(some(peer_of(self, conn)).disconnect_reason), "
                     "conn.ident in self._half_ready_connections and self._half_ready_connections[conn.ident] == conn))")],
           raises=[Raise("RuntimeError", "True", "may")],
           modifies=["peer_socket.closed", "conn.ident", "conn.socket_fileno", "conn.socket_proto", "conn.message_handler",
                     "conn.state", "conn._read_thread.stopped", "conn._write_thread.stopped",
                     "dict:self.connections", "dict:self.peer_sockets", "dict:self.socket_peers",
                     "dict:self._half_ready_connections", "*Peer.connection", "*Peer.disconnect_reason", "*Peer.last_connect"],
           props=["C13", "C12", "C18", "C19"])

R.contract("Node._assign_peer_connection", params={"self": "Node", "conn": "PeerConnection"},
           ensures=[("known-peer-gets-linked",
                     "implies(conn.host_identity != '' and conn.host_identity in self.peers, "
                     "is_none(self.peers[conn.host_identity].disconnect_reason) and "
                     "not is_none(self.peers[conn.host_identity].connection) and "
                     "implies(old(is_none(self.peers[conn.host_identity].connection)), "
                     "some(self.peers[conn.host_identity].connection) == conn) and "
                     "not (conn.ident in self._half_ready_connections))"),
                    ("existing-link-kept",
                     "implies(conn.host_identity != '' and conn.host_identity in self.peers and "
                     "old(not is_none(self.peers[conn.host_identity].connection)), "
                     "self.peers[conn.host_identity].connection == old(self.peers[conn.host_identity].connection))"),
                    ("unknown-peer-untouched", "implies(conn.host_identity == '' or not (conn.host_identity in self.peers), "
                                               "unchanged(self._half_ready_connections))")],
           modifies=["*Peer.connection", "*Peer.disconnect_reason", "*Peer.last_connect", "dict:self._half_ready_connections"],
           props=["C13"])
R.contract("Node._flag_peer_as_connected", params={"self": "Node", "conn": "PeerConnection"},
           ensures=[("connected", "conn.state == %d" % CONNECTED)],
           modifies=["conn.state", "*Peer.last_connect"], props=["C13", "C06"])
R.contract("Node._flag_connection_as_ready", params={"self": "Node", "conn": "PeerConnection"},
           ghost={"a": "Application"},
           ensures=[("ready", "conn.state == %d" % READY),
                    ("only-sets-ready-flags", "implies(old(a.is_ready.flag), a.is_ready.flag)")],
           modifies=["conn.state", "*Event.flag"], props=["C13", "C06"],
           note="the clause 'an application whose configured peer got this connection becomes ready' needs a three-level "
                "nested loop invariant and is NOT decided here")
for _i in range(3):
    R.loop("Node._flag_connection_as_ready", _i,
           invariants=[("state", "conn.state == %d" % READY), ("monotone", "implies(old(a.is_ready.flag), a.is_ready.flag)")],
           modifies=["*Event.flag"])

del R.contracts["Node.close_connection_socket"]
R.contract("Node.close_connection_socket", params={"self": "Node", "conn": "PeerConnection", "disconnect_reason": "int"},
           ghost_modifies=["conn.g_close_calls", "conn.g_close_reason"],
           ghost_ensures=["conn.g_close_calls == old(conn.g_close_calls) + 1", "conn.g_close_reason == disconnect_reason"],
           ensures=[("nothing-sent", "nothing_sent(conn)"),
                    ("gone-from-every-table", "in_no_table(self, conn)"),
                    ("registered-socket-closed-and-workers-stopped",
                     "implies(old(conn.ident in self.peer_sockets), old(self.peer_sockets[conn.ident]).closed and "
                     "conn.state == %d and workers_stopped(conn))" % CLOSED),
                    ("unregistered-connection-keeps-its-state",
                     "implies(not old(conn.ident in self.peer_sockets), conn.state == old(conn.state))"),
                    ("pending-answers-dropped", "not (conn.host_identity in self._peer_waiting_answer)")],
           modifies=["conn.state", "conn._read_thread.stopped", "conn._write_thread.stopped", "*Socket.closed",
                     "dict:self.connections", "dict:self.peer_sockets", "dict:self.socket_peers",
                     "dict:self._half_ready_connections", "dict:self._peer_waiting_answer",
                     "*Peer.connection", "*Peer.last_disconnect", "*Peer.disconnect_reason", "*Event.flag", "*list:Peer"],
           props=["C13", "C19", "C11"])

# ---- C12: reconnect policy -------------------------------------------------------------------------------------
R.model("Node", fields={"g_dialled": "Seq[Peer]"})
R.inline_fn("Peer.disconnected_since")
R.contract("Node._connect_to_peer", trusted=True, params={"self": "Node", "peer": "Peer"},
           raises=[Raise("Exception", "True", "may")],
           ghost_modifies=["self.g_dialled"],
           ghost_ensures=["self.g_dialled == old(self.g_dialled) + [peer]"],
           ensures_exc={"Exception": ["self.g_dialled == old(self.g_dialled) + [peer]"]},
           modifies=["peer.connection", "peer.disconnect_reason", "peer.last_connect", "peer.last_disconnect",
                     "dict:self.connections", "dict:self.peer_sockets", "dict:self.socket_peers",
                     "dict:self._half_ready_connections", "*MsgQueue.g_put", "*SequenceGenerator._sequence", "*Event.flag",
                     "*list:Peer", "dict:self._peer_waiting_answer"],
           note="every call is a dial attempt (ghost log); its own guards are verified as Node._connect_to_peer#guards")
R.macro("dial_guard", ["p", "now"],
        "p.persistent and is_none(p.connection) and not is_none(p.last_disconnect) and some(p.last_disconnect) != 0 and "
        "now - some(p.last_disconnect) >= p.reconnect_wait and "
        "not (not is_none(p.disconnect_reason) and some(p.disconnect_reason) == %d and not p.always_reconnect)" % R_DPR)
R.macro("due_before", ["pp", "now"], "prev(dial_guard(pp, now))")
R.contract("Node._reconnect_peers", params={"self": "Node"},
           ensures=[("no-dialling-while-stopping", "implies(old(self._stopping), self.g_dialled == old(self.g_dialled))")],
           raises=[],
           ghost_modifies=["self.g_dialled"],
           modifies=["*Peer.connection", "*Peer.disconnect_reason", "*Peer.last_connect", "*Peer.last_disconnect",
                     "dict:self.connections", "dict:self.peer_sockets", "dict:self.socket_peers",
                     "dict:self._half_ready_connections", "*MsgQueue.g_put", "*SequenceGenerator._sequence", "*Event.flag",
                     "*list:Peer", "dict:self._peer_waiting_answer"],
           props=["C12", "C18"])
R.loop("Node._reconnect_peers", 0,
       invariants=[("not-stopping", "not old(self._stopping)")],
       step=[("dials-exactly-the-peers-due",
              "(len(self.g_dialled) == prev(len(self.g_dialled)) or "
              "(len(self.g_dialled) == prev(len(self.g_dialled)) + 1 and "
              "items(self.g_dialled)[prev(len(self.g_dialled))] == peer)) and "
              "items(self.g_dialled)[0:prev(len(self.g_dialled))] == prev(items(self.g_dialled))"),
             ("due-peer-is-dialled", "implies(prev(dial_guard(peer, int(clock()))), "
                                     "len(self.g_dialled) == prev(len(self.g_dialled)) + 1)"),
             ("dialled-peer-was-due", "implies(len(self.g_dialled) == prev(len(self.g_dialled)) + 1, "
                                      "due_before(peer, int(clock())))")],
       modifies=["self.g_dialled", "*Peer.connection", "*Peer.disconnect_reason", "*Peer.last_connect", "*Peer.last_disconnect",
                 "dict:self.connections", "dict:self.peer_sockets", "dict:self.socket_peers",
                 "dict:self._half_ready_connections", "*MsgQueue.g_put", "*SequenceGenerator._sequence", "*Event.flag",
                 "*list:Peer", "dict:self._peer_waiting_answer"])
