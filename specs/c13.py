"""C13 (table consistency), C12 (reconnect policy), C19 (release of per-connection state)."""
from pyvc.spec import REG as R, Raise
from . import node  # noqa
from .node import CONNECTING, CONNECTED, READY, READY_WAITING_DWA, DISCONNECTING, CLOSING, CLOSED, R_DPR, R_SOCKFAIL, _VB

R.kind_hints[("Node.remove_peer_connection", "{}")] = "Dict[Any:routekey,List[Peer]]"
R.kind_hints[("Node.remove_peer_connection", "[]")] = "List[Peer]"
R.macro("in_no_table", ["n", "c"],
        "not (c.ident in n.connections) and not (c.ident in n.peer_sockets) and "
        "not (c.ident in n._half_ready_connections) and "
        "not (c.socket_fileno in n.socket_peers and n.socket_peers[c.socket_fileno] == c)")

R.contract("Node.remove_peer_connection", params={"self": "Node", "conn": "PeerConnection", "disconnect_reason": "int"},
           ghost={"kc2": "str", "gp": "Peer", "fd2": "int"},
           ensures=[("a-peer-left-without-a-connection-has-a-disconnect-reason-if-it-had-one-or-had-a-connection", "implies(is_none(gp.connection) and (old(not is_none(gp.disconnect_reason)) or old(not is_none(gp.connection))), not is_none(gp.disconnect_reason))"),
                    ("gone-from-every-table", "in_no_table(self, conn)"),
                    # whole-view clauses for the other three tables (round 6, seed C14-16: an entry deleted by descriptor
                    # NUMBER although a later connection owns that number now)
                    ("exactly-this-connections-entry-leaves-the-descriptor-table",
                     "(fd2 in self.socket_peers) == (old(fd2 in self.socket_peers) and "
                     "not (fd2 == conn.socket_fileno and old(self.socket_peers[fd2]) == conn)) and "
                     "implies(fd2 in self.socket_peers, self.socket_peers[fd2] == old(self.socket_peers[fd2]))"),
                    ("exactly-this-connections-socket-leaves-the-socket-table",
                     "(kc2 in self.peer_sockets) == (old(kc2 in self.peer_sockets) and kc2 != conn.ident) and "
                     "implies(kc2 in self.peer_sockets, self.peer_sockets[kc2] == old(self.peer_sockets[kc2]))"),

                    ("pending-answers-dropped", "not (conn.host_identity in self._peer_waiting_answer)"),
                    ("own-link-cleared-with-reason-and-time-or-taken-over",
                     "implies(not is_none(old(peer_of(self, conn))) and old(some(peer_of(self, conn)).connection) == conn, "
                     "ite(is_none(some(old(peer_of(self, conn))).connection), "
                     "not is_none(some(old(peer_of(self, conn))).last_disconnect) and "
                     "not is_none(some(old(peer_of(self, conn))).disconnect_reason), "
                     "some(some(old(peer_of(self, conn))).connection).host_identity == conn.host_identity and "
                     "some(some(old(peer_of(self, conn))).connection) != conn and "
                     "(some(some(old(peer_of(self, conn))).connection).state == 18 or "
                     "some(some(old(peer_of(self, conn))).connection).state == 19)))"),
                    ("another-ready-connection-of-the-same-peer-takes-over-the-link",
                     "implies(not is_none(old(peer_of(self, conn))) and old(some(peer_of(self, conn)).connection) == conn and "
                     "old(peer_of(self, conn)) == ite(conn.host_identity in self.peers, self.peers[conn.host_identity], None) and "
                     "conn.host_identity != '' and kc2 in self.connections and "
                     "self.connections[kc2].host_identity == conn.host_identity and "
                     "(self.connections[kc2].state == 18 or self.connections[kc2].state == 19), "
                     "not is_none(some(old(peer_of(self, conn))).connection))"),
                    ("exactly-this-connection-leaves-the-table",
                     "(kc2 in self.connections) == (old(kc2 in self.connections) and kc2 != conn.ident) and "
                     "implies(kc2 in self.connections, self.connections[kc2] == old(self.connections[kc2]))"),
                    ("already-set-reason-kept",
                     "implies(not is_none(old(peer_of(self, conn))) and not is_none(old(some(peer_of(self, conn)).disconnect_reason)) and "
                     "not (old(some(peer_of(self, conn)).connection) == conn and not is_none(some(old(peer_of(self, conn))).connection)), "
                     "some(old(peer_of(self, conn))).disconnect_reason == old(some(peer_of(self, conn)).disconnect_reason))"),
                    ("sibling-connection-keeps-the-peer-link",
                     "implies(not is_none(old(peer_of(self, conn))) and not is_none(old(some(peer_of(self, conn)).connection)) and "
                     "old(some(some(peer_of(self, conn)).connection)) != conn, "
                     "some(old(peer_of(self, conn))).connection == old(some(peer_of(self, conn)).connection))")],
           modifies=["dict:self.connections", "dict:self.peer_sockets", "dict:self.socket_peers",
                     "dict:self._half_ready_connections", "dict:self._peer_waiting_answer",
                     "*Peer.connection", "*Peer.last_disconnect", "*Peer.disconnect_reason", "*Peer.last_connect", "*Event.flag",
                     "*list:Peer"],
           props=["C13", "C12", "C19", "C09", "C07", "C14"])
R.contracts["Node.remove_peer_connection"].ghost_bind = {"Node._assign_peer_connection": {"k": "conn.ident", "gp": ["some(peer)", "gp"]}}
R.model("Event", fields={"g_owner": "Any"})


@R.specfn("event_owned")
def _event_owned(ex, st, app):
    """instance of the object invariant `app.is_ready.g_owner == app` (ground obligation C13.own: is_ready is assigned
    once, in Application.__init__, to a new Event): distinct applications have distinct ready events"""
    from pyvc.smt import Eq
    app = ex.unwrap(app)
    ev = ex.read_field(st, app, "is_ready")
    return _VB(Eq(ex.read_field(st, ev, "g_owner").t, app.t))


@R.specfn("vals_new_and_distinct")
def _vals_new_and_distinct(ex, st, d):
    """every value of a (local) table of lists was allocated after function entry, and distinct keys hold distinct
    lists: two quantified facts over the table's domain/value arrays (z3 proves their preservation by instantiation)"""
    from pyvc.smt import T, BOOL, select
    d = ex.unwrap(d)
    ks, dom, vals = ex._dict_keys(d)
    from pyvc.smt import arr
    domt = select(ex.heap_array(st, dom, "Int", arr(ks, "Bool")), d.t)
    valt = select(ex.heap_array(st, vals[0][0], "Int", arr(ks, vals[0][1])), d.t)
    a0 = ex.entry_state.alloc.s
    f1 = f"(forall ((k!q {ks})) (=> (select {domt.s} k!q) (and (<= {a0} (select {valt.s} k!q)) (< (select {valt.s} k!q) {st.alloc.s}))))"
    f2 = (f"(forall ((k!q1 {ks}) (k!q2 {ks})) (=> (and (select {domt.s} k!q1) (select {domt.s} k!q2) (not (= k!q1 k!q2))) "
          f"(not (= (select {valt.s} k!q1) (select {valt.s} k!q2)))))")
    return _VB(T(f"(and {f1} {f2})", BOOL))


@R.specfn("entry_closed")
def _entry_closed(ex, st, d):
    """heap closure at function entry for a table of references: every value stored in the table was allocated before
    entry (one quantified fact over the table's value array).  Only meaningful in entry_facts."""
    from pyvc.smt import T, BOOL, select, arr
    d = ex.unwrap(d)
    ks, dom, vals = ex._dict_keys(d)
    domt = select(ex.heap_array(st, dom, "Int", arr(ks, "Bool")), d.t)
    valt = select(ex.heap_array(st, vals[0][0], "Int", arr(ks, vals[0][1])), d.t)
    a0 = (ex.entry_state or st).alloc.s
    return _VB(T(f"(forall ((k!c {ks})) (=> (select {domt.s} k!c) (< (select {valt.s} k!c) {a0})))", BOOL))


@R.specfn("entry_allocated")
def _entry_allocated(ex, st, v):
    """heap closure at function entry: a reference read from the entry heap denotes an object allocated before entry.
    Only meaningful in entry_facts (where the expression is evaluated in the entry state)."""
    from pyvc.smt import And, Lt, I
    v = ex.unwrap(v)
    return _VB(And(Lt(I(0), v.t), Lt(v.t, (ex.entry_state or st).alloc)))


R.macro("peer_ready", ["p"], "not is_none(p.connection) and (some(p.connection).state == %d or some(p.connection).state == %d)"
        % (READY, READY_WAITING_DWA))
_RP_GHOST = {"r": "str", "w": "Any:routekey", "p": "Peer", "w2": "Any:routekey"}
R.contracts["Node.remove_peer_connection"].ghost.update({k: __import__("pyvc.values", fromlist=["parse_kind"]).parse_kind(v)
                                                         for k, v in _RP_GHOST.items()})
R.contracts["Node.remove_peer_connection"].entry_facts.append(
    "implies(r in self._peer_routes and w in routes(self, r), entry_allocated(routes(self, r)[w]))")
R.contracts["Node.remove_peer_connection"].ensures.append(__import__("pyvc.spec", fromlist=["Clause"]).Clause(
    "an-application-with-a-ready-configured-peer-stays-ready",
    "implies(route_peer(self, r, w, p) and peer_ready(p), as_app(w).is_ready.flag == old(as_app(w).is_ready.flag))"))
_AL_FRESH = ("collected-lists-are-new-and-distinct", "vals_new_and_distinct(app_list)")
_AL_ROUTES = ("route-lists-untouched", "implies(r in self._peer_routes and w in routes(self, r), "
                                       "items(routes(self, r)[w]) == old(items(routes(self, r)[w])))")
_AL_FLAG0 = ("flags-untouched-so-far", "as_app(w).is_ready.flag == old(as_app(w).is_ready.flag)")
@R.specfn("conn_keyed_by_ident")
def _conn_keyed(ex, st, n, k):
    """instance of the table invariant `self.connections[k].ident == k` (established by _add_peer_connection, the only
    writer of the table besides deletions)"""
    from pyvc.speceval import SpecEnv
    return _VB(ex.spec_bool(SpecEnv(st, {"n": ex.unwrap(n), "k": ex.unwrap(k)}),
                            "implies(k in n.connections, n.connections[k].ident == k)"))


R.assume("table invariant (assumed, instantiated for the visited key): Node.connections is keyed by PeerConnection.ident")
_LINK = "some(old(peer_of(self, conn))).connection"
_RDY = "(some(LINK).state == 18 or some(LINK).state == 19)".replace("LINK", _LINK)
_TAKEN = ("implies(not is_none(old(peer_of(self, conn))) and old(some(peer_of(self, conn)).connection) == conn and "
          "not is_none(LINK), some(LINK).host_identity == conn.host_identity and RDY and some(LINK) != conn)"
          .replace("RDY", _RDY).replace("LINK", _LINK))
R.loop("Node.remove_peer_connection", 0,       # take-over: another ready connection of the same peer gets the link
       invariants=[("visited-connections-did-not-qualify-or-the-link-is-taken",
                    ("implies(kc2 in done0 and self.connections[kc2].host_identity == conn.host_identity and "
                     "conn.host_identity != '' and (self.connections[kc2].state == 18 or self.connections[kc2].state == 19) and "
                     "old(peer_of(self, conn)) == ite(conn.host_identity in self.peers, self.peers[conn.host_identity], None), "
                     "not is_none(LINK))").replace("LINK", _LINK)),
                   ("link-empty-or-taken-over-by-a-ready-connection-of-the-same-peer", _TAKEN),
                   ("tables-already-cleaned", "in_no_table(self, conn)"),
                   ("a-peer-left-without-a-connection-has-a-disconnect-reason-if-it-had-one-or-had-a-connection", "implies(is_none(gp.connection) and (old(not is_none(gp.disconnect_reason)) or old(not is_none(gp.connection))), not is_none(gp.disconnect_reason))"),
                   ("reason-and-time-kept-while-the-link-is-empty",
                    "implies(is_none(some(peer).connection), some(peer).disconnect_reason == reason0 and "
                    "some(peer).last_disconnect == ld0)"),
                   ("the-peer-is-the-connections-peer", "peer == old(peer_of(self, conn))"),
                   ("disconnect-stamped",
                    ("implies(not is_none(old(peer_of(self, conn))) and old(some(peer_of(self, conn)).connection) == conn and "
                     "is_none(LINK), not is_none(some(old(peer_of(self, conn))).last_disconnect) and "
                     "not is_none(some(old(peer_of(self, conn))).disconnect_reason))").replace("LINK", _LINK))],
       entry_snap={"reason0": "some(peer).disconnect_reason", "ld0": "some(peer).last_disconnect"},
       hints=["conn_keyed_by_ident(self, cur)"],
       modifies=["*Peer.connection", "*Peer.disconnect_reason", "*Peer.last_connect", "dict:self._half_ready_connections"])
R.loop("Node.remove_peer_connection", 1,
       invariants=[_AL_FRESH, _AL_ROUTES, _AL_FLAG0,
                   ("peers-of-visited-realms-collected",
                    "implies(r in done1 and route_peer(self, r, w, p), w in app_list and p in items(app_list[w]))")],
       modifies=["dict:app_list", "*list:Peer"])
R.loop("Node.remove_peer_connection", 2,
       invariants=[_AL_FRESH, _AL_ROUTES, _AL_FLAG0,
                   ("peers-of-visited-realms-collected",
                    "implies(r in done1 and route_peer(self, r, w, p), w in app_list and p in items(app_list[w]))"),
                   ("peers-of-visited-apps-collected",
                    "implies(cur1 == r and w in done2 and route_peer(self, r, w, p), w in app_list and p in items(app_list[w]))")],
       modifies=["dict:app_list", "*list:Peer"])
_KEEP = ("an-application-with-a-ready-collected-peer-keeps-its-flag",
         "implies(w in app_list and is_app(w) and p in items(app_list[w]) and peer_ready(p), "
         "as_app(w).is_ready.flag == old(as_app(w).is_ready.flag))")
R.loop("Node.remove_peer_connection", 3, invariants=[_KEEP], modifies=["*Event.flag"],
       hints=["event_owned(as_app(cur))", "event_owned(as_app(w))"],
       step=[("an-application-left-ready-has-a-ready-peer-among-those-collected-for-it",
              "implies(is_app(app) and as_app(app).is_ready.flag, any_peer_ready and peer_ready(app_peer) and "
              "app_peer in items(peers))")],
       local_kinds={"any_peer_ready": "bool", "app_peer": "Peer"})
R.loop("Node.remove_peer_connection", 4,
       invariants=[_KEEP, ("none-ready-so-far", "not any_peer_ready"),
                   ("visited-peers-not-ready", "implies(p in done4, not peer_ready(p))")],
       local_kinds={"any_peer_ready": "bool"})

R.contract("Node._generate_connection_id", trusted=True, params={"self": "Node", "cur_iteration": "int"}, returns="str",
           ensures=["not (result in self.connections)"], raises=[Raise("RuntimeError", "True", "may")], pure=True,
           note="ASSUMED: os.urandom based id, retried until unused")
R.macro("workers_stopped", ["c"], "c._read_thread.stopped and c._write_thread.stopped")
R.macro("tables_unchanged", ["n"], "unchanged(n.connections) and unchanged(n.peer_sockets) and unchanged(n.socket_peers) "
                                   "and unchanged(n._half_ready_connections)")
R.contract("Node._add_peer_connection",
           params={"self": "Node", "conn": "PeerConnection", "peer_socket": "Socket", "proto": "int"}, returns="Opt[str]",
           ghost={"gp": "Peer"},
           ensures=[("a-peer-left-without-a-connection-has-a-disconnect-reason-if-it-had-one-or-had-a-connection", "implies(is_none(gp.connection) and (old(not is_none(gp.disconnect_reason)) or old(not is_none(gp.connection))), not is_none(gp.disconnect_reason))"),
                    ("refused-while-stopping",
                     "implies(old(self._stopping), is_none(result) and peer_socket.closed and tables_unchanged(self))"),
                    ("refused-connection-is-released",
                     "implies(is_none(result), peer_socket.closed and tables_unchanged(self) and workers_stopped(conn))"),
                    ("second-connection-of-a-connected-peer-refused",
                     "implies(not old(self._stopping) and old(conn.node_name != '' and conn.node_name in self.peers and "
                     "not is_none(self.peers[conn.node_name].connection)), is_none(result))"),
                    ("a-registered-connection-keeps-its-state",
                     "implies(not is_none(result), conn.state == old(conn.state))"),
                    ("registered-in-every-table",
                     "implies(not is_none(result), conn.ident == some(result) and self.connections[conn.ident] == conn and "
                     "conn.ident in self.connections and conn.ident in self.peer_sockets and "
                     "self.peer_sockets[conn.ident] == peer_socket and conn.socket_fileno == peer_socket.fd and "
                     "conn.socket_fileno in self.socket_peers and self.socket_peers[conn.socket_fileno] == conn and "
                     "not old(some(result) in self.connections))"),
                    ("linked-to-its-peer-or-half-ready",
                     "implies(not is_none(result), "
                     "ite(not is_none(peer_of(self, conn)) and old(is_none(some(peer_of(self, conn)).connection)), "
                     "some(peer_of(self, conn)).connection == conn and is_none(some(peer_of(self, conn)).disconnect_reason), "
                     "conn.ident in self._half_ready_connections and self._half_ready_connections[conn.ident] == conn))")],
           raises=[Raise("RuntimeError", "True", "may")],
           ensures_exc={"RuntimeError": [("a-peer-left-without-a-connection-has-a-disconnect-reason-if-it-had-one-or-had-a-connection", "implies(is_none(gp.connection) and (old(not is_none(gp.disconnect_reason)) or old(not is_none(gp.connection))), not is_none(gp.disconnect_reason))")]},
           modifies=["peer_socket.closed", "conn.ident", "conn.socket_fileno", "conn.socket_proto", "conn.message_handler",
                     "conn.state", "conn._read_thread.stopped", "conn._write_thread.stopped",
                     "dict:self.connections", "dict:self.peer_sockets", "dict:self.socket_peers",
                     "dict:self._half_ready_connections", "*Peer.connection", "*Peer.disconnect_reason", "*Peer.last_connect"],
           props=["C13", "C12", "C18", "C19"])

R.contract("Node._assign_peer_connection", params={"self": "Node", "conn": "PeerConnection"},
           ghost={"k": "str", "gp": "Peer"},
           ensures=[("a-peer-left-without-a-connection-has-a-disconnect-reason-if-it-had-one-or-had-a-connection", "implies(is_none(gp.connection) and (old(not is_none(gp.disconnect_reason)) or old(not is_none(gp.connection))), not is_none(gp.disconnect_reason))"),
                    ("other-half-ready-entries-untouched",
                     "implies(k != conn.ident, (k in self._half_ready_connections) == old(k in self._half_ready_connections))"),
                    ("other-peers-untouched",
                     "implies(not (conn.host_identity != '' and conn.host_identity in self.peers and "
                     "self.peers[conn.host_identity] == gp), gp.connection == old(gp.connection) and "
                     "gp.disconnect_reason == old(gp.disconnect_reason) and gp.last_connect == old(gp.last_connect))"),
                    ("known-peer-gets-linked",
                     "implies(conn.host_identity != '' and conn.host_identity in self.peers, "
                     "is_none(self.peers[conn.host_identity].disconnect_reason) and "
                     "not is_none(self.peers[conn.host_identity].connection) and "
                     "implies(old(is_none(self.peers[conn.host_identity].connection)), "
                     "some(self.peers[conn.host_identity].connection) == conn) and "
                     "not (conn.ident in self._half_ready_connections))"),
                    ("existing-link-kept",
                     "implies(conn.host_identity != '' and conn.host_identity in self.peers and "
                     "old(not is_none(self.peers[conn.host_identity].connection)), "
                     "self.peers[conn.host_identity].connection == old(self.peers[conn.host_identity].connection))"),
                    ("unknown-peer-untouched", "implies(conn.host_identity == '' or not (conn.host_identity in self.peers), "
                                               "unchanged(self._half_ready_connections))")],
           modifies=["*Peer.connection", "*Peer.disconnect_reason", "*Peer.last_connect", "dict:self._half_ready_connections"],
           props=["C13"])
R.contract("Node._flag_peer_as_connected", params={"self": "Node", "conn": "PeerConnection"},
           ensures=[("connected", "conn.state == %d" % CONNECTED)],
           modifies=["conn.state", "*Peer.last_connect"], props=["C13", "C06"])
R.macro("route_peer", ["n", "r", "w", "p"],
        "r in n._peer_routes and w in routes(n, r) and is_app(w) and p in items(routes(n, r)[w])")
R.contract("Node._flag_connection_as_ready", params={"self": "Node", "conn": "PeerConnection"},
           ghost={"a": "Application", "r": "str", "w": "Any:routekey", "p": "Peer"},
           ensures=[("ready", "conn.state == %d" % READY),
                    ("only-sets-ready-flags", "implies(old(a.is_ready.flag), a.is_ready.flag)"),
                    ("an-application-whose-configured-peer-got-this-connection-reports-ready",
                     "implies(route_peer(self, r, w, p) and p.connection == conn, as_app(w).is_ready.flag)")],
           modifies=["conn.state", "*Event.flag"], props=["C13", "C06"])
_MONO = ("monotone", "implies(old(a.is_ready.flag), a.is_ready.flag)")
_STATE = ("state", "conn.state == %d" % READY)
R.loop("Node._flag_connection_as_ready", 0,
       invariants=[_STATE, _MONO,
                   ("visited-realms-done", "implies(r in done0 and route_peer(self, r, w, p) and p.connection == conn, "
                                           "as_app(w).is_ready.flag)")],
       modifies=["*Event.flag"])
R.loop("Node._flag_connection_as_ready", 1,
       invariants=[_STATE, _MONO,
                   ("visited-realms-done", "implies(r in done0 and route_peer(self, r, w, p) and p.connection == conn, "
                                           "as_app(w).is_ready.flag)"),
                   ("visited-apps-of-this-realm-done",
                    "implies(cur0 == r and w in done1 and route_peer(self, r, w, p) and p.connection == conn, "
                    "as_app(w).is_ready.flag)")],
       modifies=["*Event.flag"])
R.loop("Node._flag_connection_as_ready", 2,
       invariants=[_STATE, _MONO,
                   ("visited-realms-done", "implies(r in done0 and route_peer(self, r, w, p) and p.connection == conn, "
                                           "as_app(w).is_ready.flag)"),
                   ("visited-apps-of-this-realm-done",
                    "implies(cur0 == r and w in done1 and route_peer(self, r, w, p) and p.connection == conn, "
                    "as_app(w).is_ready.flag)"),
                   ("no-visited-peer-has-this-connection", "implies(p in done2, p.connection != conn)")],
       modifies=["*Event.flag"])

del R.contracts["Node.close_connection_socket"]
R.contract("Node.close_connection_socket", params={"self": "Node", "conn": "PeerConnection", "disconnect_reason": "int"},
           ghost={"gs": "Socket", "kc2": "str", "gp": "Peer"},
           ghost_modifies=["conn.g_close_calls", "conn.g_close_reason"],
           ghost_ensures=["conn.g_close_calls == old(conn.g_close_calls) + 1", "conn.g_close_reason == disconnect_reason"],
           ensures=[("a-peer-left-without-a-connection-has-a-disconnect-reason-if-it-had-one-or-had-a-connection", "implies(is_none(gp.connection) and (old(not is_none(gp.disconnect_reason)) or old(not is_none(gp.connection))), not is_none(gp.disconnect_reason))"),
                    ("nothing-sent", "nothing_sent(conn)"),
                    ("gone-from-every-table", "in_no_table(self, conn)"),
                    ("registered-socket-closed-and-workers-stopped",
                     "implies(old(conn.ident in self.peer_sockets), old(self.peer_sockets[conn.ident]).closed and "
                     "conn.state == %d and workers_stopped(conn))" % CLOSED),
                    ("never-reopens-a-socket-or-restarts-a-worker",
                     "implies(old(gs.closed), gs.closed) and implies(old(workers_stopped(conn)), workers_stopped(conn))"),
                    ("exactly-this-connection-leaves-the-table",
                     "(kc2 in self.connections) == (old(kc2 in self.connections) and kc2 != conn.ident) and "
                     "implies(kc2 in self.connections, self.connections[kc2] == old(self.connections[kc2]))"),
                    ("unregistered-connection-keeps-its-state",
                     "implies(not old(conn.ident in self.peer_sockets), conn.state == old(conn.state))"),
                    ("pending-answers-dropped", "not (conn.host_identity in self._peer_waiting_answer)")],
           modifies=["conn.state", "conn._read_thread.stopped", "conn._write_thread.stopped", "*Socket.closed",
                     "dict:self.connections", "dict:self.peer_sockets", "dict:self.socket_peers",
                     "dict:self._half_ready_connections", "dict:self._peer_waiting_answer",
                     "*Peer.connection", "*Peer.last_disconnect", "*Peer.last_connect", "*Peer.disconnect_reason", "*Event.flag", "*list:Peer"],
           props=["C13", "C19", "C11", "C14"])

# ---- C12: reconnect policy -------------------------------------------------------------------------------------
R.model("Node", fields={"g_dialled": "Seq[Peer]"})
R.inline_fn("Peer.disconnected_since")
R.contract("Node._connect_to_peer", trusted=True, params={"self": "Node", "peer": "Peer"},
           ghost={"gp": "Peer"},
           ensures=[("a-peer-left-without-a-connection-has-a-disconnect-reason-if-it-had-one-or-had-a-connection", "implies(is_none(gp.connection) and (old(not is_none(gp.disconnect_reason)) or old(not is_none(gp.connection))), not is_none(gp.disconnect_reason))")],
           raises=[Raise("Exception", "True", "may")],
           ghost_modifies=["self.g_dialled"],
           ghost_ensures=["self.g_dialled == old(self.g_dialled) + [peer]"],
           ensures_exc={"Exception": ["self.g_dialled == old(self.g_dialled) + [peer]", ("a-peer-left-without-a-connection-has-a-disconnect-reason-if-it-had-one-or-had-a-connection", "implies(is_none(gp.connection) and (old(not is_none(gp.disconnect_reason)) or old(not is_none(gp.connection))), not is_none(gp.disconnect_reason))")]},
           modifies=["peer.connection", "peer.disconnect_reason", "peer.last_connect", "peer.last_disconnect",
                     "dict:self.connections", "dict:self.peer_sockets", "dict:self.socket_peers",
                     "dict:self._half_ready_connections", "*MsgQueue.g_put", "*SequenceGenerator._sequence", "*Event.flag",
                     "*list:Peer", "dict:self._peer_waiting_answer"],
           note="every call is a dial attempt (ghost log); its own guards are verified as Node._connect_to_peer#guards")
R.macro("dial_guard", ["p", "now"],
        "p.persistent and is_none(p.connection) and not is_none(p.last_disconnect) and some(p.last_disconnect) != 0 and "
        "now - some(p.last_disconnect) >= p.reconnect_wait and "
        "not (not is_none(p.disconnect_reason) and some(p.disconnect_reason) == %d and not p.always_reconnect)" % R_DPR)
R.macro("due_before", ["pp", "now"], "prev(dial_guard(pp, now))")
R.contract("Node._reconnect_peers", params={"self": "Node"},
           ensures=[("no-dialling-while-stopping", "implies(old(self._stopping), self.g_dialled == old(self.g_dialled))")],
           raises=[],
           ghost_modifies=["self.g_dialled"],
           modifies=["*Peer.connection", "*Peer.disconnect_reason", "*Peer.last_connect", "*Peer.last_disconnect",
                     "dict:self.connections", "dict:self.peer_sockets", "dict:self.socket_peers",
                     "dict:self._half_ready_connections", "*MsgQueue.g_put", "*SequenceGenerator._sequence", "*Event.flag",
                     "*list:Peer", "dict:self._peer_waiting_answer", "*PeerConnection.state", "*Socket.closed",
                     "*StoppableThread.stopped"],
           props=["C12", "C18", "C13"])
R.loop("Node._reconnect_peers", 0,
       invariants=[("not-stopping", "not old(self._stopping)")],
       step=[("dials-exactly-the-peers-due",
              "(len(self.g_dialled) == prev(len(self.g_dialled)) or "
              "(len(self.g_dialled) == prev(len(self.g_dialled)) + 1 and "
              "items(self.g_dialled)[prev(len(self.g_dialled))] == peer)) and "
              "items(self.g_dialled)[0:prev(len(self.g_dialled))] == prev(items(self.g_dialled))"),
             ("due-peer-is-dialled", "implies(prev(dial_guard(peer, int(clock()))), "
                                     "len(self.g_dialled) == prev(len(self.g_dialled)) + 1)"),
             ("dialled-peer-was-due", "implies(len(self.g_dialled) == prev(len(self.g_dialled)) + 1, "
                                      "due_before(peer, int(clock())))"),
             ("a-peer-that-still-has-no-connection-keeps-its-disconnect-reason",
              "implies(is_none(peer.connection) and prev(not is_none(peer.disconnect_reason)), "
              "not is_none(peer.disconnect_reason))")],
       modifies=["self.g_dialled", "*Peer.connection", "*Peer.disconnect_reason", "*Peer.last_connect", "*Peer.last_disconnect",
                 "dict:self.connections", "dict:self.peer_sockets", "dict:self.socket_peers",
                 "dict:self._half_ready_connections", "*MsgQueue.g_put", "*SequenceGenerator._sequence", "*Event.flag",
                 "*list:Peer", "dict:self._peer_waiting_answer", "*PeerConnection.state", "*Socket.closed",
                 "*StoppableThread.stopped"])

R.contracts["Node._reconnect_peers"].ghost_bind = {"Node._connect_to_peer": {"gp": "peer"}}
