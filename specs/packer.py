"""Contracts for diameter/message/packer.py (C01, C02, C04)."""
from pyvc.spec import REG as R, Raise
from . import env  # noqa

R.model("Packer", fields={"_Packer__buf": "BytesIO"})
R.model("Unpacker", fields={"_Unpacker__buf": "bytes", "_Unpacker__pos": "int"})

R.macro("pbuf", ["p"], "p._Packer__buf.data")

R.contract("Packer.__init__", params={"self": "Packer"},
           ensures=["pbuf(self) == b''", "fresh(self._Packer__buf)"], modifies=["self._Packer__buf"])
R.contract("Packer.reset", params={"self": "Packer"},
           ensures=["pbuf(self) == b''", "fresh(self._Packer__buf)"], modifies=["self._Packer__buf"])
R.contract("Packer.get_buffer", params={"self": "Packer"}, returns="bytes",
           ensures=["result == pbuf(self)"])
R.contract("Packer.pack_uint", params={"self": "Packer", "x": "int"},
           ensures=[("appends-be32", "pbuf(self) == old(pbuf(self)) + be32(x)")],
           raises=[Raise("ConversionError", "not (0 <= x < 2**32)", "iff")],
           modifies=["self._Packer__buf.data"], props=["C01", "C02"])
R.contract("Packer.pack_fstring", params={"self": "Packer", "n": "int", "s": "bytes"},
           ensures=[("appends-padded",
                     "pbuf(self) == old(pbuf(self)) + s[:n] + zeros(((n + 3) // 4) * 4 - len(s[:n]))")],
           raises=[Raise("ConversionError", "n < 0", "iff")],
           modifies=["self._Packer__buf.data"], props=["C01"])

R.inline_fn("Unpacker.reset")
R.macro("ubuf", ["u"], "u._Unpacker__buf")
R.macro("upos", ["u"], "u._Unpacker__pos")
R.contract("Unpacker.__init__", params={"self": "Unpacker", "data": "bytes"},
           ensures=["ubuf(self) == data", "upos(self) == 0"],
           modifies=["self._Unpacker__buf", "self._Unpacker__pos"])
R.contract("Unpacker.get_position", params={"self": "Unpacker"}, returns="int",
           ensures=["result == upos(self)"])
R.contract("Unpacker.set_position", params={"self": "Unpacker", "position": "int"},
           ensures=["upos(self) == position"], modifies=["self._Unpacker__pos"])
R.contract("Unpacker.is_done", params={"self": "Unpacker"}, returns="bool",
           ensures=["result == (upos(self) >= len(ubuf(self)))"])
R.contract("Unpacker.unpack_uint", params={"self": "Unpacker"}, returns="int",
           requires=["upos(self) >= 0"],
           ensures=[("value", "result == u32(ubuf(self)[old(upos(self)):old(upos(self)) + 4])"),
                    ("advance", "upos(self) == old(upos(self)) + 4"),
                    ("in-buffer", "upos(self) <= len(ubuf(self))")],
           raises=[Raise("ConversionError", "upos(self) + 4 > len(ubuf(self))", "iff")],
           modifies=["self._Unpacker__pos"], props=["C01", "C02", "C04"])
R.contract("Unpacker.unpack_fstring", params={"self": "Unpacker", "n": "int"}, returns="bytes",
           requires=["upos(self) >= 0"],
           ensures=[("value", "result == ubuf(self)[old(upos(self)):old(upos(self)) + n]"),
                    ("length", "len(result) == n"),
                    ("advance", "upos(self) == old(upos(self)) + (n + 3) // 4 * 4"),
                    ("in-buffer", "upos(self) <= len(ubuf(self))")],
           raises=[Raise("ConversionError", "n < 0 or upos(self) + (n + 3) // 4 * 4 > len(ubuf(self))", "iff")],
           modifies=["self._Unpacker__pos"], props=["C01", "C04"])

# the remaining primitives are not used by the package today; they are under contract so that a change
# which starts using one of them is decided (and not merely 'unsupported')
R.macro("s32v", ["b"], "ite(u32(b) < 2**31, u32(b), u32(b) - 2**32)")
R.contract("Packer.pack_int", params={"self": "Packer", "x": "int"},
           ensures=[("appends-be32", "pbuf(self) == old(pbuf(self)) + be32(x % 2**32)")],
           raises=[Raise("ConversionError", "not (-2**31 <= x < 2**31)", "iff")],
           modifies=["self._Packer__buf.data"], props=["C01"])
R.contract("Unpacker.unpack_int", params={"self": "Unpacker"}, returns="int",
           requires=["upos(self) >= 0"],
           ensures=[("value", "result == s32v(ubuf(self)[old(upos(self)):old(upos(self)) + 4])"),
                    ("advance", "upos(self) == old(upos(self)) + 4"),
                    ("in-buffer", "upos(self) <= len(ubuf(self))")],
           raises=[Raise("ConversionError", "upos(self) + 4 > len(ubuf(self))", "iff")],
           modifies=["self._Unpacker__pos"], props=["C01", "C02", "C04"])
R.contract("Unpacker.unpack_char", params={"self": "Unpacker"}, returns="int",
           requires=["upos(self) >= 0"],
           ensures=[("value", "result == u8(ubuf(self)[old(upos(self)):old(upos(self)) + 1])"),
                    ("advance", "upos(self) == old(upos(self)) + 1"),
                    ("in-buffer", "upos(self) <= len(ubuf(self))")],
           raises=[Raise("ConversionError", "upos(self) + 1 > len(ubuf(self))", "iff")],
           modifies=["self._Unpacker__pos"], props=["C04"])
R.contract("Unpacker.unpack_uhyper", params={"self": "Unpacker"}, returns="int",
           requires=["upos(self) >= 0"],
           ensures=[("value", "result == u32(ubuf(self)[old(upos(self)):old(upos(self)) + 4]) * 2**32 + "
                              "u32(ubuf(self)[old(upos(self)) + 4:old(upos(self)) + 8])"),
                    ("advance", "upos(self) == old(upos(self)) + 8")],
           raises=[Raise("ConversionError", "upos(self) + 8 > len(ubuf(self))", "iff")],
           modifies=["self._Unpacker__pos"], props=["C04"])
