"""C20: answers built through a node or an application (the header part is Message.to_answer in specs/base.py)."""
from pyvc.spec import REG as R, Raise
from . import node_model  # noqa

_ANSWER_ENS = [
    ("header", "result.header.version == msg.header.version and "
               "result.header.application_id == msg.header.application_id and "
               "result.header.hop_by_hop_identifier == msg.header.hop_by_hop_identifier and "
               "result.header.end_to_end_identifier == msg.header.end_to_end_identifier and "
               "result.header.command_flags == 64 * bit6(msg.header.command_flags)"),
    ("code", "ite(is_generic_msg(result), result.header.command_code == msg.header.command_code, "
             "result.header.command_code == class_code(result))"),
    ("origin-host", "result.origin_host == utf8(NODE.origin_host)"),
    ("origin-realm", "result.origin_realm == utf8(NODE.realm_name)"),
    ("session-id", "implies(old(hasattr(msg, 'session_id')), hasattr(result, 'session_id') and "
                   "result.session_id == ite(old(has(msg, 'session_id')), old(msg.session_id), None))"),
    ("fresh", "fresh(result)"),
]
R.contract("Node._generate_answer", params={"self": "Node", "conn": "PeerConnection", "msg": "Message"},
           returns="Message",
           requires=[("flags-octet", "0 <= msg.header.command_flags < 256"),
                     ("identity-encodable", "encodable(self.origin_host) and encodable(self.realm_name)")],
           ensures=[(l, e.replace("NODE", "self")) for l, e in _ANSWER_ENS if l not in ("session-id",)] + [
               ("session-id", "implies(old(has(msg, 'session_id')), result.session_id == old(msg.session_id))"),
               ("proxy-info", "implies(old(has(msg, 'proxy_info')), result.proxy_info == old(msg.proxy_info))")],
           allocates=True, props=["C20", "C07"])

R.inline_fn("Application.node")
R.contract("Application.generate_answer",
           params={"self": "Application", "message": "Message", "result_code": "Opt[int]", "error_message": "Opt[str]"},
           returns="Message",
           requires=[("flags-octet", "0 <= message.header.command_flags < 256"),
                     ("registered", "not is_none(self._node)"),
                     ("identity-encodable", "encodable(some(self._node).origin_host) and encodable(some(self._node).realm_name)")],
           ensures=[("header", "result.header.version == message.header.version and "
                               "result.header.application_id == message.header.application_id and "
                               "result.header.hop_by_hop_identifier == message.header.hop_by_hop_identifier and "
                               "result.header.end_to_end_identifier == message.header.end_to_end_identifier and "
                               "result.header.command_flags == 64 * bit6(message.header.command_flags)"),
                    ("code", "ite(is_generic_msg(result), result.header.command_code == message.header.command_code, "
                             "result.header.command_code == class_code(result))"),
                    ("origin-host", "result.origin_host == utf8(some(self._node).origin_host)"),
                    ("origin-realm", "result.origin_realm == utf8(some(self._node).realm_name)"),
                    ("session-id", "implies(old(has(message, 'session_id')), result.session_id == old(message.session_id))"),
                    ("proxy-info", "implies(old(has(message, 'proxy_info')), result.proxy_info == old(message.proxy_info))"),
                    ("result-code", "implies(not is_none(result_code) and some(result_code) != 0, "
                                    "result.result_code == some(result_code))"),
                    ("fresh", "fresh(result)")],
           allocates=True, props=["C20"])
