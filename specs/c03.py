"""C03/C04: assign_attr_from_defs - what may escape while a decoded AVP list is turned into attributes.

Only the exception behaviour and the frame are under contract here (a "raises-only" contract): the dict comprehension that
indexes the class' avp_def table is abstracted by a region (an arbitrary table of rows), attribute access with computed
names goes through an uninterpreted dynamic-attribute store, container classes are constructed through an assumed hook.
The value round trip itself is NOT decided here (bounded stand-in, props/bounded.py)."""
from pyvc.spec import REG as R, Raise
from pyvc.smt import INT, BOOL, STR, app, Not
from pyvc.values import VAny, VBool, VOpt, VRef, VNone
from pyvc.state import Unsupported
from . import c08  # noqa  (AvpGenDef model, getattr_dyn for messages)

R.model("AvpGenerator", builtin=True, fields={}, dynamic={"additional_avps": "List[Avp]", "_additional_avps": "List[Avp]"},
        open_attrs=True)
R.model("AvpGenDef", fields={"type_class": "Opt[Any:contclass]"})
R.region("assign_attr_from_defs", "AnnAssign", 0, assigns={"needed": "Dict[str,AvpGenDef]"},
         note="needed = {f'{a.avp_code}-{a.vendor_id}': a for a in obj.avp_def}: abstracted to an arbitrary table of rows "
              "(which rows it holds is irrelevant for the exception behaviour)")

_prev_get = R.specfns.get("getattr_dyn")


def _dyn_has(ex, obj_t, name_t):
    ex.decls.fun("gen_hasattr", [INT, STR], BOOL)
    return app("gen_hasattr", BOOL, obj_t, name_t)


@R.specfn("hasattr_dyn")
def _hasattr_dyn(ex, st, v, name):
    v = ex.unwrap(v)
    return VBool(_dyn_has(ex, v.t, ex.unwrap(name).t))


@R.specfn("getattr_dyn")
def _getattr_dyn(ex, st, v, name, k, where):
    """getattr(obj, <computed name>) on an attribute container: AttributeError when absent, else None or an opaque value"""
    vv = ex.unwrap(v)
    if isinstance(vv, VRef) and vv.cls == "AvpGenerator":
        has = _dyn_has(ex, vv.t, ex.unwrap(name).t)
        outs = ex.raise_(st.assume(Not(has)), "AttributeError", where)
        s2 = st.assume(has)
        # reading the same attribute twice without a setattr in between gives the same value: the value is an
        # uninterpreted function of (object, name, store version); every setattr_dyn starts a new version
        ver = _dyn_version(ex, s2)
        ex.decls.fun("gen_attr_none", [INT, STR, INT], BOOL)
        ex.decls.fun("gen_attr_val", [INT, STR, INT], INT)
        nm = ex.unwrap(name).t
        outs += k(s2, VOpt(app("gen_attr_none", BOOL, vv.t, nm, ver), VAny(app("gen_attr_val", INT, vv.t, nm, ver))))
        return outs
    if _prev_get is None:
        raise Unsupported(f"getattr with a computed name at {where}")
    return _prev_get(ex, st, v, name, k, where)


def _dyn_version(ex, st):
    from pyvc.values import VInt
    from pyvc.smt import I
    v = st.ghost.get("$dynver")
    return v.t if v is not None else I(0)


@R.specfn("setattr_dyn")
def _setattr_dyn(ex, st, v, name, val, k, where):
    """setattr(obj, <computed name>, value) on an attribute container: the dynamic-attribute store is uninterpreted
    (gen_hasattr is a fixed predicate here; later reads see a NEW store version, i.e. arbitrary values); raises nothing"""
    from pyvc.values import VInt
    st = st.copy()
    st.ghost = dict(st.ghost)
    st.ghost["$dynver"] = VInt(ex.arbitrary(INT, "dynver"))
    return k(st, VNone)


@R.specfn("call_opaque_contclass")
def _call_contclass(ex, st, f, args, kwargs, k, where):
    """row.type_class(): a new attribute container (a dataclass whose fields all have defaults: the constructor call
    without arguments raises nothing - ASSUMED; ground rows C03.T check that type_class is a class of the package)"""
    s2, obj = ex.alloc_obj(st, "AvpGenerator")
    obj = VRef(obj.t, "AvpGenerator")
    for fld in ("additional_avps", "_additional_avps"):
        s2 = ex.havoc_field(s2, obj.t, "AvpGenerator", fld)
    return k(s2, obj)


R.contract("assign_attr_from_defs#escape", params={"obj": "AvpGenerator", "avp_list": "List[Avp]"},
           raises=[Raise("AvpDecodeError", "True", "may")],
           modifies=["dyn:obj", "*list:Any", "*list:Avp", "*Avp._avps"],
           props=["C04", "C03"],
           note="turning ANY decoded AVP list into attributes lets only AvpDecodeError escape (from a grouped AVP whose payload "
                "is malformed); in particular an AVP that matches no declared row of a container without additional_avps is "
                "dropped, not an AttributeError")
R.loop("assign_attr_from_defs", 0, invariants=[("t", "True")],
       modifies=["dyn:obj", "*list:Any", "*list:Avp", "*Avp._avps"],
       local_kinds={"attr_name": "str", "has_attr": "bool", "current_value": "Opt[Any]", "attr_value": "AvpGenerator",
                    "avp_value": "Opt[Any]", "avp_key": "str"})
R.assume("C03/C04: container classes (AvpGenDef.type_class) are constructed without arguments and do not raise; setattr on an "
         "attribute container does not raise; the rows table `needed` is an arbitrary table (region)")

# ---- generate_avps_from_defs: what is emitted for each row (encode side of C03) ---------------------------------------
from pyvc.spec import Clause  # noqa

R.contract("Avp.new", trusted=True,
           params={"avp_code": "int", "vendor_id": "int", "value": "Opt[Any]", "is_mandatory": "Opt[bool]",
                   "is_private": "Opt[bool]"},
           returns="Avp",
           ensures=[("fields", "result.code == avp_code and result._vendor_id == vendor_id"),
                    ("flags", "result.flags == ite(vendor_id != 0, 128, 0) "
                              "+ ite(new_m(dict_entry(avp_code, vendor_id), is_mandatory), 64, 0) "
                              "+ ite(is_none(is_private), 0, ite(some(is_private), 32, 0))")],
           raises=[Raise("ValueError", "not dict_known(avp_code, vendor_id)", "iff"),
                   Raise("AvpEncodeError", "not is_none(value)", "only_if")],
           allocates=True,
           note="ASSUMED composite of Avp.new with a value: code, vendor and flags as in the verified variant Avp.new#novalue; "
                "the typed value setter (each verified under C01) runs inside `except Exception -> AvpEncodeError`")
R.contract("Avp.value.fset", trusted=True, params={"self": "Avp", "new_value": "Any"},
           raises=[Raise("AvpEncodeError", "True", "may")], modifies=["self.payload", "self._avps"],
           note="behavioural contract of the polymorphic value setter: only payload/_avps change, only AvpEncodeError")
@R.specfn("gen_has")
def _gen_has(ex, st, obj, name):
    return VBool(_dyn_has(ex, ex.unwrap(obj).t, ex.unwrap(name).t))


@R.specfn("gen_none")
def _gen_none(ex, st, obj, name):
    ex.decls.fun("gen_attr_none", [INT, STR, INT], BOOL)
    return VBool(app("gen_attr_none", BOOL, ex.unwrap(obj).t, ex.unwrap(name).t, _dyn_version(ex, st)))


@R.specfn("gen_is_list")
def _gen_is_list(ex, st, obj, name):
    ex.decls.fun("gen_attr_val", [INT, STR, INT], INT)
    ex.decls.fun("tok_isinst", [INT, INT], BOOL)
    tok = app("gen_attr_val", INT, ex.unwrap(obj).t, ex.unwrap(name).t, _dyn_version(ex, st))
    return VBool(app("tok_isinst", BOOL, tok, ex.class_id("list")))


R.macro("attr_set", ["o", "row"], "gen_has(o, row.attr_name) and not gen_none(o, row.attr_name)")
R.macro("row_avp", ["a", "row"],
        "a.code == row.avp_code and a._vendor_id == row.vendor_id and "
        "bit6(a.flags) == ite(new_m(dict_entry(row.avp_code, row.vendor_id), row.is_mandatory), 1, 0) and "
        "bit7(a.flags) == ite(row.vendor_id != 0, 1, 0)")
R.kind_hints[("generate_avps_from_defs", "[]")] = "List[Avp]"
R.contract("generate_avps_from_defs", params={"obj": "AvpGenerator", "strict": "bool"}, returns="List[Avp]",
           ensures=[("a-new-list", "fresh(result)"),
                    ("undeclared-avps-follow-unchanged-at-the-end",
                     "implies(has_avp_def(obj) and has(obj, 'additional_avps'), len(result) >= len(obj.additional_avps) and "
                     "items(result)[len(result) - len(obj.additional_avps):] == items(obj.additional_avps))")],
           raises=[Raise("ValueError", "True", "may"), Raise("AvpEncodeError", "True", "may")],
           modifies=["*Avp.payload", "*Avp._avps"], props=["C03"],
           note="only ValueError (strict mode / unknown AVP) and AvpEncodeError escape; what each row contributes is the step "
                "clause of the loop over the rows")
_GROW = "items(avp_list)[0:prev(len(avp_list))] == prev(items(avp_list)) and len(avp_list) >= prev(len(avp_list))"
R.loop("generate_avps_from_defs", 0,
       ghost={"j": "int"},
       invariants=[("list-is-new", "fresh(avp_list)")],
       step=[("earlier-avps-stay", _GROW),
             ("every-avp-emitted-for-a-row-carries-the-rows-code-vendor-and-m-flag",
              "implies(prev(len(avp_list)) <= j and j < len(avp_list), row_avp(avp_list[j], cur))"),
             ("an-unset-attribute-emits-nothing",
              "implies(prev(not attr_set(obj, cur)), len(avp_list) == prev(len(avp_list)))"),
             ("a-set-scalar-attribute-emits-exactly-one-avp",
              "implies(prev(attr_set(obj, cur) and not gen_is_list(obj, cur.attr_name)), len(avp_list) == prev(len(avp_list)) + 1)")],
       modifies=["list:avp_list", "*Avp.payload", "*Avp._avps"],
       local_kinds={"attr_value": "Opt[Any]", "grouped_avp": "Avp", "single_avp": "Avp", "sub_avps": "List[Avp]",
                    "value": "Any"})
for _o in (1, 2):
    R.loop("generate_avps_from_defs", _o,
           entry_snap={"n_in": "len(avp_list)", "items_in": "items(avp_list)"},
           invariants=[("list-is-new", "fresh(avp_list)"),
                       ("avps-emitted-before-this-row-stay", "items(avp_list)[0:n_in] == items_in and len(avp_list) >= n_in"),
                       ("avps-emitted-for-this-row-carry-its-code-vendor-and-m-flag",
                        "implies(n_in <= j and j < len(avp_list), row_avp(avp_list[j], gen_def))")],
           modifies=["list:avp_list", "*Avp.payload", "*Avp._avps"],
           local_kinds={"grouped_avp": "Avp", "single_avp": "Avp", "sub_avps": "List[Avp]", "value": "Any"})
