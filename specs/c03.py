"""C03/C04: assign_attr_from_defs - what may escape while a decoded AVP list is turned into attributes.

The dict comprehension that indexes the class' avp_def table is executed (every entry stems from a row stored under that
row's own key), attribute access with computed names goes through the value-carrying open attribute store
(heap arrays object -> name -> present / None / token), container classes are constructed through an assumed hook.
Under contract: what escapes, the frame, and - as the step contract of the loop over the AVP list - what each AVP does to
the attributes (decode side of the round trip).  The composition with generate_avps_from_defs and the C01 codecs into
"encode-decode-encode = encode" is argued in DESIGN.md, not mechanised; the bounded stand-in (props/bounded.py) stays."""
from pyvc.spec import REG as R, Raise
from pyvc.smt import INT, BOOL, STR, app, Not
from pyvc.values import VAny, VBool, VOpt, VRef, VNone
from pyvc.state import Unsupported
from . import c08  # noqa  (AvpGenDef model, getattr_dyn for messages)

R.model("AvpGenerator", builtin=True, fields={}, dynamic={"additional_avps": "List[Avp]", "_additional_avps": "List[Avp]"},
        open_attrs=True)
R.model("AvpGenDef", fields={"type_class": "Opt[Any:contclass]"})

_prev_get = R.specfns.get("getattr_dyn")


def _is_open(ex, cls):
    """objects whose attribute set is not fixed by their class (the model says open_attrs)"""
    return any(getattr(ex.reg.models.get(n), "open_attrs", False) for n in ex.class_names_mro(cls))


def _tok_of(ex, val):
    """(is-None flag, integer token) of a value stored into the open attribute store: object references and opaque
    values are their own tokens; anything else (not stored by the functions under contract) is refused"""
    from pyvc.smt import TRUE, FALSE, I
    if val is VNone:
        return TRUE, I(0)
    if isinstance(val, VOpt):
        inner = val.inner
        if hasattr(inner, "t") and inner.t.sort == INT:
            return val.isnone, inner.t
        raise Unsupported(f"setattr of {val!r} into an open attribute store")
    if hasattr(val, "t") and val.t.sort == INT:
        return FALSE, val.t
    raise Unsupported(f"setattr of {val!r} into an open attribute store")


@R.specfn("hasattr_dyn")
def _hasattr_dyn(ex, st, v, name):
    v = ex.unwrap(v)
    return VBool(ex.open_read(st, v.t, ex.unwrap(name).t)[0])


@R.specfn("getattr_dyn")
def _getattr_dyn(ex, st, v, name, k, where):
    """getattr(obj, <computed name>) on an attribute container: AttributeError when absent, else the stored value
    (None or a token) - a select on the open attribute store"""
    vv = ex.unwrap(v)
    if isinstance(vv, VRef) and _is_open(ex, vv.cls):
        has, isnone, tok = ex.open_read(st, vv.t, ex.unwrap(name).t)
        outs = ex.raise_(st.assume(Not(has)), "AttributeError", where)
        s2 = st.assume(has)
        s2.pc.append(_own_list(ex, s2, vv.t, tok))
        outs += k(s2, VOpt(isnone, VAny(tok)))
        return outs
    if _prev_get is None:
        raise Unsupported(f"getattr with a computed name at {where}")
    return _prev_get(ex, st, v, name, k, where)


def _own_list(ex, st, obj_t, tok):
    """ownership instance (ASSUMED for the containers handed to the functions under contract, established for the
    containers they build): a list held in an attribute of a container is an allocated object younger than the container.
    (While the function has not written the store, what it reads existed at entry: older than everything it allocates.)"""
    from pyvc.smt import Implies, And, Lt
    ex.decls.fun("tok_isinst", [INT, INT], BOOL)
    untouched = st.heap.get("$open.val") is ex.initial_heap.get("$open.val") and ex.entry_state is not None
    bound = ex.entry_state.alloc if untouched else st.alloc
    return Implies(app("tok_isinst", BOOL, tok, ex.class_id("list")), And(Lt(obj_t, tok), Lt(tok, bound)))


@R.specfn("own_attr")
def _own_attr(ex, st, obj, name):
    """ownership instance for one attribute of a container (see _own_list)"""
    o = ex.unwrap(obj)
    return VBool(_own_list(ex, st, o.t, ex.open_read(st, o.t, ex.unwrap(name).t)[2]))


@R.specfn("own_attr_not")
def _own_attr_not(ex, st, obj, name, lst):
    """ownership instance: a list held in the named attribute of the container is owned by the container - younger than it
    and not the given other list (the AVP list being exposed)"""
    from pyvc.smt import Implies, And, Ne
    o = ex.unwrap(obj)
    tok = ex.open_read(st, o.t, ex.unwrap(name).t)[2]
    ex.decls.fun("tok_isinst", [INT, INT], BOOL)
    return VBool(And(_own_list(ex, st, o.t, tok),
                     Implies(app("tok_isinst", BOOL, tok, ex.class_id("list")), Ne(tok, ex.unwrap(lst).t))))


@R.specfn("own_list")
def _own_list_spec(ex, st, obj, lst):
    """the list `lst` (a list object) is younger than the container `obj`"""
    from pyvc.smt import And, Lt
    return VBool(And(Lt(ex.unwrap(obj).t, ex.unwrap(lst).t), Lt(ex.unwrap(lst).t, st.alloc)))


@R.specfn("ref")
def _ref(ex, st, obj):
    from pyvc.values import VInt
    return VInt(ex.unwrap(obj).t)


@R.specfn("tok_or0")
def _tok_or0(ex, st, v):
    from pyvc.values import VInt
    from pyvc.smt import Ite, I
    if v is VNone:
        return VInt(I(0))
    if isinstance(v, VOpt):
        return VInt(Ite(v.isnone, I(0), v.inner.t))
    return VInt(v.t)


@R.specfn("tok_is")
def _tok_is(ex, st, tok, lst):
    from pyvc.smt import Eq
    return VBool(Eq(ex.unwrap(tok).t, ex.unwrap(lst).t))


@R.specfn("setattr_dyn")
def _setattr_dyn(ex, st, v, name, val, k, where):
    """setattr(obj, <computed name>, value) on an attribute container: a store on the open attribute store (the
    attribute exists afterwards and holds the value; every other attribute of every object is unchanged); raises
    nothing (ASSUMED: containers define no __setattr__/__slots__ - ground rows C03.T check they are plain dataclasses)"""
    vv = ex.unwrap(v)
    if not (isinstance(vv, VRef) and _is_open(ex, vv.cls)):
        raise Unsupported(f"setattr with a computed name on {vv!r} at {where}")
    isnone, tok = _tok_of(ex, val)
    s2 = ex.open_write(st, vv.t, ex.unwrap(name).t, isnone, tok)
    from pyvc.values import VList
    if isinstance(val, (VList, VRef)):
        # a token that denotes a list object is a list for later isinstance tests on the token; an object of a class is not
        ex.decls.fun("tok_isinst", [INT, INT], BOOL)
        f = app("tok_isinst", BOOL, tok, ex.class_id("list"))
        s2.pc.append(f if isinstance(val, VList) else Not(f))
    return k(s2, VNone)


@R.specfn("call_opaque_contclass")
def _call_contclass(ex, st, f, args, kwargs, k, where):
    """row.type_class(): a new attribute container (a dataclass whose fields all have defaults: the constructor call
    without arguments raises nothing - ASSUMED; ground rows C03.T check that type_class is a class of the package).
    Its attributes are whatever the class declares: arbitrary here."""
    from pyvc.smt import Eq
    s2, obj = ex.alloc_obj(st, "AvpGenerator")
    obj = VRef(obj.t, "AvpGenerator")
    from pyvc.smt import store
    from pyvc.values import parse_kind
    for fld in ("additional_avps", "_additional_avps"):
        # default_factory lists are built by the constructor, after the object: new (empty) lists; whether the class
        # has the attribute at all is arbitrary
        s2, lst = ex.new_list(s2, parse_kind("Avp"))
        s2 = ex.write_field(s2, obj, fld, lst)
        key = f"AvpGenerator.{fld}$has"
        s2.heap[key] = store(ex.heap_array(s2, key, INT, BOOL), obj.t, ex.arbitrary(BOOL, "has_" + fld))
    s2 = ex.open_havoc(s2, obj.t)
    ex.decls.fun("made_by", [INT], INT)
    s2.pc.append(Eq(app("made_by", INT, obj.t), ex.unwrap(f).t))
    return k(s2, obj)


@R.specfn("made_by")
def _made_by(ex, st, obj):
    """the class token a container object was constructed from (ghost)"""
    from pyvc.values import VInt
    ex.decls.fun("made_by", [INT], INT)
    return VInt(app("made_by", INT, ex.unwrap(obj).t))


def _open(ix):
    def fn(ex, st, obj, name):
        r = ex.open_read(st, ex.unwrap(obj).t, ex.unwrap(name).t)[ix]
        from pyvc.values import VInt
        return VBool(r) if ix < 2 else VInt(r)
    return fn


R.specfn("gen_has")(_open(0))
R.specfn("gen_none")(_open(1))
R.specfn("gen_tok")(_open(2))


@R.specfn("gen_is_list")
def _gen_is_list(ex, st, obj, name):
    ex.decls.fun("tok_isinst", [INT, INT], BOOL)
    tok = ex.open_read(st, ex.unwrap(obj).t, ex.unwrap(name).t)[2]
    return VBool(app("tok_isinst", BOOL, tok, ex.class_id("list")))


@R.specfn("tok_items")
def _tok_items(ex, st, tok):
    """the elements of the list an attribute token denotes (a list of opaque values)"""
    from pyvc.values import VList, VSeq, K_ANY
    return VSeq(ex.seq_items(st, VList(ex.unwrap(tok).t, K_ANY)), K_ANY)


@R.specfn("avp_key")
def _avp_key(ex, st, code, vendor):
    """the text f"{code}-{vendor}" (the same injective constructor the engine uses for the f-string in the code)"""
    return R.specfns["fstring"](ex, st, [("expr", 0), ("lit", "-"), ("expr", 1)], [code, vendor])


@R.specfn("none_tok")
def _none_tok(ex, st):
    from pyvc.values import VInt
    return VInt(ex.decls.const("none$token", INT))


@R.specfn("value_tok")
def _value_tok(ex, st, a):
    """what reading `a.value` returns in this state: an uninterpreted function of the object, its payload and its
    decoded-member cache (every typed getter verified under C01 is a function of exactly these)"""
    from pyvc.smt import Ite, I
    a = ex.unwrap(a)
    ex.decls.fun("value_tok", [INT, "(Seq Int)", BOOL, INT], INT)
    has = ex.has_dyn(st, a, "_avps")
    cache = ex.read_field(st, a, "_avps")
    cache = cache.inner if isinstance(cache, VOpt) else cache
    return VAny(app("value_tok", INT, a.t, ex.read_field(st, a, "payload").t, has, Ite(has, cache.t, I(0))))


@R.specfn("value_ok")
def _value_ok(ex, st, a):
    """whether reading `a.value` succeeds in this state (same arguments as value_tok)"""
    from pyvc.smt import Ite, I
    a = ex.unwrap(a)
    ex.decls.fun("value_ok", [INT, "(Seq Int)", BOOL, INT], BOOL)
    has = ex.has_dyn(st, a, "_avps")
    cache = ex.read_field(st, a, "_avps")
    cache = cache.inner if isinstance(cache, VOpt) else cache
    return VBool(app("value_ok", BOOL, a.t, ex.read_field(st, a, "payload").t, has, Ite(has, cache.t, I(0))))


R.contract("assign_attr_from_defs#escape", params={"obj": "AvpGenerator", "avp_list": "List[Avp]"},
           ghost={"g": "int"},
           requires=[("the-containers-own-lists-are-younger-than-the-container",
                      "implies(has(obj, 'additional_avps'), own_list(obj, obj.additional_avps)) and "
                      "implies(has(obj, '_additional_avps'), own_list(obj, obj._additional_avps))")],
           ensures=[("lists-older-than-the-container-are-untouched",
                     "implies(0 < g and g < ref(obj), tok_items(g) == old(tok_items(g)))")],
           raises=[Raise("AvpDecodeError", "True", "may")],
           modifies=["open:obj", "*list:Any", "*list:Avp", "*Avp._avps"],
           props=["C04", "C03"],
           note="turning ANY decoded AVP list into attributes lets only AvpDecodeError escape (from a grouped AVP whose payload "
                "is malformed); in particular an AVP that matches no declared row of a container without additional_avps is "
                "dropped, not an AttributeError.  What each AVP of the list does to the attributes is the step contract of "
                "the loop (decode side of the C03 round trip)")
R.macro("akey", ["a"], "avp_key(a.code, a._vendor_id)")
R.macro("arow", ["needed", "a"], "needed[avp_key(a.code, a._vendor_id)]")
R.macro("is_list_attr", ["o", "nm"], "gen_has(o, nm) and not gen_none(o, nm) and gen_is_list(o, nm)")
_A = "arow(needed, cur).attr_name"
_SCALAR = f"akey(cur) in needed and is_none(arow(needed, cur).type_class) and not is_list_attr(obj, {_A})"
_LISTV = f"akey(cur) in needed and is_none(arow(needed, cur).type_class) and is_list_attr(obj, {_A})"
_GRPS = f"akey(cur) in needed and not is_none(arow(needed, cur).type_class) and not is_list_attr(obj, {_A})"
_GRPL = f"akey(cur) in needed and not is_none(arow(needed, cur).type_class) and is_list_attr(obj, {_A})"
_L = f"gen_tok(obj, {_A})"      # the list the attribute holds after the step (in place or a new one: both conform)
R.loop("assign_attr_from_defs", 0,
       ghost={"nm": "str"},
       invariants=[("lists-older-than-the-container-are-untouched",
                    "implies(0 < g and g < ref(obj), tok_items(g) == old(tok_items(g)))")],
       step=[("the-row-used-for-an-avp-declares-that-avps-code-and-vendor",
              "implies(akey(cur) in needed, arow(needed, cur).avp_code == cur.code and arow(needed, cur).vendor_id == cur._vendor_id)"),
             ("a-declared-scalar-avp-becomes-the-value-of-the-rows-attribute",
              f"implies(prev({_SCALAR}), gen_has(obj, {_A}) and "
              f"ite(prev(value_ok(cur)), not gen_none(obj, {_A}) and gen_tok(obj, {_A}) == prev(value_tok(cur)), "
              f"gen_none(obj, {_A})))"),
             ("a-declared-avp-of-a-list-attribute-is-appended-at-the-end-of-that-list",
              f"implies(prev({_LISTV}), len(tok_items({_L})) == prev(len(tok_items(gen_tok(obj, {_A})))) + 1 and "
              f"tok_items({_L})[0:len(tok_items({_L})) - 1] == prev(tok_items(gen_tok(obj, {_A}))) and "
              f"tok_items({_L})[len(tok_items({_L})) - 1] == ite(prev(value_ok(cur)), prev(value_tok(cur)), none_tok()))"),
             ("a-declared-grouped-avp-becomes-a-new-container-of-the-rows-class",
              f"implies(prev({_GRPS}), gen_has(obj, {_A}) and not gen_none(obj, {_A}) and "
              f"made_by(gen_tok(obj, {_A})) == some(arow(needed, cur).type_class))"),
             ("a-declared-grouped-avp-of-a-list-attribute-grows-that-list-by-one",
              f"implies(prev({_GRPL}), len(tok_items({_L})) == prev(len(tok_items(gen_tok(obj, {_A})))) + 1)"),
             ("a-declared-grouped-avp-of-a-list-attribute-keeps-the-earlier-elements",
              f"implies(prev({_GRPL}), tok_items({_L})[0:len(tok_items({_L})) - 1] == prev(tok_items(gen_tok(obj, {_A}))))"),
             ("a-declared-grouped-avp-of-a-list-attribute-appends-a-new-container-of-the-rows-class",
              f"implies(prev({_GRPL}), made_by(tok_items({_L})[len(tok_items({_L})) - 1]) == some(arow(needed, cur).type_class))"),
             ("an-undeclared-avp-is-appended-unchanged-to-additional-avps",
              "implies(prev(not (akey(cur) in needed) and has(obj, 'additional_avps')), "
              "len(obj.additional_avps) == prev(len(obj.additional_avps)) + 1 and "
              "items(obj.additional_avps)[0:len(obj.additional_avps) - 1] == prev(items(obj.additional_avps)) and "
              "obj.additional_avps[len(obj.additional_avps) - 1] == cur)"),
             ("a-declared-avp-leaves-additional-avps-alone",
              f"implies(prev(akey(cur) in needed and has(obj, 'additional_avps') and "
              f"not tok_is(gen_tok(obj, {_A}), obj.additional_avps)), "
              "items(obj.additional_avps) == prev(items(obj.additional_avps)))"),
             ("no-other-attribute-of-the-object-changes",
              f"implies(not (akey(cur) in needed and nm == {_A}), gen_has(obj, nm) == prev(gen_has(obj, nm)) and "
              "gen_none(obj, nm) == prev(gen_none(obj, nm)) and gen_tok(obj, nm) == prev(gen_tok(obj, nm)))")],
       modifies=["open:obj", "*list:Any", "*list:Avp", "*Avp._avps"],
       local_kinds={"attr_name": "str", "has_attr": "bool", "current_value": "Opt[Any]", "attr_value": "AvpGenerator",
                    "avp_value": "Opt[Any]", "avp_key": "str"})
for _k in ("assign_attr_from_defs#escape", "assign_attr_from_defs"):
    R.contracts["assign_attr_from_defs#escape"].ghost_bind = dict(
        getattr(R.contracts["assign_attr_from_defs#escape"], "ghost_bind", None) or {}, **{_k: {"g": ["g", "tok_or0(current_value)", "ref(obj.additional_avps)"]}})
R.contract("Avp.value#tok", trusted=True, params={"self": "Avp"}, returns="Any",
           ensures=[("a-function-of-the-object-its-payload-and-its-cache", "result == old(value_tok(self))")],
           raises=[Raise("AvpDecodeError", "not value_ok(self)", "iff")],
           modifies=["self._avps"],
           note="ASSUMED behavioural contract of the polymorphic `value` getter as seen from assign_attr_from_defs: whether the "
                "read succeeds and what it returns are functions of the object, its payload and its member cache (each typed "
                "getter is verified under C01/C04 against a contract of exactly this shape: result == f(payload), raises iff "
                "p(payload); the grouped getter returns its cache)")
R.contracts["assign_attr_from_defs#escape"].call_overrides = {
    "assign_attr_from_defs": R.contracts["assign_attr_from_defs#escape"],      # the recursion uses this contract itself
    "Avp.value": R.contracts["Avp.value#tok"]}
R.loops[("assign_attr_from_defs", 0)].assume_iter_stable = (
    "the AVP list handed to assign_attr_from_defs is not one of the container's own attribute lists: it is the message's or "
    "the grouped AVP's decoded member list")
R.assume("C03: ownership - a list held in an attribute of an attribute container is younger than the container (true for "
         "containers built by their dataclass constructor and for everything the decoder builds; a caller that stores an "
         "older, shared list into a container is outside the contract)")
R.assume("C03/C04: container classes (AvpGenDef.type_class) are constructed without arguments and do not raise; setattr on an "
         "attribute container does not raise and stores exactly the named attribute; no declared row names the attributes "
         "additional_avps/_additional_avps (ground rows C03.T)")

# ---- generate_avps_from_defs: what is emitted for each row (encode side of C03) ---------------------------------------
from pyvc.spec import Clause  # noqa

R.contract("Avp.new", trusted=True,
           params={"avp_code": "int", "vendor_id": "int", "value": "Opt[Any]", "is_mandatory": "Opt[bool]",
                   "is_private": "Opt[bool]"},
           returns="Avp",
           ensures=[("fields", "result.code == avp_code and result._vendor_id == vendor_id"),
                    ("flags", "result.flags == ite(vendor_id != 0, 128, 0) "
                              "+ ite(new_m(dict_entry(avp_code, vendor_id), is_mandatory), 64, 0) "
                              "+ ite(is_none(is_private), 0, ite(some(is_private), 32, 0))")],
           raises=[Raise("ValueError", "not dict_known(avp_code, vendor_id)", "iff"),
                   Raise("AvpEncodeError", "not is_none(value)", "only_if")],
           allocates=True,
           note="ASSUMED composite of Avp.new with a value: code, vendor and flags as in the verified variant Avp.new#novalue; "
                "the typed value setter (each verified under C01) runs inside `except Exception -> AvpEncodeError`")
R.contract("Avp.value.fset", trusted=True, params={"self": "Avp", "new_value": "Any"},
           raises=[Raise("AvpEncodeError", "True", "may")], modifies=["self.payload", "self._avps"],
           note="behavioural contract of the polymorphic value setter: only payload/_avps change, only AvpEncodeError")
@R.specfn("is_prefix")
def _is_prefix(ex, st, a, b):
    """a is a prefix of b (sequences): b[0:len(a)] == a and len(b) >= len(a), as the native sequence predicate"""
    from pyvc.smt import T
    ta, _ = ex.as_seq(st, ex.unwrap(a))
    tb, _ = ex.as_seq(st, ex.unwrap(b))
    return VBool(T(f"(seq.prefixof {ta.s} {tb.s})", BOOL))


R.macro("attr_set", ["o", "row"], "gen_has(o, row.attr_name) and not gen_none(o, row.attr_name)")
R.macro("row_avp", ["a", "row"],
        "a.code == row.avp_code and a._vendor_id == row.vendor_id and "
        "bit6(a.flags) == ite(new_m(dict_entry(row.avp_code, row.vendor_id), row.is_mandatory), 1, 0) and "
        "bit7(a.flags) == ite(row.vendor_id != 0, 1, 0)")
R.kind_hints[("generate_avps_from_defs", "[]")] = "List[Avp]"
R.contract("generate_avps_from_defs", params={"obj": "AvpGenerator", "strict": "bool"}, returns="List[Avp]",
           ensures=[("a-new-list", "fresh(result)"),
                    ("undeclared-avps-follow-unchanged-at-the-end",
                     "implies(has_avp_def(obj) and has(obj, 'additional_avps'), len(result) >= len(obj.additional_avps) and "
                     "items(result)[len(result) - len(obj.additional_avps):] == items(obj.additional_avps))")],
           raises=[Raise("ValueError", "True", "may"), Raise("AvpEncodeError", "True", "may")],
           modifies=["*Avp.payload", "*Avp._avps"], props=["C03"],
           note="only ValueError (strict mode / unknown AVP) and AvpEncodeError escape; what each row contributes is the step "
                "clause of the loop over the rows")
_GROW = "is_prefix(prev(items(avp_list)), items(avp_list))"
R.loop("generate_avps_from_defs", 0,
       ghost={"j": "int"},
       invariants=[("list-is-new", "fresh(avp_list)")],
       step=[("earlier-avps-stay", _GROW),
             ("every-avp-emitted-for-a-row-carries-the-rows-code-vendor-and-m-flag",
              "implies(prev(len(avp_list)) <= j and j < len(avp_list), row_avp(avp_list[j], cur))"),
             ("an-unset-attribute-emits-nothing",
              "implies(prev(not attr_set(obj, cur)), len(avp_list) == prev(len(avp_list)))"),
             ("a-set-scalar-attribute-emits-exactly-one-avp",
              "implies(prev(attr_set(obj, cur) and not gen_is_list(obj, cur.attr_name)), len(avp_list) == prev(len(avp_list)) + 1)")],
       modifies=["list:avp_list", "*Avp.payload", "*Avp._avps"],
       local_kinds={"attr_value": "Opt[Any]", "grouped_avp": "Avp", "single_avp": "Avp", "sub_avps": "List[Avp]",
                    "value": "Any"})
for _o in (1, 2):
    R.loop("generate_avps_from_defs", _o,
           entry_snap={"n_in": "len(avp_list)", "items_in": "items(avp_list)"},
           invariants=[("list-is-new", "fresh(avp_list)"),
                       ("avps-emitted-before-this-row-stay", "is_prefix(items_in, items(avp_list)) and len(avp_list) >= n_in"),
                       ("avps-emitted-for-this-row-carry-its-code-vendor-and-m-flag",
                        "implies(n_in <= j and j < len(avp_list), row_avp(avp_list[j], gen_def))")],
           modifies=["list:avp_list", "*Avp.payload", "*Avp._avps"],
           local_kinds={"grouped_avp": "Avp", "single_avp": "Avp", "sub_avps": "List[Avp]", "value": "Any"})


# ---- untyped commands: UndefinedMessage._assign_attr_values (C03 last sentence, C04) -------------------------------------
R.model("UndefinedGroupedAvp", fields={}, open_attrs=True)
R.model("UndefinedMessage", fields={}, open_attrs=True)
R.object_invariant("Avp", "not is_none(self.name)")
R.assume("class invariant Avp.name is not None: established by Avp.__init__ ('Unknown'), kept by from_unpacker and Avp.new "
         "(their `name` clauses, proved), no other writer of the attribute in the package (ground obligation "
         "C04.struct.avp-name-writers)")


@R.specfn("undef_name")
def _undef_name(ex, st, a):
    """the attribute name an untyped command uses for an AVP: avp.name.replace('-', '_').lower() (same uninterpreted
    string functions the engine uses for the real expression)"""
    import re as _re
    from pyvc.models import _ufun
    from pyvc.values import VStr
    a = ex.unwrap(a)
    nm = ex.read_field(st, a, "name")
    nm = nm.inner if isinstance(nm, VOpt) else nm
    fname = "str_replace$" + _re.sub(r"[^A-Za-z0-9]", lambda m: f"x{ord(m.group(0)):02x}", "-" + "$" + "_")
    return R.specfns["lower"](ex, st, VStr(_ufun(ex, fname, [STR], STR, nm.t)))


@R.specfn("tok_type_is")
def _tok_type_is(ex, st, tok, cname):
    """the token denotes an object whose class is exactly `cname`"""
    from pyvc.smt import Eq
    return VBool(Eq(ex.type_of(st, ex.unwrap(tok).t), ex.class_id(cname.lit)))


@R.specfn("tok_new")
def _tok_new(ex, st, tok, frontier):
    """the token denotes an object allocated at or after the given allocation frontier"""
    from pyvc.smt import Le
    return VBool(Le(ex.unwrap(frontier).t, ex.unwrap(tok).t))


@R.specfn("frontier")
def _frontier(ex, st):
    from pyvc.values import VInt
    return VInt(st.alloc)


R.contract("UndefinedMessage._produce_attr_name", params={"self": "UndefinedMessage", "avp": "Avp"}, returns="str",
           ensures=[("lower-case-underscore-normalised-name", "result == undef_name(avp)")],
           raises=[], props=["C03", "C04"])
R.kind_hints[("UndefinedMessage._assign_attr_values", "[1]")] = "List[Any]"
_N = "undef_name(cur)"
_ISL = f"gen_has(parent, {_N}) and not gen_none(parent, {_N}) and gen_is_list(parent, {_N})"
_T = f"gen_tok(parent, {_N})"
_PL = _T                     # the list the attribute holds after the step (in place or a new one: both conform)
_VAL = ("ite(isinstance(cur, AvpGrouped), tok_type_is(X, 'UndefinedGroupedAvp') and tok_new(X, prev(frontier())), "
        "X == prev(value_tok(cur)))")
R.contract("UndefinedMessage._assign_attr_values",
           params={"self": "UndefinedMessage", "parent": "UndefinedGroupedAvp", "avps": "List[Avp]"},
           ghost={"g": "int"},
           ensures=[("lists-older-than-the-parent-are-untouched",
                     "implies(0 < g and g < ref(parent), tok_items(g) == old(tok_items(g)))"),
                    ("the-avp-list-itself-is-unchanged", "items(avps) == old(items(avps))")],
           raises=[Raise("AvpDecodeError", "len(avps) > 0", "only_if")],
           ensures_exc={"AvpDecodeError": [("lists-older-than-the-parent-are-untouched-when-decoding-fails",
                                            "implies(0 < g and g < ref(parent), tok_items(g) == old(tok_items(g)))")]},
           modifies=["open:parent", "*list:Any", "*Avp._avps"], props=["C03", "C04"],
           note="every received AVP is exposed under its normalised name (step contract of the loop): first occurrence as the "
                "value itself, a repetition turns the attribute into a list in wire order, a grouped AVP becomes a new nested "
                "object filled by the recursive call; nothing but AvpDecodeError escapes.  `parent` is declared as the plain "
                "container class; the message itself is passed for it at the top level (same operations: computed-name "
                "hasattr/getattr/setattr; ground obligation C03.U0: no normalised dictionary name is an attribute of Message)")
R.contracts["UndefinedMessage._assign_attr_values"].call_overrides = {"Avp.value": R.contracts["Avp.value#tok"]}
R.contracts["UndefinedMessage._assign_attr_values"].ghost_bind = {
    "UndefinedMessage._assign_attr_values": {"g": ["g", "gen_tok(parent, attr_name)", "ref(avps)"]}}
R.loop("UndefinedMessage._assign_attr_values", 0,
       ghost={"nm": "str"},
       hints=["own_attr_not(parent, undef_name(cur), avps)"],
       invariants=[("lists-older-than-the-parent-are-untouched",
                    "implies(0 < g and g < ref(parent), tok_items(g) == old(tok_items(g)))"),
                   ("the-avp-list-itself-is-unchanged", "items(avps) == old(items(avps))")],
       step=[("a-first-occurrence-becomes-the-attribute-named-after-the-avp",
              f"implies(prev(not gen_has(parent, {_N})), gen_has(parent, {_N}) and not gen_none(parent, {_N}) and "
              + _VAL.replace("X", _T) + ")"),
             ("a-repeated-avp-is-appended-at-the-end-of-the-attributes-list",
              f"implies(prev({_ISL}), gen_has(parent, {_N}) and not gen_none(parent, {_N}) and len(tok_items({_PL})) == prev(len(tok_items({_T}))) + 1 and "
              f"tok_items({_PL})[0:len(tok_items({_PL})) - 1] == prev(tok_items({_T})) and "
              + _VAL.replace("X", f"tok_items({_PL})[len(tok_items({_PL})) - 1]") + ")"),
             ("a-second-occurrence-turns-the-attribute-into-the-list-of-both-values-in-wire-order",
              f"implies(prev(gen_has(parent, {_N}) and not ({_ISL})), gen_has(parent, {_N}) and not gen_none(parent, {_N}) "
              f"and tok_new({_T}, prev(frontier())) and len(tok_items({_T})) == 2 and "
              f"tok_items({_T})[0] == prev(ite(gen_none(parent, {_N}), none_tok(), gen_tok(parent, {_N}))) and "
              + _VAL.replace("X", f"tok_items({_T})[1]") + ")"),
             ("no-other-attribute-of-the-parent-changes",
              f"implies(nm != {_N}, gen_has(parent, nm) == prev(gen_has(parent, nm)) and "
              "gen_none(parent, nm) == prev(gen_none(parent, nm)) and gen_tok(parent, nm) == prev(gen_tok(parent, nm)))")],
       modifies=["open:parent", "*list:Any", "*Avp._avps"],
       local_kinds={"attr_name": "str", "value": "Any", "existing_attr": "Opt[Any]"})

from . import family  # noqa  (the generated __post_init__ family and the assumed variant this one replaces)
R.contract("UndefinedMessage.__post_init__", params={"self": "UndefinedMessage"},
           ghost={"g": "int"},
           raises=[Raise("AvpDecodeError", "len(self._avps) > 0", "only_if")],
           ensures_exc={"AvpDecodeError": [("lists-older-than-the-message-are-untouched-when-decoding-fails",
                                            "implies(0 < g and g < ref(self), tok_items(g) == old(tok_items(g)))")]},
           ensures=[("lists-older-than-the-message-are-untouched",
                     "implies(0 < g and g < ref(self), tok_items(g) == old(tok_items(g)))"),
                    ("header-and-avps-kept", "self.header.command_flags == old(self.header.command_flags) and "
                                             "self.header.command_code == old(self.header.command_code) and "
                                             "self._avps == old(self._avps) and items(self._avps) == old(items(self._avps))")],
           modifies=["open:self", "*list:Any if len(self._avps) > 0", "*Avp._avps"], props=["C03", "C04"],
           note="VERIFIED here (C03/C04) against the real body; the checks that do not load this module use the assumed "
                "variant of specs/family.py, which states the same raises clause and postcondition")
R.contracts["UndefinedMessage.__post_init__"].frame_ghosts = ["g"]
R.contracts["UndefinedMessage._assign_attr_values"].frame_ghosts = ["g"]
R.contracts["assign_attr_from_defs#escape"].frame_ghosts = ["g"]
# the typed classes that derive from UndefinedMessage run the body above through super().__post_init__: their generated
# contracts get the open attribute store of the message in their frame
for _n in family.FAMILY:
    try:
        if family._prog.cls(_n.split(".")[0]).is_subclass_of(family._prog.cls("UndefinedMessage")):
            R.contracts[_n].modifies = list(R.contracts[_n].modifies) + ["open:self"]
    except KeyError:
        pass
