"""C03/C04: assign_attr_from_defs - what may escape while a decoded AVP list is turned into attributes.

Only the exception behaviour and the frame are under contract here (a "raises-only" contract): the dict comprehension that
indexes the class' avp_def table is abstracted by a region (an arbitrary table of rows), attribute access with computed
names goes through an uninterpreted dynamic-attribute store, container classes are constructed through an assumed hook.
The value round trip itself is NOT decided here (bounded stand-in, props/bounded.py)."""
from pyvc.spec import REG as R, Raise
from pyvc.smt import INT, BOOL, STR, app, Not
from pyvc.values import VAny, VBool, VOpt, VRef, VNone
from pyvc.state import Unsupported
from . import c08  # noqa  (AvpGenDef model, getattr_dyn for messages)

R.model("AvpGenerator", builtin=True, fields={}, dynamic={"additional_avps": "List[Avp]", "_additional_avps": "List[Avp]"},
        open_attrs=True)
R.model("AvpGenDef", fields={"type_class": "Opt[Any:contclass]"})
R.region("assign_attr_from_defs", "AnnAssign", 0, assigns={"needed": "Dict[str,AvpGenDef]"},
         note="needed = {f'{a.avp_code}-{a.vendor_id}': a for a in obj.avp_def}: abstracted to an arbitrary table of rows "
              "(which rows it holds is irrelevant for the exception behaviour)")

_prev_get = R.specfns.get("getattr_dyn")


def _dyn_has(ex, obj_t, name_t):
    ex.decls.fun("gen_hasattr", [INT, STR], BOOL)
    return app("gen_hasattr", BOOL, obj_t, name_t)


@R.specfn("hasattr_dyn")
def _hasattr_dyn(ex, st, v, name):
    v = ex.unwrap(v)
    return VBool(_dyn_has(ex, v.t, ex.unwrap(name).t))


@R.specfn("getattr_dyn")
def _getattr_dyn(ex, st, v, name, k, where):
    """getattr(obj, <computed name>) on an attribute container: AttributeError when absent, else None or an opaque value"""
    vv = ex.unwrap(v)
    if isinstance(vv, VRef) and vv.cls == "AvpGenerator":
        has = _dyn_has(ex, vv.t, ex.unwrap(name).t)
        outs = ex.raise_(st.assume(Not(has)), "AttributeError", where)
        s2 = st.assume(has)
        outs += k(s2, VOpt(ex.arbitrary(BOOL, "attr_none"), VAny(ex.arbitrary(INT, "attrval"))))
        return outs
    if _prev_get is None:
        raise Unsupported(f"getattr with a computed name at {where}")
    return _prev_get(ex, st, v, name, k, where)


@R.specfn("setattr_dyn")
def _setattr_dyn(ex, st, v, name, val, k, where):
    """setattr(obj, <computed name>, value) on an attribute container: the dynamic-attribute store is uninterpreted
    (gen_hasattr is a fixed predicate here, which over-approximates: later reads are arbitrary anyway); raises nothing"""
    return k(st, VNone)


@R.specfn("call_opaque_contclass")
def _call_contclass(ex, st, f, args, kwargs, k, where):
    """row.type_class(): a new attribute container (a dataclass whose fields all have defaults: the constructor call
    without arguments raises nothing - ASSUMED; ground rows C03.T check that type_class is a class of the package)"""
    s2, obj = ex.alloc_obj(st, "AvpGenerator")
    obj = VRef(obj.t, "AvpGenerator")
    for fld in ("additional_avps", "_additional_avps"):
        s2 = ex.havoc_field(s2, obj.t, "AvpGenerator", fld)
    return k(s2, obj)


R.contract("assign_attr_from_defs#escape", params={"obj": "AvpGenerator", "avp_list": "List[Avp]"},
           raises=[Raise("AvpDecodeError", "True", "may")],
           modifies=["dyn:obj", "*list:Any", "*list:Avp", "*Avp._avps"],
           props=["C04", "C03"],
           note="turning ANY decoded AVP list into attributes lets only AvpDecodeError escape (from a grouped AVP whose payload "
                "is malformed); in particular an AVP that matches no declared row of a container without additional_avps is "
                "dropped, not an AttributeError")
R.loop("assign_attr_from_defs", 0, invariants=[("t", "True")],
       modifies=["dyn:obj", "*list:Any", "*list:Avp", "*Avp._avps"],
       local_kinds={"attr_name": "str", "has_attr": "bool", "current_value": "Opt[Any]", "attr_value": "AvpGenerator",
                    "avp_value": "Opt[Any]", "avp_key": "str"})
R.assume("C03/C04: container classes (AvpGenDef.type_class) are constructed without arguments and do not raise; setattr on an "
         "attribute container does not raise; the rows table `needed` is an arbitrary table (region)")
