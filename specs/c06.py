"""C06: the capabilities-exchange gate of a connection."""
from pyvc.spec import REG as R, Raise, Clause
from . import node, c13  # noqa
from .node import CONNECTING, CONNECTED, READY, READY_WAITING_DWA, DISCONNECTING, CLOSING, CLOSED, R_CERREJ as R_CER_REJECTED

R.macro("ce_expected", ["c", "m"],
        "m.header.command_code == 257 and ite(c._direction == 1, is_req(m), ite(c._direction == 2, not is_req(m), True))")
R.contract("PeerConnection.__dispatch_message#gate", params={"self": "PeerConnection", "msg": "Message"},
           requires=[("flags-octet", "0 <= msg.header.command_flags < 256")],
           ensures=[("before-the-exchange-only-expected-ce-messages-are-processed",
                     "implies(self.state == %d and not ce_expected(self, msg), self.g_handled == old(self.g_handled))" % CONNECTED),
                    ("a-connection-that-is-closing-or-closed-processes-nothing",
                     "implies(old(self.state) == %d or old(self.state) == %d or old(self.state) == %d, "
                     "self.g_handled == old(self.g_handled))" % (CLOSING, CLOSED, CONNECTING)),
                    ("a-connection-past-the-exchange-hands-every-message-to-the-node",
                     "implies(old(self.state) == %d or old(self.state) == %d or old(self.state) == %d, "
                     "self.g_handled == old(self.g_handled) + [msg])" % (READY, READY_WAITING_DWA, DISCONNECTING)),
                    ("otherwise-handed-to-the-node-exactly-once",
                     "self.g_handled == old(self.g_handled) or self.g_handled == old(self.g_handled) + [msg]")],
           raises=[], ghost_modifies=["self.g_handled"], props=["C06", "C08", "C09", "C12"])   # C12: a DPR that crosses ours is still handled


# ---- the outcome cases of the capabilities exchange --------------------------------------------------------------
# The list-valued capabilities attributes of CER/CEA (set to [] by the generated __post_init__, filled by
# assign_attr_from_defs) are modelled as typed fields of the two command classes; same-named scalar attributes of other
# commands live in the Message model.
_CE_DYN = {"auth_application_id": "Opt[List[int]]", "acct_application_id": "Opt[List[int]]",
           "vendor_specific_application_id": "Opt[List[Any:avpobj]]", "result_code": "Opt[int]",
           "error_message": "Opt[str]", "origin_host": "Opt[bytes]"}
R.model("CapabilitiesExchangeRequest", dynamic=dict(_CE_DYN, host_ip_address="Opt[List[Any:addr]]"))
R.model("CapabilitiesExchangeAnswer", dynamic=dict(_CE_DYN, host_ip_address="Opt[List[Any:addr]]"))
R.assume("ASSUMED (assume_pre of receive_cer/receive_cea): the three application-id list attributes of a CER/CEA object are "
         "set (the generated __post_init__ assigns [] before assign_attr_from_defs fills them)")
R.contracts["Node._receive_message"].requires.append(
    Clause("capabilities-exchange-messages-have-their-class",
           "implies(msg.header.command_code == 257, "
           "ite(is_req(msg), isinstance(msg, CapabilitiesExchangeRequest), isinstance(msg, CapabilitiesExchangeAnswer)))"))
R.assume("C06: a message whose header carries command code 257 is an instance of CapabilitiesExchangeRequest/Answer "
         "(Message.from_bytes picks the class by code: ground obligations C02.reg/C02.dispatch; the node only handles "
         "messages produced by from_bytes); attributes read from vendor-specific application id containers are ints")

from pyvc.smt import INT as _INT, BOOL as _BOOL, STR as _STR, app as _app, T as _T, Eq as _Eq, Ite as _Ite, store as _store, \
    TRUE as _TRUE, seq_concat as _cat, seq_unit as _unit, seq_empty as _sempty
from pyvc.values import VAny, VInt, VBool, VSetv
from pyvc.state import Unsupported
from pyvc import models as _m
from . import base as _base

_prev_attr_opaque = R.specfns["attr_opaque"]


def _has_t(ex, tok, attr):
    ex.decls.fun("any_hasattr", [_INT, _STR], _BOOL)
    return _app("any_hasattr", _BOOL, tok, ex.decls.str_lit(attr))


def _get_t(ex, tok, attr):
    ex.decls.fun("any_getattr", [_INT, _STR], _INT)
    return _app("any_getattr", _INT, tok, ex.decls.str_lit(attr))


@R.specfn("attr_opaque")
def _attr_opaque(ex, st, base, attr, k, where):
    """attribute of a decoded grouped-AVP container (opaque object): present or AttributeError"""
    if getattr(base, "tag", None) == "avpobj":
        has = _has_t(ex, base.t, attr)
        from pyvc.smt import Not
        outs = ex.raise_(st.assume(Not(has)), "AttributeError", where)
        outs += k(st.assume(has), VAny(_get_t(ex, base.t, attr), "avpval"))
        return outs
    return _prev_attr_opaque(ex, st, base, attr, k, where)


@R.specfn("hasattr_opaque")
def _hasattr_opaque(ex, st, v, attr):
    return _has_t(ex, v.t, attr)


@R.specfn("any_as_int")
def _any_as_int(ex, st, v):
    ex.decls.fun("any_as_int", [_INT], _INT)
    return VInt(_app("any_as_int", _INT, v.t))


def _vs_fold_t(ex, seq, attr):
    ex.decls.fun("vs_fold", ["(Seq Int)", _STR], _m.SETI)
    return _app("vs_fold", _m.SETI, seq, ex.decls.str_lit(attr))


@R.specfn("vs_fold")
def _vs_fold(ex, st, seq, attr):
    """the set of the `attr` values of the containers in a vendor-specific-application-id list that have one;
    defined by recursion on the list (nil / snoc); the two defining equations are instantiated by vs_nil / vs_snoc"""
    t, _ = ex.as_seq(st, ex.unwrap(seq))
    return VSetv(_vs_fold_t(ex, t, attr.lit))


@R.specfn("vs_nil")
def _vs_nil(ex, st, attr):
    return VBool(_Eq(_vs_fold_t(ex, _sempty("(Seq Int)"), attr.lit), _m.EMPTY_SETI))


@R.specfn("vs_snoc")
def _vs_snoc(ex, st, seq, e, attr):
    t, _ = ex.as_seq(st, ex.unwrap(seq))
    e = ex.unwrap(e)
    a = attr.lit
    f = _vs_fold_t(ex, t, a)
    ex.decls.fun("any_as_int", [_INT], _INT)
    val = _app("any_as_int", _INT, _get_t(ex, e.t, a))
    return VBool(_Eq(_vs_fold_t(ex, _cat(t, _unit(e.t)), a), _Ite(_has_t(ex, e.t, a), _store(f, val, _TRUE), f)))


@R.specfn("node_apps")
def _node_apps(ex, st, n, which):
    """the application ids of the registered applications flagged auth (1) / acct (2): an uninterpreted function of the
    application list and of the id/flag fields (the set comprehension itself is not unfolded)"""
    n = ex.unwrap(n)
    apps = ex.read_field(st, n, "applications")
    items = ex.seq_items(st, apps)
    flag = "is_auth_application" if ex.unwrap(which).t.s == "1" else "is_acct_application"
    ids0 = ex.heap_array(st, "Application.application_id$none", _INT, _BOOL)
    ids = ex.heap_array(st, "Application.application_id", _INT, _INT)
    fl = ex.heap_array(st, "Application." + flag, _INT, _BOOL)
    ex.decls.fun("node_apps", ["(Seq Int)", "(Array Int Bool)", "(Array Int Int)", "(Array Int Bool)"], _m.SETI)
    return VSetv(_app("node_apps", _m.SETI, items, ids0, ids, fl))


for _nm, _w in (("auth_application_ids", 1), ("acct_application_ids", 2)):
    R.contract("Node." + _nm, trusted=True, params={"self": "Node"}, returns="Set[int]", allocates=True,
               ensures=["setv(result) == node_apps(self, %d)" % _w, "fresh(result)"],
               note="ABSTRACTION: set(a.application_id for a in self.applications if a.is_*_application) is an "
                    "uninterpreted function of the application list and the id/flag fields")

R.macro("cer_auth", ["m"], "set_union(setv(some(m.auth_application_id)), "
                           "vs_fold(some(m.vendor_specific_application_id), 'auth_application_id'))")
R.macro("cer_acct", ["m"], "set_union(setv(some(m.acct_application_id)), "
                           "vs_fold(some(m.vendor_specific_application_id), 'acct_application_id'))")

_CE_LISTS = [("lists-set", "has(message, 'auth_application_id') and not is_none(message.auth_application_id) and "
                           "has(message, 'acct_application_id') and not is_none(message.acct_application_id) and "
                           "has(message, 'vendor_specific_application_id') and not is_none(message.vendor_specific_application_id)")]
_READY_MODS = ["*PeerConnection.state", "conn.auth_application_ids", "conn.acct_application_ids", "conn.host_identity",
               "*Peer.connection", "*Peer.disconnect_reason", "*Peer.last_connect", "*Peer.last_disconnect",
               "dict:self._half_ready_connections", "dict:self.connections", "dict:self.peer_sockets",
               "dict:self.socket_peers", "dict:self._peer_waiting_answer", "*Event.flag", "*StoppableThread.stopped",
               "*Socket.closed", "*list:Peer"]

del R.contracts["Node.receive_cea"]
R.contract("Node.receive_cea", params={"self": "Node", "conn": "PeerConnection", "message": "CapabilitiesExchangeAnswer"},
           assume_pre=_CE_LISTS,
           ensures=[("nothing-sent", "nothing_sent(conn)"),
                    ("any-other-result-closes-the-connection",
                     "implies(not (old(has(message, 'result_code')) and old(message.result_code) == 2001), "
                     "in_no_table(self, conn) and conn.g_close_calls == old(conn.g_close_calls) + 1 and "
                     "conn.g_close_reason == %d and "
                     "ite(old(conn.ident in self.peer_sockets), old(self.peer_sockets[conn.ident]).closed and "
                     "conn.state == %d, conn.state == old(conn.state)))" % (R_CER_REJECTED, CLOSED)),
                    ("ready-only-on-2001",
                     "implies(conn.state == %d and old(conn.state) != %d, "
                     "old(has(message, 'result_code')) and old(message.result_code) == 2001)" % (READY, READY)),
                    ("2001-makes-the-connection-ready-with-the-shared-applications",
                     "implies(old(has(message, 'result_code')) and old(message.result_code) == 2001, "
                     "conn.state == %d and conn.g_close_calls == old(conn.g_close_calls) and "
                     "setv(conn.auth_application_ids) == set_inter(node_apps(self, 1), old(cer_auth(message))) and "
                     "setv(conn.acct_application_ids) == set_inter(node_apps(self, 2), old(cer_acct(message))) and "
                     "conn.host_identity == utf8dec(some(old(message.origin_host))))" % READY)],
           raises=[Raise("Exception", "True", "may")],
           ensures_exc={"Exception": [("nothing-sent-when-failing", "nothing_sent(conn)")]},
           ghost_modifies=["conn.g_close_calls", "conn.g_close_reason"],
           modifies=_READY_MODS, props=["C06", "C12", "C13"])
for _i in (0,):
    R.loop("Node.receive_cea", _i,
           invariants=[("auth-so-far", "setv(cer_auth_apps) == set_union(setv(some(message.auth_application_id)), "
                                       "vs_fold(done, 'auth_application_id'))"),
                       ("acct-so-far", "setv(cer_acct_apps) == set_union(setv(some(message.acct_application_id)), "
                                       "vs_fold(done, 'acct_application_id'))")],
           hints=["vs_snoc(done, cur, 'auth_application_id')", "vs_snoc(done, cur, 'acct_application_id')",
                  "vs_nil('auth_application_id')", "vs_nil('acct_application_id')"],
           modifies=["set:cer_auth_apps", "set:cer_acct_apps"])

# ---- receive_cer -------------------------------------------------------------------------------------------------
R.model("Node", fields={"vendor_ids": "Set[int]"})
R.macro("cer_host", ["m"], "lower(utf8dec(some(m.origin_host)))")
R.macro("cer_relay", ["m"], "4294967295 in setv(some(m.auth_application_id)) or 4294967295 in setv(some(m.acct_application_id))")
R.macro("cer_shares", ["n", "m"], "not set_empty(set_inter(node_apps(n, 1), cer_auth(m))) or "
                                  "not set_empty(set_inter(node_apps(n, 2), cer_acct(m)))")
R.macro("cea", ["c"], "items(out(c))[old(len(out(c)))]")


@R.specfn("int_list")
def _int_list(ex, st, v):
    """view an opaque attribute value as the list of ints that was stored there"""
    from pyvc.values import VList, K_INT
    v = ex.unwrap(v)
    return VList(v.t, K_INT)


_old_cer = R.contracts.pop("Node.receive_cer")
R.contract("Node.receive_cer", params={"self": "Node", "conn": "PeerConnection", "message": "CapabilitiesExchangeRequest"},
           ghost={"o": "Opt[bytes]", "r": "str", "w": "Any:routekey", "p": "Peer"},
           ghost_out={"rivals": ("other_connections", "List[PeerConnection]")},
           requires=_old_cer.requires, assume_pre=_CE_LISTS,
           entry_facts=["len(some(message.auth_application_id)) >= 0", "len(some(message.acct_application_id)) >= 0",
                        "len(some(message.vendor_specific_application_id)) >= 0", "len(self.applications) >= 0"],
           ensures=_old_cer.ensures + [
               ("cea-carries-the-node-identity",
                "cea(conn).origin_host == utf8(self.origin_host) and cea(conn).origin_realm == utf8(self.realm_name) and "
                "cea(conn).host_ip_address == self.ip_addresses and cea(conn).vendor_id == self.vendor_id and "
                "cea(conn).product_name == self.product_name and "
                "setv(int_list(cea(conn).supported_vendor_id)) == setv(self.vendor_ids) and "
                "setv(int_list(cea(conn).auth_application_id)) == node_apps(self, 1) and "
                "setv(int_list(cea(conn).acct_application_id)) == node_apps(self, 2)"),
               ("unknown-peer-3010-and-closing",
                "implies(not old(cer_host(message) in self.peers), cea(conn).result_code == 3010 and conn.state == %d)" % CLOSING),
               ("3010-only-for-an-unknown-peer",
                "implies(cea(conn).result_code == 3010, not old(cer_host(message) in self.peers))"),
               ("result-is-one-of-the-specified", "cea(conn).result_code == 2001 or cea(conn).result_code == 3010 or "
                                                  "cea(conn).result_code == 5010 or cea(conn).result_code == 4003"),
               ("election-lost-only-against-a-rival-connection",
                "implies(cea(conn).result_code == 4003, old(cer_host(message) in self.peers) and conn.state == %d and "
                "len(rivals) > 0 and rivals[0].origin_host == old(cer_host(message)))" % CLOSING),
               ("known-peer-without-common-application-5010-not-ready",
                "implies(old(cer_host(message) in self.peers) and len(rivals) == 0 and "
                "not old(cer_shares(self, message)) and not old(cer_relay(message)), "
                "cea(conn).result_code == 5010 and conn.state == old(conn.state))"),
               ("known-peer-sharing-an-application-or-relay-2001-ready",
                "implies(old(cer_host(message) in self.peers) and len(rivals) == 0 and "
                "(old(cer_shares(self, message)) or old(cer_relay(message))), "
                "cea(conn).result_code == 2001 and conn.state == %d and conn.host_identity == old(cer_host(message)) and "
                "setv(conn.auth_application_ids) == set_inter(node_apps(self, 1), old(cer_auth(message))) and "
                "setv(conn.acct_application_ids) == set_inter(node_apps(self, 2), old(cer_acct(message))))" % READY),
               ("ready-only-with-2001", "implies(conn.state == %d and old(conn.state) != %d, cea(conn).result_code == 2001)"
                % (READY, READY)),
               ("an-application-of-the-peer-that-became-ready-reports-ready",
                "implies(cea(conn).result_code == 2001 and route_peer(self, r, w, p) and "
                "not is_none(p.connection) and some(p.connection) == conn, as_app(w).is_ready.flag)")],
           raises=_old_cer.raises, ensures_exc={k: list(v) for k, v in _old_cer.ensures_exc.items()},
           ghost_modifies=_old_cer.ghost_modifies + ["*PeerConnection.g_attn"],
           modifies=_old_cer.modifies + ["*StoppableThread.stopped", "*list:Peer",
                                         "dict:self._peer_waiting_answer[cer_host(message)] "
                                         "if cer_host(message) in self._peer_waiting_answer"], props=["C06", "C13"])
R.loop("Node.receive_cer", 0, invariants=[("conn-closed-or-untouched", "conn.state == old(conn.state) or conn.state == %d" % CLOSED)],
       modifies=["*PeerConnection.state", "*StoppableThread.stopped", "*PeerConnection.g_attn"])
R.loop("Node.receive_cer", 1,
       invariants=[("auth-so-far", "setv(cer_auth_apps) == set_union(setv(some(message.auth_application_id)), "
                                   "vs_fold(done, 'auth_application_id'))"),
                   ("acct-so-far", "setv(cer_acct_apps) == set_union(setv(some(message.acct_application_id)), "
                                   "vs_fold(done, 'acct_application_id'))")],
       hints=["vs_snoc(done, cur, 'auth_application_id')", "vs_snoc(done, cur, 'acct_application_id')",
              "vs_nil('auth_application_id')", "vs_nil('acct_application_id')"],
       modifies=["set:cer_auth_apps", "set:cer_acct_apps"])


@R.specfn("subscript_opaque")
def _subscript_opaque(ex, st, base, idx, k, where):
    """(family, text)[1] of a decoded address: an arbitrary string; other opaque subscripts are not modelled"""
    from pyvc.values import VStr
    if getattr(base, "tag", None) == "addr":
        ex.decls.fun("addr_text", [_INT], _STR)
        return k(st, VStr(_app("addr_text", _STR, base.t)))
    raise Unsupported(f"subscript of an opaque value at {where}")

# C09 routes answers by the host identity the capabilities exchange recorded on the connection: the identity clauses of both
# handlers are part of that property's check too (round 5: scope)
for _n in ("Node.receive_cea", "Node.receive_cer"):
    if "C09" not in R.contracts[_n].props:
        R.contracts[_n].props.append("C09")
