"""C06: the capabilities-exchange gate of a connection."""
from pyvc.spec import REG as R, Raise
from . import node, c13  # noqa
from .node import CONNECTING, CONNECTED, READY, READY_WAITING_DWA, DISCONNECTING, CLOSING, CLOSED

R.model("PeerConnection", fields={"g_handled": "Seq[Message]"})


@R.specfn("call_opaque_handler")
def _call_handler(ex, st, f, args, kwargs, k, where):
    """conn.message_handler(conn, msg): every invocation is logged (ghost); the handler (Node._receive_message,
    verified separately) raises nothing"""
    from pyvc.smt import seq_concat, seq_unit
    conn, msg = args
    log = ex.read_field(st, conn, "g_handled")
    st = ex.write_field(st, conn, "g_handled", type(log)(seq_concat(log.t, seq_unit(msg.t)), log.elem))
    return k(st, __import__("pyvc.values", fromlist=["VNone"]).VNone)


R.macro("ce_expected", ["c", "m"],
        "m.header.command_code == 257 and ite(c._direction == 1, is_req(m), ite(c._direction == 2, not is_req(m), True))")
R.contract("PeerConnection.__dispatch_message#gate", params={"self": "PeerConnection", "msg": "Message"},
           requires=[("flags-octet", "0 <= msg.header.command_flags < 256")],
           ensures=[("before-the-exchange-only-expected-ce-messages-are-processed",
                     "implies(self.state == %d and not ce_expected(self, msg), self.g_handled == old(self.g_handled))" % CONNECTED),
                    ("a-connection-that-is-closing-or-closed-processes-nothing",
                     "implies(old(self.state) == %d or old(self.state) == %d or old(self.state) == %d, "
                     "self.g_handled == old(self.g_handled))" % (CLOSING, CLOSED, CONNECTING)),
                    ("otherwise-handed-to-the-node-exactly-once",
                     "self.g_handled == old(self.g_handled) or self.g_handled == old(self.g_handled) + [msg]")],
           raises=[], ghost_modifies=["self.g_handled"], props=["C06"])
