"""Class models (field kinds) of the node package and the environment objects it holds."""
from pyvc.spec import REG as R, Raise
from pyvc.smt import INT, BOOL, STR, app, I, Eq, Or
from pyvc.values import VBool, VStr
from . import base  # noqa

# ---- environment classes (trusted models) -------------------------------------------------------------
R.model("Lock", builtin=True, fields={"g_held": "bool"})
R.contract("Lock.acquire", trusted=True, params={"self": "Lock"}, returns="bool",
           ghost_modifies=["self.g_held"], ghost_ensures=["self.g_held"],
           note="explicit acquire (the `with` statement is handled by the executor): the lock is held afterwards")
R.contract("Lock.release", trusted=True, params={"self": "Lock"},
           ghost_modifies=["self.g_held"], ghost_ensures=["not self.g_held"])
R.model("Event", builtin=True, fields={"flag": "bool"})
R.model("Queue", builtin=True, fields={"qitems": "List[Any]", "maxsize": "int"})
R.model("StoppableThread", builtin=True, fields={"stopped": "bool", "started": "bool"})
R.model("Thread", builtin=True, fields={"started": "bool"})
R.model("Socket", builtin=True, fields={"closed": "bool", "fd": "int"})
R.model("Logger", builtin=True, fields={})
R.model("SequenceGenerator", fields={"_sequence": "int", "_busy_lock": "Lock"})
R.contract("Lock.__new__", trusted=True, params={}, returns="Lock", allocates=True)
R.model("SessionGenerator", fields={"_base_value": "str", "_busy_lock": "Lock", "_sequence": "int",
                                    "diameter_identity": "str"})
R.model("PeerCounters", fields={"cer": "int", "cea": "int", "dwr": "int", "dwa": "int", "dpr": "int", "dpa": "int",
                                "requests": "int", "answers": "int"})
R.model("PeerStats", fields={})

R.contract("Event.set", trusted=True, params={"self": "Event"}, ensures=["self.flag"], modifies=["self.flag"])
R.contract("Event.clear", trusted=True, params={"self": "Event"}, ensures=["not self.flag"], modifies=["self.flag"])
R.contract("Event.is_set", trusted=True, params={"self": "Event"}, returns="bool", ensures=["result == self.flag"])
R.contract("StoppableThread.stop", params={"self": "StoppableThread"}, trusted=True,
           ensures=["self.stopped"], modifies=["self.stopped"])
R.contract("StoppableThread.start", params={"self": "StoppableThread"}, trusted=True,
           ensures=["self.started"], modifies=["self.started"])
R.contract("StoppableThread.is_stopped", params={"self": "StoppableThread"}, trusted=True, returns="bool",
           ensures=["result == self.stopped"])
R.contract("Socket.close", trusted=True, params={"self": "Socket"}, ensures=["self.closed"], modifies=["self.closed"])
R.contract("Socket.fileno", trusted=True, params={"self": "Socket"}, returns="int", ensures=["result == self.fd"])
R.contract("Socket.setsockopt", trusted=True, params={"self": "Socket", "a": "Any", "b": "Any", "c": "bytes"})
R.assume("T-queue/T-lock/T-thread: queue.Queue is FIFO and thread-safe; `with Lock` is mutual exclusion; "
         "Event.set/clear/is_set are atomic; StoppableThread.stop only sets its stop flag")

# ---- package classes ---------------------------------------------------------------------------------------
R.model("Peer", fields={"node_name": "str", "realm_name": "str", "transport": "int", "port": "int",
                        "ip_addresses": "List[str]", "persistent": "bool", "always_reconnect": "bool",
                        "cea_timeout": "Opt[int]", "cer_timeout": "Opt[int]", "dwa_timeout": "Opt[int]",
                        "idle_timeout": "Opt[int]", "reconnect_wait": "int", "disconnect_reason": "Opt[int]",
                        "last_connect": "Opt[int]", "last_disconnect": "Opt[int]", "counters": "PeerCounters",
                        "statistics": "PeerStats", "connection": "Opt[PeerConnection]"})
R.model("PeerConnection", fields={
    "_direction": "int", "_interrupt_fileno": "int", "_last_msg": "int", "_last_read": "int", "_last_dwr": "int",
    "_read_buffer": "bytes", "_read_buffer_queue": "Queue", "_read_thread": "StoppableThread",
    "_write_buffer": "bytes", "_write_msg_queue": "Queue", "_write_thread": "StoppableThread",
    "write_lock": "Lock", "auth_application_ids": "List[int]", "acct_application_ids": "List[int]",
    "hop_by_hop_seq": "SequenceGenerator", "host_identity": "str", "host_ip_address": "List[str]",
    "ident": "str", "node_name": "str", "origin_host": "str", "port": "int", "socket_fileno": "int",
    "socket_proto": "int", "state": "int", "message_handler": "Any"})
R.model("Application", fields={"application_id": "Opt[int]", "is_auth_application": "bool",
                               "is_acct_application": "bool", "is_ready": "Event", "_node": "Opt[Node]",
                               "_answer_waiting": "Dict[int,WaitingMessage]"})
R.model("WaitingMessage", fields={"event": "Event", "answer": "Opt[Message]"})
R.model("ThreadingApplication", fields={"_recv_msg_queue": "Queue", "_resp_msg_queue": "Queue",
                                        "_thread_slots": "Queue", "_recv_queue_consumer": "StoppableThread",
                                        "_resp_queue_consumer": "StoppableThread"})
R.model("Node", fields={
    "_busy_lock": "Lock", "_half_ready_connections": "Dict[str,PeerConnection]", "_started": "bool",
    "_stopping": "bool", "_peer_routes": "Dict[str,Dict[Any:routekey,List[Peer]]]",
    "_app_waiting_answer": "Dict[str,Application]", "_peer_waiting_answer": "Dict[str,Dict[int,float]]",
    "_origin_waiting_answer": "Dict[str,Tuple[Opt[bytes],float]]", "_sent_answers": "Dict[Opt[bytes],Deque[int]]",
    "origin_host": "str", "realm_name": "str", "state_id": "int", "vendor_id": "int", "product_name": "str",
    "cea_timeout": "int", "cer_timeout": "int", "dwa_timeout": "int", "idle_timeout": "int",
    "wakeup_interval": "int", "retransmit_queue_size": "int", "end_to_end_seq": "SequenceGenerator",
    "session_generator": "SessionGenerator", "validate_received_request_avps": "bool",
    "interrupt_read": "int", "interrupt_write": "int", "peers": "Dict[str,Peer]",
    "connections": "Dict[str,PeerConnection]", "peer_sockets": "Dict[str,Socket]",
    "socket_peers": "Dict[int,PeerConnection]", "applications": "List[Application]",
    "peer_route_select_func": "Any", "ip_addresses": "List[str]", "tcp_sockets": "List[Socket]",
    "sctp_sockets": "List[Socket]", "_connection_thread": "StoppableThread",
    "_stat_collect_thread": "StoppableThread"})

# dynamic attributes of messages that the node code reads or writes
R.model("Message", dynamic={
    "origin_host": "Opt[bytes]", "origin_realm": "Opt[bytes]", "destination_realm": "Opt[bytes]",
    "session_id": "Opt[str]", "proxy_info": "Opt[List[Any]]", "result_code": "Opt[int]",
    "error_message": "Opt[str]", "error_messge": "Opt[str]", "failed_avp": "Opt[Any]",
    "auth_application_id": "Opt[Any]", "acct_application_id": "Opt[Any]", "origin_state_id": "Opt[int]",
    "disconnect_cause": "Opt[int]", "host_ip_address": "Opt[Any]", "vendor_id": "Opt[int]",
    "product_name": "Opt[str]", "supported_vendor_id": "Opt[Any]", "vendor_specific_application_id": "Opt[Any]",
    "_additional_avps": "Opt[List[Avp]]"})


@R.specfn("class_defines_attr")
def _class_defines_attr(ex, st, obj, attr):
    """`attr` is one of the attr_names in the avp_def of obj's class (DefinedMessage.__getattr__ then returns
    None instead of raising).  Uninterpreted per (class, name); ground obligations enumerate the real tables."""
    from pyvc.smt import FALSE
    ci = ex.try_cls(obj.cls)
    if ci is None or not any(c.name == "Message" for c in ci.mro()):
        return VBool(FALSE)          # only DefinedMessage has a __getattr__ fallback
    ex.decls.fun("defines_attr", [INT, STR], BOOL)
    return VBool(app("defines_attr", BOOL, ex.type_of(st, obj.t), ex.decls.str_lit(attr)))


@R.specfn("class_attr:name")
def _class_name_attr(ex, st, obj):
    """<message>.name: the class' human readable command name (an arbitrary string per class)"""
    ex.decls.fun("class_display_name", [INT], STR)
    return VStr(app("class_display_name", STR, ex.type_of(st, obj.t)))


# tables of the same kind are distinct objects: each is assigned exactly once, in Node.__init__, to a new `{}` (ground
# obligation C13.struct.tables-assigned-once, props/ground.py)
R.struct_fact("Node", "self.connections != self._half_ready_connections")
R.assume("structural fact (ground obligation C13.struct.tables-assigned-once): Node.connections and "
         "Node._half_ready_connections are distinct dictionaries")
