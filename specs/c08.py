"""C08: validate_message_avps (required-AVP check) under contract."""
from pyvc.spec import REG as R, Raise
from pyvc.smt import (INT, BOOL, STR, SEQI, I, And, Or, Not, Eq, Lt, Le, Ite, Implies, app, seq_len, seq_concat, seq_unit,
                      seq_empty, select)
from pyvc.values import VSeq, VBool, VOpt, VAny, VRef, parse_kind
from . import node  # noqa

R.model("AvpGenDef", builtin=True, fields={"attr_name": "str", "avp_code": "int", "vendor_id": "int",
                                           "is_required": "bool", "is_mandatory": "Opt[bool]", "type_class": "Any"})


@R.specfn("class_attr:avp_def")
def _avp_def(ex, st, obj):
    """msg.avp_def: the class' table of AvpGenDef rows (an arbitrary fixed sequence per class)"""
    ex.decls.fun("avp_defs", [INT], SEQI)
    return VSeq(app("avp_defs", SEQI, ex.type_of(st, obj.t)), parse_kind("AvpGenDef"))


@R.specfn("avp_defs")
def _avp_defs(ex, st, obj):
    return _avp_def(ex, st, ex.unwrap(obj))


@R.specfn("hasattr_class_attr:avp_def")
def _has_avp_def(ex, st, obj):
    ex.decls.fun("has_avp_def", [INT], BOOL)
    return VBool(app("has_avp_def", BOOL, ex.type_of(st, obj.t)))


@R.specfn("has_avp_def")
def _has_avp_def2(ex, st, obj):
    return _has_avp_def(ex, st, ex.unwrap(obj))


def _attr_none(ex, obj_t, name_t):
    ex.decls.fun("attr_is_none", [INT, STR], BOOL)
    return app("attr_is_none", BOOL, obj_t, name_t)


@R.specfn("getattr_dyn")
def _getattr_dyn(ex, st, v, name, k, where):
    """getattr(msg, <attr name of one of its own avp_def rows>): the attribute value or None (DefinedMessage.__getattr__
    returns None for declared-but-unset names, so this never raises); only None-ness is observable here."""
    v = ex.unwrap(v)
    return k(st, VOpt(_attr_none(ex, v.t, ex.unwrap(name).t), VAny(ex.arbitrary(INT, "attrval"))))


@R.specfn("attr_is_none")
def _attr_is_none(ex, st, obj, name):
    return VBool(_attr_none(ex, ex.unwrap(obj).t, ex.unwrap(name).t))


def _decl_missing(ex):
    ex.decls.fun("missing", [SEQI, INT], SEQI)


@R.specfn("missing")
def _missing(ex, st, defs, msg):
    """the rows r of defs (in order) with r.is_required and getattr(msg, r.attr_name) is None (snoc recursion)"""
    _decl_missing(ex)
    t, _ = ex.as_seq(st, ex.unwrap(defs))
    w = app("missing", SEQI, t, ex.unwrap(msg).t)
    st.pc.append(Implies(Eq(seq_len(t), I(0)), Eq(w, seq_empty())))
    return VSeq(w, parse_kind("AvpGenDef"))


@R.specfn("missing_snoc")
def _missing_snoc(ex, st, done, x, msg):
    _decl_missing(ex)
    d, _ = ex.as_seq(st, ex.unwrap(done))
    x = ex.unwrap(x)
    m = ex.unwrap(msg)
    req = ex.read_field(st, x, "is_required").t
    nm = ex.read_field(st, x, "attr_name").t
    cond = And(req, _attr_none(ex, m.t, nm))
    lhs = app("missing", SEQI, seq_concat(d, seq_unit(x.t)), m.t)
    base = app("missing", SEQI, d, m.t)
    return VBool(Eq(lhs, Ite(cond, seq_concat(base, seq_unit(x.t)), base)))


@R.specfn("row_known")
def _row_known(ex, st, x):
    """Table well-formedness instance (ground obligation C03.T1: every avp_def row of every class has a dictionary entry)"""
    from pyvc.speceval import SpecEnv
    return VBool(ex.spec_bool(SpecEnv(st, {"r": ex.unwrap(x)}), "dict_known(r.avp_code, r.vendor_id)"))


R.contracts["Avp.new"] = R.contracts["Avp.new#novalue"]
del R.contracts["validate_message_avps"]
R.contract("validate_message_avps", params={"msg": "Message"}, returns="List[Avp]",
           ghost={"j": "int"},
           ensures=[("fresh", "fresh(result)"),
                    ("untyped-messages-pass", "implies(not has_avp_def(msg), len(result) == 0)"),
                    ("one-entry-per-missing-required-avp",
                     "implies(has_avp_def(msg), len(result) == len(missing(avp_defs(msg), msg)))"),
                    ("entries-name-the-missing-avps",
                     "implies(has_avp_def(msg) and 0 <= j < len(result), "
                     "items(result)[j].code == items(missing(avp_defs(msg), msg))[j].avp_code and "
                     "items(result)[j]._vendor_id == items(missing(avp_defs(msg), msg))[j].vendor_id)")],
           raises=[], props=["C08", "C03"],
           note="exactly the (code, vendor) of the required rows whose attribute is None, in table order")
R.loop("validate_message_avps", 0,
       invariants=[("count", "len(failed_avp) == len(missing(done, msg))"),
                   ("entries", "implies(0 <= j < len(failed_avp), "
                               "items(failed_avp)[j].code == items(missing(done, msg))[j].avp_code and "
                               "items(failed_avp)[j]._vendor_id == items(missing(done, msg))[j].vendor_id)"),
                   ("fresh-list", "fresh(failed_avp)"),
                   ("table-fixed", "seq == avp_defs(msg)")],
       hints=["missing_snoc(done, cur, msg)", "row_known(cur)"],
       modifies=["list:failed_avp"])
R.assume("table well-formedness (ground obligations C03.T1): every avp_def row has an AVP dictionary entry")
R.kind_hints[("validate_message_avps", "[]")] = "List[Avp]"

from pyvc.spec import Clause as _Clause
_rm = R.contracts["Node._receive_message"]
_rm.ensures.append(_Clause("missing-required-avp-5005",
    "implies(is_req(msg) and old(self.validate_received_request_avps) and has_avp_def(msg) and "
    "len(missing(avp_defs(msg), msg)) > 0, len(out(conn)) == old(len(out(conn))) + 1 and "
    "new_out(conn).result_code == 5005 and no_delivery(self))"))
_rm.ensures.append(_Clause("complete-request-is-not-5005",
    "implies(is_req(msg) and has_avp_def(msg) and len(missing(avp_defs(msg), msg)) == 0 and "
    "msg.header.command_code != 257 and "
    "len(out(conn)) == old(len(out(conn))) + 1, new_out(conn).result_code != 5005)"))
_rm.ensures.append(_Clause("a-request-that-is-no-flagged-repeat-passes-validation-and-matches-an-application-is-delivered",
    "implies(is_req(msg) and msg.header.command_code != 257 and msg.header.command_code != 280 and "
    "msg.header.command_code != 282 and not old(dup_cond(self, msg)) and "
    "(not old(self.validate_received_request_avps) or not has_avp_def(msg) or len(missing(avp_defs(msg), msg)) == 0) and "
    "old(hasattr(msg, 'destination_realm')) and old(realm_of(msg) in self._peer_routes) and "
    "old(app_matches(self, conn, realm_of(msg), w, msg.header.application_id)), not no_delivery(self))"))
if "C08" not in _rm.props:
    _rm.props.append("C08")

# ---- C08.routes: construction of the route table -----------------------------------------------------------
R.kind_hints[("Node.add_application", "{}")] = "Dict[Any:routekey,List[Peer]]"
R.kind_hints[("Node.add_application", "[]")] = "List[Peer]"
R.contract("Application.start", trusted=True, params={"self": "Application"}, modifies=["*StoppableThread.started"],
           note="behavioural contract of the polymorphic start(): starts the application's own worker threads, if any")
R.macro("routed", ["n", "a", "p", "r"], "r in n._peer_routes and a in n._peer_routes[r] and p in n._peer_routes[r][a]")
R.macro("wanted", ["p", "r", "realms"], "r == p.realm_name or (not is_none(realms) and r in items(some(realms)))")
R.contract("Node.add_application",
           params={"self": "Node", "app": "Application", "peers": "List[Peer]", "realms": "Opt[List[str]]"},
           ghost={"p": "Peer", "r": "str", "p2": "Peer", "r2": "str", "k2": "Any:routekey"},
           requires=[("own-peer-list", "peers != self.applications")],
           ensures=[("every-configured-peer-is-routed-in-its-realm-and-the-extra-realms",
                     "implies(p in old(items(peers)) and wanted(p, r, realms), routed(self, app, p, r))"),
                    ("existing-routes-are-kept",
                     "implies(old(r2 in self._peer_routes and k2 in self._peer_routes[r2] and p2 in self._peer_routes[r2][k2]), "
                     "r2 in self._peer_routes and k2 in self._peer_routes[r2] and p2 in self._peer_routes[r2][k2])"),
                    ("registered", "app in items(self.applications) and app._node == self")],
           modifies=["list:self.applications", "dict:self._peer_routes", "*dict:Dict[Any:routekey,List[Peer]]", "*list:Peer",
                     "app._node", "*StoppableThread.started"],
           props=["C08", "C10"])
_KEEP = ("implies(old(r2 in self._peer_routes and k2 in self._peer_routes[r2] and p2 in self._peer_routes[r2][k2]), "
         "r2 in self._peer_routes and k2 in self._peer_routes[r2] and p2 in self._peer_routes[r2][k2])")
R.loop("Node.add_application", 0,
       invariants=[("done-peers-routed", "implies(p in done and wanted(p, r, realms), routed(self, app, p, r))"),
                   ("kept", _KEEP), ("inputs-fixed", "seq == old(items(peers))"),
                   ("app-listed", "app in items(self.applications)")],
       modifies=["dict:self._peer_routes", "*dict:Dict[Any:routekey,List[Peer]]", "*list:Peer"])
R.loop("Node.add_application", 1,
       invariants=[("earlier-peers-routed", "implies(p in done0 and wanted(p, r, realms), routed(self, app, p, r))"),
                   ("this-peer-routed-so-far", "implies(r in done, routed(self, app, peer, r))"),
                   ("kept", _KEEP),
                   ("realm-list", "implies(wanted(peer, r, realms), r in seq)"),
                   ("app-listed", "app in items(self.applications)")],
       modifies=["dict:self._peer_routes", "*dict:Dict[Any:routekey,List[Peer]]", "*list:Peer"])

# ---- C10/C08: Node.add_peer (default peers are routed under THEIR realm) ---------------------------------------------
R.model("DiameterUri", builtin=True, fields={"fqdn": "str", "port": "int", "params": "Any"})
R.contract("parse_diameter_uri", trusted=True, params={"uri": "str"}, returns="DiameterUri", allocates=True,
           raises=[Raise("ValueError", "True", "may")],
           note="ASSUMED: parses aaa://fqdn:port;transport=...; only the host name and port are used below")
R.contract("Peer.__new__", trusted=True,
           params={"node_name": "str", "realm_name": "str", "transport": "int", "port": "int", "ip_addresses": "List[str]",
                   "persistent": "bool"},
           returns="Peer", allocates=True,
           ensures=["result.node_name == node_name and result.realm_name == realm_name and result.transport == transport and "
                    "result.port == port and result.persistent == persistent and is_none(result.connection)"],
           note="ASSUMED: the dataclass constructor stores its arguments")
R.region("Node.add_peer", "Assign", 1, assigns={"transport": "int"}, note="transport = uri.params.get('transport', 'tcp').lower()")
R.region("Node.add_peer", "Assign", 2, assigns={"transport": "int"}, note="transport = SCTP/TCP constant by name")
R.kind_hints[("Node.add_peer", "{}")] = "Dict[Any:routekey,List[Peer]]"
R.kind_hints[("Node.add_peer", "[]")] = "List[Peer]"
R.contract("Node.add_peer", params={"self": "Node", "peer_uri": "str", "realm_name": "Opt[str]", "ip_addresses": "Opt[List[str]]",
                                    "is_persistent": "bool", "is_default": "bool"},
           returns="Peer", ghost={"r2": "str"}, ghost_out={"u": ("uri", "DiameterUri")},
           ensures=[("registered-under-its-host-name", "u.fqdn in self.peers and self.peers[u.fqdn] == result and "
                                                       "implies(not unchanged(self.peers), result.node_name == u.fqdn)"),
                    ("a-new-default-peer-is-routed-under-its-own-realm",
                     "implies(not unchanged(self.peers) and is_default, result.realm_name in self._peer_routes and "
                     "'_default' in self._peer_routes[result.realm_name] and "
                     "result in items(self._peer_routes[result.realm_name]['_default']))"),
                    ("no-other-realm-gets-a-route",
                     "implies(not unchanged(self.peers) and r2 != result.realm_name, "
                     "(r2 in self._peer_routes) == old(r2 in self._peer_routes))"),
                    ("realm-defaults-to-the-nodes", "implies(not unchanged(self.peers), result.realm_name == "
                                                    "ite(is_none(realm_name) or some(realm_name) == '', self.realm_name, some(realm_name)))")],
           raises=[Raise("ValueError", "True", "may"), Raise("RuntimeError", "True", "may")],
           modifies=["dict:self.peers", "dict:self._peer_routes", "*dict:Dict[Any:routekey,List[Peer]]", "*list:Peer"],
           props=["C10", "C08"])

R.loops[("Node.add_application", 0)].assume_iter_stable = (
    "the caller's list of peers is not one of the node's own route lists (which the loop appends to)")
