"""Spec function frames() of C05 and its chunking-invariance lemma (explicit induction schema)."""
from pyvc.spec import REG as R
from pyvc.smt import (SEQI, INT, BOOL, I, And, Or, Not, Eq, Lt, Le, Ite, Implies, app, seq_len, seq_concat, seq_extract,
                      seq_empty, Add, Sub)
from pyvc.values import VBool, VBytes, VInt
from pyvc.models import un


def _decl(ex):
    ex.decls.fun("fr_rest", [SEQI], SEQI)
    ex.decls.fun("fr_seq", [SEQI], SEQI)
    ex.decls.fun("fr_n", [SEQI], INT)


@R.specfn("fr_rest")
def _rest(ex, st, s):
    _decl(ex)
    return VBytes(app("fr_rest", SEQI, ex.unwrap(s).t))


@R.specfn("fr_seq")
def _seq(ex, st, s):
    _decl(ex)
    return VBytes(app("fr_seq", SEQI, ex.unwrap(s).t))


@R.specfn("fr_n")
def _n(ex, st, s):
    _decl(ex)
    return VInt(app("fr_n", INT, ex.unwrap(s).t))


@R.specfn("frames_def")
def _frames_def(ex, st, s):
    """Definition instance for s (streams whose frame lengths are >= 20):
       stuck(s) := len s < 20 or L > len s;  stuck: rest s = s, seq s = empty, n s = 0
       else: rest s = rest(s[L:]), seq s = s[:L] ++ seq(s[L:]), n s = 1 + n(s[L:])"""
    _decl(ex)
    t = ex.unwrap(s).t
    n = seq_len(t)
    from pyvc.smt import Mod
    L = Mod(un(ex, st, 4, seq_extract(t, I(0), I(4))), I(2 ** 24))
    stuck = Or(Lt(n, I(20)), Lt(n, L))
    tail = seq_extract(t, L, Sub(n, L))
    head = seq_extract(t, I(0), L)
    f_rest = lambda x: app("fr_rest", SEQI, x)
    f_seq = lambda x: app("fr_seq", SEQI, x)
    f_n = lambda x: app("fr_n", INT, x)
    d = And(Implies(stuck, And(Eq(f_rest(t), t), Eq(f_seq(t), seq_empty()), Eq(f_n(t), I(0)))),
            Implies(And(Not(stuck), Le(I(20), L)),
                    And(Eq(f_rest(t), f_rest(tail)), Eq(f_seq(t), seq_concat(head, f_seq(tail))),
                        Eq(f_n(t), Add(I(1), f_n(tail))))))
    return VBool(d)


R.macro("fr_stuck", ["s"], "len(s) < 20 or hlen(s) > len(s)")
R.macro("chunk_inv", ["a", "b"],
        "fr_rest(a + b) == fr_rest(fr_rest(a) + b) and fr_seq(a + b) == fr_seq(a) + fr_seq(fr_rest(a) + b) "
        "and fr_n(a + b) == fr_n(a) + fr_n(fr_rest(a) + b)")
R.lemma_ob("frames-chunking-invariance", vars={"a": "bytes", "b": "bytes"},
           assumes=[("well-formed-length", "implies(not fr_stuck(a), hlen(a) >= 20)"),
                    ("induction-hypothesis", "implies(not fr_stuck(a), chunk_inv(a[hlen(a):], b))")],
           hints=["frames_def(a)", "frames_def(a + b)"],
           shows=[("chunking-invariance", "chunk_inv(a, b)")],
           props=["C05"],
           note="frames(a ++ b) continues frames(a) from its stuck remainder: induction on len(a), the hypothesis is "
                "instantiated on the strictly shorter a[L:]; with the step clauses of work_read_queue (one loop "
                "iteration = one unfolding of frames) this is chunking invariance")
R.lemma_ob("frames-conservation", vars={"a": "bytes"},
           assumes=[("well-formed-length", "implies(not fr_stuck(a), hlen(a) >= 20)"),
                    ("induction-hypothesis", "implies(not fr_stuck(a), fr_seq(a[hlen(a):]) + fr_rest(a[hlen(a):]) == a[hlen(a):])")],
           hints=["frames_def(a)"],
           shows=[("nothing-lost", "fr_seq(a) + fr_rest(a) == a")], props=["C05"],
           note="delivered frames ++ buffered remainder = received stream (exactly once, in order)")
