"""Contracts of the typed AVP value getters/setters (C01 layouts, C04 raises clauses)."""
from pyvc.spec import REG as R, Raise
from . import avp  # noqa

R.macro("s32", ["b"], "ite(u32(b) < 2**31, u32(b), u32(b) - 2**32)")
R.macro("s64", ["b"], "ite(u64(b) < 2**63, u64(b), u64(b) - 2**64)")

# behavioural contract of the polymorphic `value` property (what callers may rely on for any Avp)
R.contract("Avp.value", params={"self": "Avp"}, returns="Any",
           raises=[Raise("AvpDecodeError", "True", "may")],
           modifies=["self._avps"], props=["C04"],
           note="base contract for dynamic dispatch; every override is verified against its own, "
                "stronger contract and checked to refine this one")

_INTS = [("AvpInteger32", 4, True, "s32", "be32", 32), ("AvpInteger64", 8, True, "s64", "be64", 64),
         ("AvpUnsigned32", 4, False, "u32", "be32", 32), ("AvpUnsigned64", 8, False, "u64", "be64", 64)]
for cls, size, signed, dec, enc, bits in _INTS:
    lo, hi = (f"-2**{bits - 1}", f"2**{bits - 1}") if signed else ("0", f"2**{bits}")
    R.contract(f"{cls}.value", params={"self": cls}, returns="int",
               ensures=[("decodes", f"len(self.payload) == {size} and result == {dec}(self.payload)")],
               raises=[Raise("AvpDecodeError", f"len(self.payload) != {size}", "iff")],
               props=["C01", "C04"])
    R.contract(f"{cls}.value.fset", params={"self": cls, "new_value": "int"},
               ensures=[("layout", f"self.payload == {enc}(new_value % 2**{bits})")],
               raises=[Raise("AvpEncodeError", f"not ({lo} <= new_value < {hi})", "iff")],
               modifies=["self.payload"], props=["C01"])
    R.lemma_ob(f"roundtrip[{cls}]", vars={"v": "int"}, assumes=[f"{lo} <= v < {hi}"],
               shows=[("decode-encode", f"{dec}({enc}(v % 2**{bits})) == v"),
                      ("length", f"len({enc}(v % 2**{bits})) == {size}")], props=["C01"])
    R.lemma_ob(f"reencode[{cls}]", vars={"b": "bytes"}, assumes=[f"len(b) == {size}"],
               shows=[("encode-decode", f"{enc}({dec}(b) % 2**{bits}) == b"),
                      ("in-domain", f"{lo} <= {dec}(b) < {hi}")], props=["C01"])

R.contract("AvpOctetString.value", params={"self": "AvpOctetString"}, returns="bytes",
           ensures=[("identity", "result == self.payload")], props=["C01", "C04"])
R.contract("AvpOctetString.value.fset", params={"self": "AvpOctetString", "new_value": "bytes"},
           ensures=[("identity", "self.payload == new_value")], modifies=["self.payload"], props=["C01"])
R.contract("AvpOctetString.value.fset#str", params={"self": "AvpOctetString", "new_value": "str"},
           ensures=[("never-returns", "False")],
           raises=[Raise("AvpEncodeError", "True", "iff")], props=["C01"],
           note="domain rejection: a non-bytes value is refused")

R.contract("AvpOctetString.value.fset#int", params={"self": "AvpOctetString", "new_value": "int"},
           ensures=[("never-returns", "False")],
           raises=[Raise("AvpEncodeError", "True", "iff")], props=["C01"],
           note="domain rejection: an integer is not an octet string (round 6, seed C01-17: bytes(5) is five NUL octets)")

R.contract("AvpUtf8String.value", params={"self": "AvpUtf8String"}, returns="str",
           ensures=[("decodes", "valid_utf8(self.payload) and result == utf8dec(self.payload)")],
           raises=[Raise("AvpDecodeError", "not valid_utf8(self.payload)", "iff")], props=["C01", "C04"])
R.contract("AvpUtf8String.value.fset", params={"self": "AvpUtf8String", "new_value": "str"},
           ensures=[("layout", "self.payload == utf8(new_value)")],
           raises=[Raise("AvpEncodeError", "not encodable(new_value)", "iff")],
           modifies=["self.payload"], props=["C01"])
R.contract("AvpUtf8String.value.fset#bytes", params={"self": "AvpUtf8String", "new_value": "bytes"},
           ensures=[("never-returns", "False")],
           raises=[Raise("AvpEncodeError", "True", "iff")], props=["C01"])
R.contract("AvpUtf8String.value.fset#int", params={"self": "AvpUtf8String", "new_value": "int"},
           ensures=[("never-returns", "False")],
           raises=[Raise("AvpEncodeError", "True", "iff")], props=["C01"])
R.lemma_ob("roundtrip[AvpUtf8String]", vars={"s": "str"}, assumes=["encodable(s)"],
           shows=[("decode-encode", "valid_utf8(utf8(s)) and utf8dec(utf8(s)) == s")], props=["C01"],
           note="instance of T-utf8")

for cls, size in (("AvpFloat32", 4), ("AvpFloat64", 8)):
    b = size * 8
    R.contract(f"{cls}.value", params={"self": cls}, returns="Any",
               ensures=[("decodes", f"len(self.payload) == {size} and result == f{b}dec(self.payload)")],
               raises=[Raise("AvpDecodeError", f"len(self.payload) != {size}", "iff")], props=["C01", "C04"])
    R.contract(f"{cls}.value.fset", params={"self": cls, "new_value": "Any"},
               ensures=[("layout", f"self.payload == f{b}enc(new_value)")],
               raises=([Raise("OverflowError", "not f32fits(new_value)", "iff")] if size == 4 else []),
               modifies=["self.payload"], props=["C01"],
               note="T-float: IEEE-754 value semantics of struct 'f'/'d' are an assumed contract")
    R.contract(f"{cls}.value.fset#str", params={"self": cls, "new_value": "str"},
               ensures=[("never-returns", "False")],
               raises=[Raise("AvpEncodeError", "True", "iff")], props=["C01"])

# ---- Time: RFC 5905 era arithmetic, RFC 2030 MSB rule (taken from the property, not from the code)
NTP_DELTA = 2208988800
T_MIN = 2**31 - NTP_DELTA                 # 1968-01-20T03:14:08Z
T_MAX = 2**32 + 2**31 - 1 - NTP_DELTA     # 2104-02-26T09:42:23Z
R.macro("ntp_to_unix", ["s"], f"ite(s < 2**31, s + 2**32 - {NTP_DELTA}, s - {NTP_DELTA})")
R.contract("AvpTime.value", params={"self": "AvpTime"}, returns="datetime",
           ensures=[("decodes", "len(self.payload) == 4 and result.ts == ntp_to_unix(u32(self.payload))")],
           raises=[Raise("AvpDecodeError", "len(self.payload) != 4", "iff")], props=["C01", "C04"])
R.contract("AvpTime.value.fset", params={"self": "AvpTime", "new_value": "datetime"},
           ensures=[("layout", f"self.payload == be32((new_value.ts + {NTP_DELTA}) % 2**32)")],
           raises=[Raise("AvpEncodeError", f"not ({T_MIN} <= new_value.ts <= {T_MAX})", "iff")],
           modifies=["self.payload"], props=["C01"])
# the part of the domain rejection that holds on the reference tree (the known finding C01-time-range-wrap is the rest of the
# must-raise clause: 1900..1968 and 2104..2172 are wrapped into the other era): a time more than one era away from either era
# origin is never accepted
R.contracts["AvpTime.value.fset"].must_raise = [
    ("a-time-more-than-one-era-away-from-1900-or-2036-is-rejected",
     f"new_value.ts < {-NTP_DELTA} or new_value.ts >= {2085978496 + 2**32}")]
R.contract("AvpTime.value.fset#str", params={"self": "AvpTime", "new_value": "str"},
           ensures=[("never-returns", "False")],
           raises=[Raise("AvpEncodeError", "True", "iff")], props=["C01"])
R.lemma_ob("roundtrip[AvpTime]", vars={"t": "int"}, assumes=[f"{T_MIN} <= t <= {T_MAX}"],
           shows=[("decode-encode", f"ntp_to_unix(u32(be32((t + {NTP_DELTA}) % 2**32))) == t")], props=["C01"])

# ---- Address
R.contract("AvpAddress.value", params={"self": "AvpAddress"}, returns="Tuple[int,str]",
           ensures=[("ipv4", "implies(len(self.payload) == 6 and u16(self.payload[:2]) == 1, "
                             "result[0] == 1 and result[1] == ntop4(self.payload[2:]))"),
                    ("ipv6", "implies(len(self.payload) == 18 and u16(self.payload[:2]) == 2, "
                             "result[0] == 2 and result[1] == ntop6(self.payload[2:]))"),
                    ("e164", "implies(len(self.payload) >= 2 and u16(self.payload[:2]) == 8 and "
                             "valid_utf8(self.payload[2:]), "
                             "result[0] == 8 and result[1] == utf8dec(self.payload[2:]))")],
           raises=[Raise("AvpDecodeError",
                         "len(self.payload) < 2 or (u16(self.payload[:2]) == 1 and len(self.payload) != 6) or "
                         "(u16(self.payload[:2]) == 2 and len(self.payload) != 18) or "
                         "(u16(self.payload[:2]) == 8 and not valid_utf8(self.payload[2:]))", "iff")],
           props=["C01", "C04"])
R.contract("AvpAddress.value.fset", params={"self": "AvpAddress", "new_value": "str"},
           ensures=[("ipv4", "implies(is_ipv4(new_value), self.payload == be16(1) + pton4(new_value))"),
                    ("ipv6", "implies(is_ipv6(new_value) and not is_ipv4(new_value), "
                             "self.payload == be16(2) + pton6(new_value))"),
                    ("e164", "implies(not str_contains(new_value, '.') and not str_contains(new_value, ':'), "
                             "self.payload == be16(8) + utf8(new_value))")],
           raises=[Raise("AvpEncodeError",
                         "((str_contains(new_value, '.') or str_contains(new_value, ':')) and "
                         "not is_ipv4(new_value) and not is_ipv6(new_value)) or "
                         "(not str_contains(new_value, '.') and not str_contains(new_value, ':') and "
                         "not encodable(new_value))", "iff")],
           modifies=["self.payload"], props=["C01"])

# C03 speaks about Address attributes as (family, text) pairs that can be fed back: the Address codec contracts are part of its
# check as well (round 5: scope)
for _n in ("AvpAddress.value", "AvpAddress.value.fset"):
    if _n in R.contracts and "C03" not in R.contracts[_n].props:
        R.contracts[_n].props.append("C03")
