"""C19: per-transaction state and per-connection resources are released."""
from pyvc.spec import REG as R, Raise, Clause
from . import node, c13  # noqa
from .node import CONNECTING, CONNECTED, CLOSED, R_SOCKFAIL
from pyvc import models as _m
from pyvc.values import VRef

# environment models for the dial path
R.contract("Socket.__new__", trusted=True, params={}, returns="Socket", allocates=True, ensures=["not result.closed"])
R.contract("Socket.setblocking", trusted=True, params={"self": "Socket", "flag": "bool"})
R.contract("Socket.connect", trusted=True, params={"self": "Socket", "addr": "Any"}, raises=[Raise("OSError", "True", "may")])
R.contract("Socket.connectx", trusted=True, params={"self": "Socket", "addr": "Any"}, raises=[Raise("OSError", "True", "may")])
R.contract("Socket.getsockname", trusted=True, params={"self": "Socket"}, returns="Tuple[str,int]")
R.contract("PeerConnection.__new__", trusted=True,
           params={"peer_ip": "Any", "peer_port": "int", "peer_direction": "int", "interrupt_fileno": "int"},
           returns="PeerConnection", allocates=True,
           ensures=["result.state == %d" % CLOSED, "not result._read_thread.stopped and not result._write_thread.stopped",
                    "result._direction == peer_direction", "result.node_name == '' and result.host_identity == ''",
                    "len(result._write_msg_queue.g_put) == 0 and result.g_close_calls == 0",
                    "fresh(result.hop_by_hop_seq) and fresh(result._write_msg_queue) and fresh(result._read_thread) and "
                    "fresh(result._write_thread)"],
           note="ASSUMED (read from PeerConnection.__init__): a new connection object starts its two workers")


def _sock_new(ex, st, args, kwargs, k, where):
    return ex.apply_contract(st, R.contracts["Socket.__new__"], [], {}, k, where)


_m.EXT["socket.socket"] = _sock_new
_m.EXT["sctp.sctpsocket_tcp"] = _sock_new
R.kind_hints[("Node._connect_to_peer", "[]")] = "List[str]"

del R.contracts["Node._connect_to_peer"]
R.contract("Node._connect_to_peer", params={"self": "Node", "peer": "Peer"},
           ghost={"gp": "Peer"},
           ghost_out={"c": ("conn", "PeerConnection"), "s": ("peer_socket", "Socket")},
           requires=[("generators", "seq_ok(self.end_to_end_seq)"),
                     ("identity-encodable", "encodable(self.origin_host) and encodable(self.realm_name)")],
           assume_pre=[("peers-table-keyed-by-node-name",
                        "peer.node_name != '' and peer.node_name in self.peers and self.peers[peer.node_name] == peer")],
           entry_facts=["entry_closed(self.connections)"],
           hints=[],
           ensures=[("a-dial-that-leaves-no-registered-connection-releases-socket-and-workers",
                     "implies(old(is_none(peer.connection)) and old(len(peer.ip_addresses)) > 0 and "
                     "not (c.ident in self.connections and self.connections[c.ident] == c), "
                     "s.closed and workers_stopped(c))"),
                    ("a-dialled-connection-that-stays-registered-is-linked-to-its-peer",
                     "implies(old(is_none(peer.connection)) and old(len(peer.ip_addresses)) > 0 and "
                     "c.ident in self.connections and self.connections[c.ident] == c, "
                     "not is_none(peer.connection) and some(peer.connection) == c)"),
                    ("an-outbound-connection-that-is-connected-when-the-dial-returns-has-sent-its-cer-first",
                     "implies(old(is_none(peer.connection)) and old(len(peer.ip_addresses)) > 0 and "
                     "c.ident in self.connections and self.connections[c.ident] == c and c.state == %d, "
                     "len(out(c)) == 1 and is_req(items(out(c))[0]) and type_is(items(out(c))[0], CapabilitiesExchangeRequest))" % CONNECTED),
                    ("a-peer-left-without-a-connection-has-a-disconnect-reason-if-it-had-one-or-had-a-connection", "implies(is_none(gp.connection) and (old(not is_none(gp.disconnect_reason)) or old(not is_none(gp.connection))), not is_none(gp.disconnect_reason))"),
                    ("connected-peer-is-not-dialled-again",
                     "implies(old(not is_none(peer.connection)), unchanged(self.connections) and "
                     "peer.connection == old(peer.connection))")],
           raises=[Raise("RuntimeError", "True", "may")],
           ghost_ensures_exc={"RuntimeError": ["self.g_dialled == old(self.g_dialled) + [peer]"]},
           ensures_exc={"RuntimeError": [("a-peer-left-without-a-connection-has-a-disconnect-reason-if-it-had-one-or-had-a-connection", "implies(is_none(gp.connection) and (old(not is_none(gp.disconnect_reason)) or old(not is_none(gp.connection))), not is_none(gp.disconnect_reason))")]},
           ghost_modifies=["self.g_dialled", "*MsgQueue.g_put"],
           ghost_ensures=["self.g_dialled == old(self.g_dialled) + [peer]"],
           modifies=["peer.connection", "peer.disconnect_reason", "peer.last_connect", "peer.last_disconnect",
                     "*Peer.connection", "*Peer.disconnect_reason", "*Peer.last_connect", "*Peer.last_disconnect",
                     "dict:self.connections", "dict:self.peer_sockets", "dict:self.socket_peers",
                     "dict:self._half_ready_connections", "*SequenceGenerator._sequence", "*Event.flag",
                     "*list:Peer", "dict:self._peer_waiting_answer", "*Socket.closed", "*StoppableThread.stopped",
                     "*PeerConnection.state"],
           props=["C19", "C12", "C13", "C06"])

R.assume("ASSUMED invariant (established by Node.add_peer, not verified): self.peers is keyed by Peer.node_name")
R.contracts["Node._connect_to_peer"].ghost_bind = {"Node.close_connection_socket": {"gs": "peer_socket"}}

# per-transaction tables
R.contracts["Node._receive_app_answer"].ensures.append(
    Clause("correlation-entry-released", "not (mkey(message) in self._app_waiting_answer)"))
R.contracts["Node._receive_app_answer"].props.append("C19")
R.contracts["Node._receive_message"].ensures.append(
    Clause("received-answers-leave-no-origin-record", "implies(not is_req(msg), unchanged(self._origin_waiting_answer))"))
R.contracts["Node._receive_message"].props.append("C19")
R.region("Node._connect_to_peer", "Assign", 11, assigns={"connect_addr": "Any"},
         note="SCTP address list [(ip, port) for ip in peer.ip_addresses]: an opaque value only passed to connectx")

R.contracts["Node._receive_message"].ensures.append(
    Clause("a-request-answered-by-the-node-leaves-no-origin-record",
           "implies(is_req(msg) and len(out(conn)) == old(len(out(conn))) + 1, "
           "not (mkey(msg) in self._origin_waiting_answer))"))

# with the verified dial contract loaded, the reconnect loop must establish its preconditions
R.contracts["Node._reconnect_peers"].requires += [
    Clause("generators", "seq_ok(self.end_to_end_seq)"),
    Clause("identity-encodable", "encodable(self.origin_host) and encodable(self.realm_name)")]

# round 5: release clauses that existed under other properties only (scope) - the resources C19 talks about are released by them
from . import c15, peer  # noqa  (send/receive slices of the I/O loop, reader loop)
for _n in ("Node._handle_connections@for:wsock",      # a hard write failure signals the node, which releases the connection
           "Node._handle_connections@for:rsock",      # read failure / EOF releases the connection
           "PeerConnection.work_read_queue",          # the reader leaves its loop (no worker spins for ever)
           "PeerConnection.work_write_queue",
           "Node._record_answer", "Node.send_message"):   # exactly the answered record leaves the origin table
    if _n in R.contracts and "C19" not in R.contracts[_n].props:
        R.contracts[_n].props.append("C19")
