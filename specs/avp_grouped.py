"""AvpGrouped value getter/setter (C01 nesting by modularity, C04 termination + raises)."""
from pyvc.spec import REG as R, Raise
from pyvc.smt import (T, INT, BOOL, SEQI, I, And, Or, Not, Eq, Lt, Le, Implies, app, seq_len, seq_concat, seq_unit,
                      seq_nth, seq_empty, arr)
from pyvc.values import VBool, VBytes, VRef, VSeq
from . import avp, avp_types  # noqa


def _avp_arrays(ex, st):
    code = ex.heap_array(st, "Avp.code", INT, INT)
    flags = ex.heap_array(st, "Avp.flags", INT, INT)
    vend = ex.heap_array(st, "Avp._vendor_id", INT, INT)
    pay = ex.heap_array(st, "Avp.payload", INT, SEQI)
    return code, flags, vend, pay


def _decl(ex):
    A = [arr(INT, INT), arr(INT, INT), arr(INT, INT), arr(INT, SEQI)]
    ex.decls.fun("wires", A + [SEQI], SEQI)
    ex.decls.fun("all_encodable", A + [SEQI], BOOL)


@R.specfn("wires")
def _wires(ex, st, seq):
    """concatenation of avp_wire(fields of a) for a in seq, over the current heap (defined by snoc recursion)"""
    _decl(ex)
    t, _ = ex.as_seq(st, ex.unwrap(seq))
    hs = _avp_arrays(ex, st)
    w = app("wires", SEQI, *hs, t)
    st.pc.append(Implies(Eq(seq_len(t), I(0)), Eq(w, seq_empty())))
    return VBytes(w)


@R.specfn("wires_snoc")
def _wires_snoc(ex, st, done, x):
    """definitional unfolding: wires(done ++ [x]) == wires(done) ++ avp_wire(x)"""
    from pyvc.speceval import SpecEnv
    _decl(ex)
    d, _ = ex.as_seq(st, ex.unwrap(done))
    x = ex.unwrap(x)
    hs = _avp_arrays(ex, st)
    one = ex.spec_eval(SpecEnv(st, {"a": x}), "avp_wire(a.code, a.flags, a._vendor_id, a.payload)")
    lhs = app("wires", SEQI, *hs, seq_concat(d, seq_unit(x.t)))
    rhs = seq_concat(app("wires", SEQI, *hs, d), one.t)
    return VBool(Eq(lhs, rhs))


@R.specfn("all_encodable")
def _all_enc(ex, st, seq):
    """every AVP of the list satisfies avp_fields_ok (a universally quantified definition; only its
    elimination instances are ever used)"""
    _decl(ex)
    t, _ = ex.as_seq(st, ex.unwrap(seq))
    return VBool(app("all_encodable", BOOL, *_avp_arrays(ex, st), t))


@R.specfn("all_encodable_at")
def _all_enc_at(ex, st, seq, i):
    from pyvc.speceval import SpecEnv
    _decl(ex)
    t, ek = ex.as_seq(st, ex.unwrap(seq))
    i = ex.num(i)
    x = VRef(seq_nth(t, i), "Avp")
    ok = ex.spec_bool(SpecEnv(st, {"a": x}), "avp_fields_ok(a)")
    al = app("all_encodable", BOOL, *_avp_arrays(ex, st), t)
    return VBool(Implies(And(al, Le(I(0), i), Lt(i, seq_len(t))), ok))


@R.specfn("sub_off")
def _sub_off(ex, st, b, n):
    """offset of the n-th member AVP inside a grouped payload: sub_off(b, 0) = 0, sub_off(b, n+1) = d_end(b, sub_off(b, n))"""
    from pyvc.models import _ufun
    from pyvc.smt import INT
    from pyvc.values import VInt
    return VInt(_ufun(ex, "sub_off", ["(Seq Int)", INT], INT, ex.unwrap(b).t, ex.num(n)))


R.kind_hints[("AvpGrouped.value", "[]")] = "List[Avp]"
R.contract("AvpGrouped.value", params={"self": "AvpGrouped"}, returns="List[Avp]", ghost={"j": "int"},
           ensures=[("cached", "hasattr(self, '_avps') and result == self._avps"),
                    ("first-read-decodes-the-members-identical-to-the-payload",
                     "implies(not old(hasattr(self, '_avps')) and 0 <= j < len(result), "
                     "avp_at(result[j], self.payload, sub_off(self.payload, j)))"),
                    ("first-read-consumes-the-whole-payload",
                     "implies(not old(hasattr(self, '_avps')), sub_off(self.payload, len(result)) == len(self.payload))")],
           raises=[Raise("AvpDecodeError", "not hasattr(self, '_avps')", "only_if")],
           ensures_exc={"AvpDecodeError": [("a-failed-decode-caches-nothing", "not hasattr(self, '_avps')")]},
           modifies=["self._avps"], props=["C01", "C04", "C02"])
R.loop("AvpGrouped.value", 0,
       invariants=[("pos-in-buffer", "0 <= upos(unpacker) and upos(unpacker) <= len(ubuf(unpacker))"),
                   ("buffer-fixed", "ubuf(unpacker) == self.payload"),
                   ("nothing-cached-yet", "not hasattr(self, '_avps')"),
                   ("position-is-the-next-member-offset", "upos(unpacker) == sub_off(self.payload, len(avps))"),
                   ("decoded-so-far-identical-to-the-payload",
                    "implies(0 <= j < len(avps), avp_at(avps[j], self.payload, sub_off(self.payload, j)))")],
       hints=["sub_off(self.payload, 0) == 0",
              "sub_off(self.payload, len(avps) + 1) == d_end(self.payload, sub_off(self.payload, len(avps)))"],
       decreases="len(ubuf(unpacker)) - upos(unpacker)",
       modifies=["unpacker._Unpacker__pos", "list:avps"])

R.contract("AvpGrouped.value.fset", params={"self": "AvpGrouped", "new_value": "List[Avp]"},
           requires=[("children-encodable", "all_encodable(new_value)")],
           ensures=[("payload", "self.payload == old(wires(items(new_value)))"),
                    ("cache", "self._avps == new_value")],
           raises=[],
           modifies=["self._avps", "self.payload"], props=["C01"])
R.loop("AvpGrouped.value.fset", 0,
       invariants=[("buf", "pbuf(packer) == wires(done)"),
                   ("list-fixed", "items(self._avps) == old(items(new_value)) and seq == old(items(new_value))"),
                   ("enc", "all_encodable(seq)")],
       hints=["wires_snoc(done, cur)", "all_encodable_at(seq, len(done))"],
       modifies=["packer._Packer__buf.data"])
