"""C15: outbound byte stream = FIFO concatenation of the encodings of the queued messages."""
from pyvc.spec import REG as R, Raise
from . import node, c13  # noqa
from .node import CLOSED

R.model("Message", fields={"g_enc": "bytes"})
R.model("PeerConnection", fields={"g_removed": "bytes"})
# behavioural contract of the polymorphic encoder as seen by the writer: either the message's encoding (ghost g_enc:
# "the bytes as_bytes returned for it") or an exception; no effect on any connection
R.contract("Message.as_bytes", trusted=True, params={"self": "Message"}, returns="bytes",
           raises=[Raise("Exception", "True", "may")],
           ghost_modifies=["self.g_enc"], ghost_ensures=["result == self.g_enc"],
           modifies=["self.header.length", "*Avp._avps", "*list:Any"],
           note="C02 verifies the generic class (Message.as_bytes#plain); here: returns bytes or raises, touches no connection")
R.macro("T_out", ["c"], "c.g_removed + c._write_buffer")
R.contract("PeerConnection.remove_out_bytes", params={"self": "PeerConnection", "sent_bytes": "int"},
           requires=[("count-nonneg", "sent_bytes >= 0")],
           ensures=[("drops-a-prefix", "self._write_buffer == old(self._write_buffer)[sent_bytes:]"),
                    ("conservation", "T_out(self) == old(T_out(self))")],
           ghost_modifies=["self.g_removed"],
           ghost_ensures=["self.g_removed == old(self.g_removed) + old(self._write_buffer)[:sent_bytes]"],
           modifies=["self._write_buffer"], props=["C15"])
R.contract("PeerConnection.work_write_queue", params={"self": "PeerConnection", "_thread": "StoppableThread"},
           requires=[("lock-free-at-start", "not self.write_lock.g_held")],
           raises=[], ghost_modifies=["self._write_msg_queue.g_taken", "*Message.g_enc", "self.g_removed", "self.write_lock.g_held",
                                      "self.g_attn"],
           modifies=["self._write_buffer", "*MessageHeader.length", "*Avp._avps", "*list:Any"], props=["C15", "C14", "C07"],
           note="writer thread: raises nothing; each iteration appends exactly the encoding of the dequeued message, or nothing")
R.contract("PeerConnection.demand_attention#may-fail", trusted=True, params={"self": "PeerConnection"},
           raises=[Raise("OSError", "True", "may")], ghost_modifies=["self.g_attn"],
           note="the wake-up as the writer thread must be prepared to see it: os.write on the interrupt pipe may fail "
                "(EINTR, EBADF once the node has gone); the writer's contract has to hold then as well")
R.contracts["PeerConnection.work_write_queue"].call_overrides = {
    "PeerConnection.demand_attention": R.contracts["PeerConnection.demand_attention#may-fail"]}
R.loop("PeerConnection.work_write_queue", 0,
       invariants=[("write-lock-released-between-messages", "not self.write_lock.g_held")],
       step_back=[("a-stopped-writer-leaves-at-its-next-iteration", "not prev(_thread.stopped)")],
       step=[("appends-the-encoding-or-nothing",
              "T_out(self) == prev(T_out(self)) or "
              "(len(self._write_msg_queue.g_taken) == prev(len(self._write_msg_queue.g_taken)) + 1 and "
              "T_out(self) == prev(T_out(self)) + "
              "items(self._write_msg_queue.g_taken)[prev(len(self._write_msg_queue.g_taken))].g_enc)"),
             ("dequeues-at-most-one", "len(self._write_msg_queue.g_taken) <= prev(len(self._write_msg_queue.g_taken)) + 1 and "
                                      "items(self._write_msg_queue.g_taken)[0:prev(len(self._write_msg_queue.g_taken))] == "
                                      "prev(items(self._write_msg_queue.g_taken))"),
             ("removed-log-only-grows", "is_prefix(prev(self.g_removed), self.g_removed)"),
             ("the-writer-never-queues-a-message-itself",
              "items(self._write_msg_queue.g_put) == prev(items(self._write_msg_queue.g_put))")],
       local_kinds={"new_msg": "Opt[Message]"},
       modifies=["self._write_buffer", "self.g_removed", "self._write_msg_queue.g_taken", "*Message.g_enc", "self.write_lock.g_held",
                 "*MessageHeader.length", "*Avp._avps", "*list:Any", "self.g_attn"])

# ---- the send branch of the I/O loop, extracted mechanically as a slice of Node._handle_connections ------------
R.model("Socket", fields={"g_sent": "bytes"})
R.contract("Socket.send", trusted=True, params={"self": "Socket", "data": "bytes"}, returns="int",
           raises=[Raise("OSError", "True", "may")],
           ensures=["0 <= result <= len(data)"],
           ghost_modifies=["self.g_sent"], ghost_ensures=["self.g_sent == old(self.g_sent) + data[:result]"],
           ensures_exc={"OSError": ["self.g_sent == old(self.g_sent)"]},
           note="T-sock: a non-blocking send accepts 0..len bytes of the buffer it is given (a prefix), or fails")
R.contract("Socket.sendall", trusted=True, params={"self": "Socket", "data": "bytes"},
           raises=[Raise("OSError", "True", "may")],
           ghost_modifies=["self.g_sent"], ghost_ensures=["self.g_sent == old(self.g_sent) + data"],
           ensures_exc={"OSError": ["is_prefix(old(self.g_sent), self.g_sent) and "
                                    "is_prefix(self.g_sent[old(len(self.g_sent)):], data)"]},
           note="T-sock: sendall transmits all of the buffer, or fails after an UNKNOWN prefix of it has gone out")
R.contract("Socket.sctp_send", trusted=True, params={"self": "Socket", "data": "bytes", "flags": "Any"}, returns="int",
           raises=[Raise("OSError", "True", "may")],
           ensures=["0 <= result <= len(data)"],
           ghost_modifies=["self.g_sent"], ghost_ensures=["self.g_sent == old(self.g_sent) + data[:result]"],
           ensures_exc={"OSError": ["self.g_sent == old(self.g_sent)"]})
R.contract("Socket.getsockopt", trusted=True, params={"self": "Socket", "a": "Any", "b": "Any"}, returns="int")
R.interfere("PeerConnection", "_write_buffer", "write_lock", "append")
R.macro("wconn", ["n", "s"], "n.socket_peers[s.fd]")
_slice = R.contract("Node._handle_connections@for:wsock", params={"self": "Node", "wsock": "Socket"},
           requires=[("generators-in-range", "seq_ok(wconn(self, wsock).hop_by_hop_seq) and seq_ok(self.end_to_end_seq) and "
                                             "wconn(self, wsock).hop_by_hop_seq != self.end_to_end_seq"),
                     ("identity-encodable", "encodable(self.origin_host) and encodable(self.realm_name)")],
           ensures=[("a-socket-without-connection-is-ignored",
                     "implies(not old(wsock.fd in self.socket_peers), wsock.g_sent == old(wsock.g_sent) and "
                     "unchanged(self.socket_peers) and unchanged(self.connections))"),
                    ("a-connection-closed-here-without-releasing-its-socket-has-signalled-the-node",
                     "implies(old(wsock.fd in self.socket_peers) and old(wconn(self, wsock)).state == %d and "
                     "old(wconn(self, wsock).state) != %d and "
                     "old(wconn(self, wsock)).g_close_calls == old(wconn(self, wsock).g_close_calls), "
                     "old(wconn(self, wsock)).g_attn > old(wconn(self, wsock).g_attn))" % (CLOSED, CLOSED)),
                    ("transport-receives-exactly-what-leaves-the-buffer",
                     "implies(old(wsock.fd in self.socket_peers), wsock.g_sent[0:old(len(wsock.g_sent))] == old(wsock.g_sent) and "
                     "old(wconn(self, wsock)).g_removed[0:old(len(wconn(self, wsock).g_removed))] == old(wconn(self, wsock).g_removed) and "
                     "wsock.g_sent[old(len(wsock.g_sent)):] == "
                     "old(wconn(self, wsock)).g_removed[old(len(wconn(self, wsock).g_removed)):])"),
                    ("nothing-is-lost-or-reordered",
                     "implies(old(wsock.fd in self.socket_peers), "
                     "is_prefix(old(T_out(wconn(self, wsock))), T_out(old(wconn(self, wsock)))))")],
           raises=[],
           ghost_modifies=["wsock.g_sent", "wconn(self, wsock).g_removed", "*MsgQueue.g_put",
                           "wconn(self, wsock).g_close_calls", "wconn(self, wsock).g_close_reason", "wconn(self, wsock).g_attn"],
           modifies=["wconn(self, wsock)._write_buffer", "*PeerConnection.state", "*StoppableThread.stopped", "*Socket.closed",
                     "*Peer.connection", "*Peer.last_connect", "*Peer.last_disconnect", "*Peer.disconnect_reason",
                     "dict:self.connections", "dict:self.peer_sockets", "dict:self.socket_peers",
                     "dict:self._half_ready_connections", "dict:self._peer_waiting_answer", "*Event.flag", "*list:Peer",
                     "*SequenceGenerator._sequence"],
           props=["C15", "C14", "C13", "C07"],
           note="one iteration of `for wsock in ready_w` (send branch), under interference of the writer thread: the write "
                "buffer may grow at its end whenever it is read outside write_lock and when the lock is acquired")
_slice.interference = [("PeerConnection", "_write_buffer")]


# the writer thread runs under the interference of the I/O loop: a prefix of the buffer may be removed (and logged in
# g_removed) whenever the buffer is read without write_lock and whenever the lock is acquired
@R.specfn("rely:PeerConnection._write_buffer")
def _rely_drop_prefix(ex, st, obj, cur, n):
    from pyvc.smt import seq_concat, seq_extract, I
    rem = ex.read_field(st, obj, "g_removed")
    return ex.write_field(st, obj, "g_removed", type(rem)(seq_concat(rem.t, seq_extract(cur.t, I(0), n))))


R.contracts["PeerConnection.work_write_queue"].interference = [("PeerConnection", "_write_buffer", "drop-prefix")]

# ---- the receive branch of the I/O loop (slice `for rsock in ready_r`), C14: raises nothing ----------------------------
R.contract("Socket.accept", trusted=True, params={"self": "Socket"}, returns="Tuple[Socket,Tuple[str,int]]",
           allocates=False,
           note="T-sock (ASSUMED): accept() on a listening socket that select() reported readable returns a new connected "
                "socket and the peer address and does not fail (an accept failure is not among C14's fault kinds; in the "
                "real code it would propagate out of the I/O loop)")
R.model("Socket", fields={"g_rx": "bytes"})
R.model("PeerConnection", fields={"g_in": "bytes"})
R.contract("Socket.recv", trusted=True, params={"self": "Socket", "n": "int"}, returns="bytes",
           raises=[Raise("OSError", "True", "may")],
           ensures=["len(result) <= n", "self.g_rx == old(self.g_rx) + result"],
           ensures_exc={"OSError": ["self.g_rx == old(self.g_rx)"]},
           ghost_modifies=["self.g_rx"],
           note="T-sock: ghost log g_rx = all bytes this socket has delivered to the program so far (a failing recv delivers none)")
R.contract("PeerConnection.add_in_bytes", trusted=True, params={"self": "PeerConnection", "data": "bytes"},
           ensures=["self.g_in == old(self.g_in) + data"], ghost_modifies=["self.g_in"],
           note="hands the bytes to the connection's read queue (queue.Queue.put on an unbounded queue: does not raise); "
                "ghost log g_in = all bytes handed to this connection's reader so far, in order")
_rslice = R.contract("Node._handle_connections@for:rsock", params={"self": "Node", "rsock": "Socket"},
                     requires=[("generators-in-range", "seq_ok(self.end_to_end_seq)"),
                               ("identity-encodable", "encodable(self.origin_host) and encodable(self.realm_name)")],
                     ghost={"oc": "PeerConnection"},
                     ensures=[("every-byte-received-on-a-connections-socket-is-handed-to-that-connection-in-order",
                               "implies(old(rsock.fd in self.socket_peers and not (rsock in self.tcp_sockets) and "
                               "not (rsock in self.sctp_sockets)), "
                               "old(self.socket_peers[rsock.fd]).g_in == old(self.socket_peers[rsock.fd].g_in) + "
                               "rsock.g_rx[old(len(rsock.g_rx)):])"),
                              ("no-other-connection-is-handed-any-bytes",
                               "implies(not old(rsock.fd in self.socket_peers and self.socket_peers[rsock.fd] == oc), "
                               "oc.g_in == old(oc.g_in))"),
                              ("nothing-is-read-from-a-socket-without-a-connection",
                               "implies(not old(rsock.fd in self.socket_peers) and not old(rsock in self.tcp_sockets) and "
                               "not old(rsock in self.sctp_sockets), rsock.g_rx == old(rsock.g_rx))")],
                     raises=[Raise("RuntimeError", "True", "may")],
                     modifies=["*PeerConnection.state", "*StoppableThread.stopped", "*Socket.closed", "*Peer.connection",
                               "*Peer.last_connect", "*Peer.last_disconnect", "*Peer.disconnect_reason",
                               "dict:self.connections", "dict:self.peer_sockets", "dict:self.socket_peers",
                               "dict:self._half_ready_connections", "dict:self._peer_waiting_answer", "*Event.flag",
                               "*list:Peer"],
                     ghost_modifies=["*PeerConnection.g_close_calls", "*PeerConnection.g_close_reason", "*PeerConnection.g_attn",
                                     "*PeerConnection.g_in", "*Socket.g_rx", "self.g_pipe_rx"],
                     props=["C14", "C05", "C07", "C15"],
                     note="one iteration of `for rsock in ready_r` for a socket object (listening or connection socket); the "
                          "the interrupt-pipe case is covered only as far as the model lets a socket object equal the pipe's descriptor; "
                          "RuntimeError can only come from _generate_connection_id giving up after 11 colliding random ids")
from . import helpers  # noqa  (bytes_hex)
from pyvc import models as _m2
from pyvc.values import VBytes as _VBytes


R.model("Node", fields={"g_pipe_rx": "bytes"})


def _os_read(ex, st, args, kwargs, k, where):
    """T-os (ASSUMED): os.read(fd, n) on the node's own interrupt pipe, after select() reported it readable, returns at
    least one and at most n bytes and does not fail; ghost log Node.g_pipe_rx = all bytes taken out of the pipe so far
    (what is read is consumed, whether or not the caller looks at it)"""
    from pyvc.smt import Le, Lt, I, seq_len, seq_concat
    from pyvc.values import VRef
    t = ex.arbitrary("(Seq Int)", "os_read")
    s2 = st.assume(Le(seq_len(t), ex.num(ex.unwrap(args[1])))).assume(Lt(I(0), seq_len(t)))
    me = st.locals.get("self")
    if isinstance(me, VRef) and ex.field_decl(me.cls, "g_pipe_rx") is not None:
        s2 = ex.write_field(s2, me, "g_pipe_rx", _VBytes(seq_concat(ex.read_field(s2, me, "g_pipe_rx").t, t)))
    return k(s2, _VBytes(t))


_m2.EXT["os.read"] = _os_read
if "Socket.setblocking" not in R.contracts:
    R.contract("Socket.setblocking", trusted=True, params={"self": "Socket", "flag": "bool"})
if "PeerConnection.__new__" not in R.contracts:
    from .node import CLOSED as _CLOSED
    R.contract("PeerConnection.__new__", trusted=True,
               params={"peer_ip": "Any", "peer_port": "int", "peer_direction": "int", "interrupt_fileno": "int"},
               returns="PeerConnection", allocates=True,
               ensures=["result.state == %d" % _CLOSED, "not result._read_thread.stopped and not result._write_thread.stopped",
                        "result._direction == peer_direction", "result.node_name == '' and result.host_identity == ''",
                        "len(result._write_msg_queue.g_put) == 0 and result.g_close_calls == 0",
                        "fresh(result.hop_by_hop_seq) and fresh(result._write_msg_queue) and fresh(result._read_thread) and "
                        "fresh(result._write_thread)"],
               note="ASSUMED (read from PeerConnection.__init__): a new connection object starts its two workers")

# the interrupt-pipe case of the receive branch: rsock is the int self.interrupt_read
R.contract("Node._handle_connections@for:rsock#interrupt", params={"self": "Node", "rsock": "int"},
           ghost_out={"c": ("conn", "Opt[PeerConnection]"), "cid": ("conn_id", "str")},
           requires=[("is-the-interrupt-pipe", "rsock == self.interrupt_read")],
           ensures=[("one-wake-up-takes-exactly-one-6-byte-connection-id-out-of-the-pipe-and-serves-that-connection",
                     "len(self.g_pipe_rx) <= old(len(self.g_pipe_rx)) + 6 and "
                     "cid == hex_of(self.g_pipe_rx[old(len(self.g_pipe_rx)):])"),
                    ("a-closed-connection-that-asked-for-attention-is-released",
                     "implies(not is_none(c) and old(some(c).state) == %d, in_no_table(self, some(c)) and "
                     "some(c).g_close_calls == old(some(c).g_close_calls) + 1)" % CLOSED)],
           raises=[],
           modifies=["*PeerConnection.state", "*StoppableThread.stopped", "*Socket.closed", "*Peer.connection",
                     "*Peer.last_connect", "*Peer.last_disconnect", "*Peer.disconnect_reason",
                     "dict:self.connections", "dict:self.peer_sockets", "dict:self.socket_peers",
                     "dict:self._half_ready_connections", "dict:self._peer_waiting_answer", "*Event.flag", "*list:Peer"],
           ghost_modifies=["*PeerConnection.g_close_calls", "*PeerConnection.g_close_reason", "*PeerConnection.g_attn",
                           "self.g_pipe_rx"],
           props=["C14", "C13", "C18", "C19"],
           note="one iteration of `for rsock in ready_r` when rsock is the node's interrupt descriptor: the connection named "
                "by the bytes read from the pipe is released if it had closed itself")
