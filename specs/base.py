"""Contracts for diameter/message/_base.py: header codec, message codec, to_answer, AVP search (C02, C04, C20)."""
from pyvc.spec import REG as R, Raise, Clause
from pyvc.smt import INT, BOOL, I, Eq, Or, app
from pyvc.values import VRef, VBool, VInt, VAny, VPy
from pyvc.state import Unsupported
from . import avp, avp_types, avp_grouped  # noqa

R.model("MessageHeader", fields={"version": "int", "length": "int", "length_header": "int",
                                 "command_flags": "int", "command_code": "int", "application_id": "int",
                                 "hop_by_hop_identifier": "int", "end_to_end_identifier": "int"})
R.model("Message", fields={"header": "MessageHeader", "_avps": "List[Avp]",
                           "_Message__find_cache": "Dict[str,List[Avp]]"})

R.macro("bit4", ["x"], "(x // 16) % 2")
R.macro("hdr_ok", ["h"],
        "0 <= h.version < 256 and 0 <= h.length < 2**24 and 0 <= h.command_flags < 256 and "
        "0 <= h.command_code < 2**24 and 0 <= h.application_id < 2**32 and "
        "0 <= h.hop_by_hop_identifier < 2**32 and 0 <= h.end_to_end_identifier < 2**32")
R.macro("hdr_wire", ["ver", "ln", "fl", "cc", "app", "hbh", "e2e"],
        "be32(ver * 2**24 + ln) + be32(fl * 2**24 + cc) + be32(app) + be32(hbh) + be32(e2e)")
R.macro("hdr_wire_of", ["h"],
        "hdr_wire(h.version, h.length, h.command_flags, h.command_code, h.application_id, "
        "h.hop_by_hop_identifier, h.end_to_end_identifier)")

R.inline_fn("MessageHeader.is_request", "MessageHeader.is_proxyable", "MessageHeader.is_error",
            "MessageHeader.is_retransmit")
for nm, bit, mac in (("is_request", 128, "bit7"), ("is_proxyable", 64, "bit6"), ("is_error", 32, "bit5"),
                     ("is_retransmit", 16, "bit4")):
    R.contract(f"MessageHeader.{nm}.fset", params={"self": "MessageHeader", "value": "bool"},
               ensures=[(f"{nm}-bit", f"self.command_flags == old(self.command_flags) - {bit} * {mac}(old(self.command_flags)) "
                                      f"+ ite(value, {bit}, 0)")],
               modifies=["self.command_flags"], props=["C02", "C20"])

R.contract("MessageHeader.__init__",
           params={"self": "MessageHeader", "version": "int", "length": "int", "command_flags": "int",
                   "command_code": "int", "application_id": "int", "hop_by_hop_identifier": "int",
                   "end_to_end_identifier": "int"},
           ensures=[("fields", "self.version == version and self.length == length and self.length_header == 0 and "
                               "self.command_flags == command_flags and self.command_code == command_code and "
                               "self.application_id == application_id and "
                               "self.hop_by_hop_identifier == hop_by_hop_identifier and "
                               "self.end_to_end_identifier == end_to_end_identifier")],
           modifies=["self.version", "self.length", "self.length_header", "self.command_flags", "self.command_code",
                     "self.application_id", "self.hop_by_hop_identifier", "self.end_to_end_identifier"],
           props=["C02", "C20"])
R.contract("MessageHeader.as_packed", params={"self": "MessageHeader", "packer": "Packer"}, returns="Packer",
           requires=[("length-fits", "0 <= self.length < 2**24"), ("code-fits", "0 <= self.command_code < 2**24")],
           ensures=[("wire", "implies(hdr_ok(self), pbuf(packer) == old(pbuf(packer)) + hdr_wire_of(self))"),
                    ("returns-packer", "result == packer")],
           raises=[Raise("ConversionError", "not hdr_ok(self)", "only_if")],
           modifies=["packer._Packer__buf.data"], props=["C02"])
R.contract("MessageHeader.as_bytes", params={"self": "MessageHeader"}, returns="bytes",
           requires=[("length-fits", "0 <= self.length < 2**24"), ("code-fits", "0 <= self.command_code < 2**24")],
           ensures=[("wire", "implies(hdr_ok(self), result == hdr_wire_of(self))"),
                    ("size", "implies(hdr_ok(self), len(result) == 20)")],
           raises=[Raise("ConversionError", "not hdr_ok(self)", "only_if")], props=["C02"])
R.contract("MessageHeader.from_bytes", params={"header_data": "bytes"}, returns="MessageHeader",
           ensures=[("version", "result.version == u32(header_data[0:4]) // 2**24"),
                    ("length", "result.length == u32(header_data[0:4]) % 2**24"),
                    ("flags", "result.command_flags == u32(header_data[4:8]) // 2**24"),
                    ("code", "result.command_code == u32(header_data[4:8]) % 2**24"),
                    ("app", "result.application_id == u32(header_data[8:12])"),
                    ("hbh", "result.hop_by_hop_identifier == u32(header_data[12:16])"),
                    ("e2e", "result.end_to_end_identifier == u32(header_data[16:20])"),
                    ("header-size", "result.length_header == 20"),
                    ("ranges", "hdr_ok(result)")],
           raises=[Raise("ConversionError", "len(header_data) < 20", "iff")],
           allocates=True, props=["C02", "C04", "C05"])
R.lemma_ob("header-roundtrip", vars={"ver": "int", "ln": "int", "fl": "int", "cc": "int", "app": "int",
                                     "hbh": "int", "e2e": "int"},
           assumes=["0 <= ver < 256 and 0 <= ln < 2**24 and 0 <= fl < 256 and 0 <= cc < 2**24 and "
                    "0 <= app < 2**32 and 0 <= hbh < 2**32 and 0 <= e2e < 2**32"],
           shows=[("version", "u32(hdr_wire(ver, ln, fl, cc, app, hbh, e2e)[0:4]) // 2**24 == ver"),
                  ("length", "u32(hdr_wire(ver, ln, fl, cc, app, hbh, e2e)[0:4]) % 2**24 == ln"),
                  ("flags", "u32(hdr_wire(ver, ln, fl, cc, app, hbh, e2e)[4:8]) // 2**24 == fl"),
                  ("code", "u32(hdr_wire(ver, ln, fl, cc, app, hbh, e2e)[4:8]) % 2**24 == cc"),
                  ("app", "u32(hdr_wire(ver, ln, fl, cc, app, hbh, e2e)[8:12]) == app"),
                  ("hbh", "u32(hdr_wire(ver, ln, fl, cc, app, hbh, e2e)[12:16]) == hbh"),
                  ("e2e", "u32(hdr_wire(ver, ln, fl, cc, app, hbh, e2e)[16:20]) == e2e"),
                  ("size", "len(hdr_wire(ver, ln, fl, cc, app, hbh, e2e)) == 20")],
           props=["C02"], note="decode(encode(header)) = header: lemma over the two header contracts")

# ---- Message -----------------------------------------------------------------------------------------
R.kind_hints[("Message.__init__", "{}")] = "Dict[str,List[Avp]]"
R.global_value("all_commands", "Dict[int,Any:msgclass]")
R.exception("NotImplementedError", "RuntimeError")


@R.specfn("class_code")
def _class_code(ex, st, obj):
    """the `code` class attribute of the object's class (ground: equals the registry key)"""
    ex.decls.fun("class_code", [INT], INT)
    return VInt(app("class_code", INT, ex.type_of(st, ex.unwrap(obj).t)))


@R.specfn("class_attr:code")
def _class_attr_code(ex, st, obj):
    """<message>.code: the class attribute `code` of the object's class"""
    ex.decls.fun("class_code", [INT], INT)
    return VInt(app("class_code", INT, ex.type_of(st, obj.t)))


@R.specfn("is_generic_msg")
def _is_generic(ex, st, obj):
    ty = ex.type_of(st, ex.unwrap(obj).t)
    return VBool(Or(Eq(ty, ex.class_id("Message")), Eq(ty, ex.class_id("UndefinedMessage"))))


@R.specfn("call_opaque_msgclass")
def _call_msgclass(ex, st, f, args, kwargs, k, where):
    """Instantiating a registered command class: every Message subclass inherits Message.__init__
    (structural obligation C02.struct.init-not-overridden)."""
    from pyvc.smt import store
    s2, r = ex.alloc_ref(st)
    a = ex.heap_array(s2, "$type", INT, INT)
    s2.heap["$type"] = store(a, r, f.t)
    obj = VRef(r, "Message")
    s2.pc.append(ex.is_instance_term(s2, r, "Message"))
    c = ex.contract_of("Message.__init__")
    fi = ex.prog.func("Message.__init__")
    return ex.apply_contract(s2, c, [obj] + list(args), kwargs, lambda s3, _r: k(s3, obj), where, fi=fi)


@R.specfn("attr_opaque")
def _attr_opaque(ex, st, base, attr, k, where):
    if getattr(base, "tag", None) == "msgclass" and attr == "type_factory":
        return k(st, VPy("opaque_method", attr, base))
    if attr == "__name__":
        from pyvc.smt import STR
        from pyvc.values import VStr
        ex.decls.fun("class_name", [INT], STR)
        return k(st, VStr(app("class_name", STR, base.t)))
    if getattr(base, "tag", None) == "msgclass" and attr == "code":
        ex.decls.fun("class_code", [INT], INT)
        return k(st, VInt(app("class_code", INT, base.t)))
    raise Unsupported(f"attribute {attr} of an opaque value at {where}")


@R.specfn("call_opaque_method")
def _call_opaque_method(ex, st, f, args, kwargs, k, where):
    """cmd_type.type_factory(header): returns None or a command class (ground obligations C02.tf[*]
    pin down which: the Request class iff the R bit is set)."""
    from pyvc.values import VOpt
    tok = f.extra
    hdr = args[0]
    flags = ex.read_field(st, hdr, "command_flags")
    ex.decls.fun("tf_none", [INT, INT], BOOL)
    ex.decls.fun("tf_class", [INT, INT], INT)
    rbit = ex.spec_eval(__import__("pyvc.speceval", fromlist=["SpecEnv"]).SpecEnv(st, {"f": flags}), "bit7(f)").t
    res = VOpt(app("tf_none", BOOL, tok.t, rbit), VAny(app("tf_class", INT, tok.t, rbit), "msgclass"))
    return k(st, res)


R.contract("Message.__post_init__", params={"self": "Message"},
           ensures=[("generic-keeps-header",
                     "implies(is_generic_msg(self), self.header.command_flags == old(self.header.command_flags) and "
                     "self.header.command_code == old(self.header.command_code) and self._avps == old(self._avps) and "
                     "items(self._avps) == old(items(self._avps)))"),
                    ("typed-sets-code", "implies(not is_generic_msg(self), self.header.command_code == class_code(self))")],
           raises=[Raise("AvpDecodeError", "len(self._avps) > 0", "only_if")],
           modifies=["self.header.command_code", "self.header.command_flags", "self._avps", "dyn:self",
                     "list:self._avps"],
           assume_pre=[("body-runs-for", "type_is(self, Message)")],
           props=["C02"],
           note="behavioural contract for the polymorphic hook; the overrides of the typed command classes are "
                "verified against it as a generated family (C03) - until then an assumed contract for typed classes")
R.contract("Message.__init__", params={"self": "Message", "header": "Opt[MessageHeader]", "avps": "Opt[List[Avp]]"},
           ensures=[("header-object", "implies(not is_none(header), self.header == some(header))"),
                    ("header-default", "implies(is_none(header), fresh(self.header))"),
                    ("generic-keeps-header",
                     "implies(is_generic_msg(self) and not is_none(header), "
                     "self.header.command_flags == old(some(header).command_flags) and "
                     "self.header.command_code == old(some(header).command_code))"),
                    ("generic-keeps-avps",
                     "implies(is_generic_msg(self) and not is_none(avps) and old(len(some(avps))) > 0, self._avps == some(avps) "
                     "and items(self._avps) == old(items(some(avps))))"),
                    ("generic-without-avps-is-empty",
                     "implies(is_generic_msg(self) and (is_none(avps) or old(len(some(avps))) == 0), len(self._avps) == 0)"),
                    ("typed-sets-code", "implies(not is_generic_msg(self), self.header.command_code == class_code(self))")],
           raises=[Raise("AvpDecodeError", "not is_none(avps) and len(some(avps)) > 0", "only_if")],
           modifies=["self.header", "self._avps", "self._Message__find_cache", "header.command_code",
                     "header.command_flags", "dyn:self", "list:avps"],
           props=["C02"])

R.inline_fn("Message.avps")
R.contract("Message.as_bytes#plain", params={"self": "Message!"}, returns="bytes",
           requires=[("children-encodable", "all_encodable(self._avps)"),
                     ("fits", "20 + len(wires(self._avps)) < 2**24"),
                     ("header-fields", "0 <= self.header.version < 256 and 0 <= self.header.command_flags < 256 and "
                                       "0 <= self.header.command_code < 2**24 and 0 <= self.header.application_id < 2**32 "
                                       "and 0 <= self.header.hop_by_hop_identifier < 2**32 and "
                                       "0 <= self.header.end_to_end_identifier < 2**32")],
           ensures=[("wire", "result == hdr_wire(self.header.version, 20 + len(wires(self._avps)), "
                             "self.header.command_flags, self.header.command_code, self.header.application_id, "
                             "self.header.hop_by_hop_identifier, self.header.end_to_end_identifier) + wires(self._avps)"),
                    ("length-field", "self.header.length == len(result)")],
           modifies=["self.header.length"], props=["C02"])
R.loop("Message.as_bytes", 0,
       invariants=[("buf", "pbuf(avp_packer) == wires(done)"),
                   ("list-fixed", "seq == old(items(self._avps))"),
                   ("enc", "all_encodable(seq)")],
       hints=["wires_snoc(done, cur)", "all_encodable_at(seq, len(done))"],
       modifies=["avp_packer._Packer__buf.data"])

R.kind_hints[("Message.from_bytes", "[]")] = "List[Avp]"


@R.specfn("avp_off")
def _avp_off(ex, st, b, n):
    """offset of the n-th top-level AVP of a message buffer: avp_off(b, 0) = 20, avp_off(b, n+1) = d_end(b, avp_off(b, n))
    (a total recursive definition over the RFC 6733 layout function d_end; its two equations are instantiated as hints)"""
    from pyvc.models import _ufun
    return VInt(_ufun(ex, "avp_off", ["(Seq Int)", INT], INT, ex.unwrap(b).t, ex.num(n)))


@R.specfn("wf_upto")
def _wf_upto(ex, st, b, n):
    """the first n top-level AVPs of message buffer b are well-formed (wf_avp_at at their offsets): wf_upto(b, 0) = True,
    wf_upto(b, n+1) = wf_upto(b, n) and wf_avp_at(b, avp_off(b, n)); the two equations are instantiated as hints"""
    from pyvc.models import _ufun
    return VBool(_ufun(ex, "wf_upto", ["(Seq Int)", INT], "Bool", ex.unwrap(b).t, ex.num(n)))


R.contract("Message.from_bytes", params={"msg_data": "bytes", "plain_msg": "bool"}, returns="Message",
           ghost={"j": "int"},
           ensures=[("each-well-formed-avp-re-encodes-to-its-own-bytes",
                     "implies(is_generic_msg(result) and 0 <= j < len(result._avps) and wf_at(msg_data, avp_off(msg_data, j)), "
                     "avp_bytes_at(result._avps[j], msg_data, avp_off(msg_data, j), avp_off(msg_data, j + 1)))"),
                    ("avp-sequence-identical-to-the-wire",
                     "implies(is_generic_msg(result) and 0 <= j < len(result._avps), "
                     "avp_at(result._avps[j], msg_data, avp_off(msg_data, j)))"),
                    ("every-byte-belongs-to-a-decoded-avp",
                     "implies(is_generic_msg(result), avp_off(msg_data, len(result._avps)) == len(msg_data))"),
                    ("version", "result.header.version == u32(msg_data[0:4]) // 2**24"),
                    ("length", "result.header.length == u32(msg_data[0:4]) % 2**24"),
                    ("flags", "result.header.command_flags == u32(msg_data[4:8]) // 2**24"),
                    ("code", "ite(is_generic_msg(result), result.header.command_code == u32(msg_data[4:8]) % 2**24, "
                             "result.header.command_code == class_code(result))"),
                    ("app", "result.header.application_id == u32(msg_data[8:12])"),
                    ("hbh", "result.header.hop_by_hop_identifier == u32(msg_data[12:16])"),
                    ("e2e", "result.header.end_to_end_identifier == u32(msg_data[16:20])"),
                    ("header-present", "len(msg_data) >= 20")],
           raises=[Raise("ConversionError", "True", "may"), Raise("AvpDecodeError", "True", "may")],
           modifies=["*Avp._avps"],
           allocates=True, props=["C02", "C04"])
R.loop("Message.from_bytes", 0,
       invariants=[("pos-in-buffer", "0 <= upos(unpacker) and upos(unpacker) <= len(ubuf(unpacker))"),
                   ("buffer-fixed", "ubuf(unpacker) == msg_data"),
                   ("position-is-the-next-avp-offset", "upos(unpacker) == avp_off(msg_data, len(avps))"),
                   ("decoded-so-far-identical-to-the-wire",
                    "implies(0 <= j < len(avps), avp_at(avps[j], msg_data, avp_off(msg_data, j)))"),
                   ("decoded-so-far-re-encodes-member-by-member",
                    "implies(0 <= j < len(avps) and wf_at(msg_data, avp_off(msg_data, j)), "
                    "avp_bytes_at(avps[j], msg_data, avp_off(msg_data, j), avp_off(msg_data, j + 1)))")],
                   # appended below: the re-encoding invariant
       hints=["avp_off(msg_data, 0) == 20",
              "avp_off(msg_data, len(avps) + 1) == d_end(msg_data, avp_off(msg_data, len(avps)))",
              ],
       decreases="len(ubuf(unpacker)) - upos(unpacker)",
       modifies=["unpacker._Unpacker__pos", "list:avps"])

R.region("Message.to_answer", "If", 0, assigns={"return_type": "Any:msgclass"},
         note="class lookup through __mro__/__subclasses__: decided by the ground obligations C20.pair[*]")
R.contract("Message.to_answer", params={"self": "Message"}, returns="Message",
           requires=[("flags-octet", "0 <= self.header.command_flags < 256")],
           ensures=[("version", "result.header.version == self.header.version"),
                    ("code", "ite(is_generic_msg(result), result.header.command_code == self.header.command_code, "
                             "result.header.command_code == class_code(result))"),
                    ("app", "result.header.application_id == self.header.application_id"),
                    ("hbh", "result.header.hop_by_hop_identifier == self.header.hop_by_hop_identifier"),
                    ("e2e", "result.header.end_to_end_identifier == self.header.end_to_end_identifier"),
                    ("flags", "result.header.command_flags == 64 * bit6(self.header.command_flags)"),
                    ("new-objects", "fresh(result) and fresh(result.header)")],
           raises=[Raise("AvpDecodeError", "False", "only_if")],
           allocates=True, props=["C20", "C07"],
           note="frame: modifies nothing, so the request (header, AVPs, attributes) is unchanged")

R.contract("MessageHeader._flags", params={"self": "MessageHeader"}, returns="List[str]", props=["C04"],
           note="raises nothing")
R.contract("MessageHeader.__str__", params={"self": "MessageHeader"}, returns="str", props=["C04"],
           note="rendering a header never raises")

# ---- AVP search -----------------------------------------------------------------------------------------
from pyvc.smt import arr as _arr, SEQI as _SEQI, seq_concat as _cat, seq_unit as _unit, seq_len as _len, \
    seq_empty as _empty, Implies as _Imp, And as _And, Ite as _Ite
from pyvc.values import VSeq, K_INT
from pyvc.values import parse_kind as _pk


def _filt_decl(ex):
    ex.decls.fun("avp_filter", [_arr(INT, INT), _arr(INT, INT), _SEQI, INT, INT], _SEQI)


def _filt_arrays(ex, st):
    return ex.heap_array(st, "Avp.code", INT, INT), ex.heap_array(st, "Avp._vendor_id", INT, INT)


@R.specfn("avp_filter")
def _avp_filter(ex, st, seq, c, v):
    """subsequence (in order) of the AVPs whose code and vendor id equal (c, v); defined by snoc recursion"""
    _filt_decl(ex)
    t, _ = ex.as_seq(st, ex.unwrap(seq))
    w = app("avp_filter", _SEQI, *_filt_arrays(ex, st), t, ex.num(c), ex.num(v))
    st.pc.append(_Imp(Eq(_len(t), I(0)), Eq(w, _empty())))
    return VSeq(w, _pk("Avp"))


@R.specfn("avp_filter_snoc")
def _avp_filter_snoc(ex, st, done, x, c, v):
    from pyvc.smt import select
    _filt_decl(ex)
    d, _ = ex.as_seq(st, ex.unwrap(done))
    x = ex.unwrap(x)
    ca, va = _filt_arrays(ex, st)
    c, v = ex.num(c), ex.num(v)
    match = _And(Eq(select(ca, x.t), c), Eq(select(va, x.t), v))
    lhs = app("avp_filter", _SEQI, ca, va, _cat(d, _unit(x.t)), c, v)
    base_ = app("avp_filter", _SEQI, ca, va, d, c, v)
    return VBool(Eq(lhs, _Ite(match, _cat(base_, _unit(x.t)), base_)))


@R.specfn("pair_fst")
def _pair_fst(ex, st, p):
    from pyvc.models import _ufun
    return VInt(_ufun(ex, "pair_fst", [INT], INT, ex.unwrap(p).t))


@R.specfn("pair_snd")
def _pair_snd(ex, st, p):
    from pyvc.models import _ufun
    return VInt(_ufun(ex, "pair_snd", [INT], INT, ex.unwrap(p).t))


R.contract("_traverse_avp_tree", params={"avps": "List[Avp]", "code_and_vendor_path": "List[Any:pair]"},
           returns="List[Avp]",
           requires=[("non-empty-path", "len(code_and_vendor_path) >= 1")],
           ensures=[("fresh-list", "fresh(result)"),
                    ("single-element-path", "implies(len(code_and_vendor_path) == 1, "
                     "items(result) == avp_filter(old(items(avps)), pair_fst(code_and_vendor_path[0]), "
                     "pair_snd(code_and_vendor_path[0])))")],
           raises=[Raise("AvpDecodeError", "len(code_and_vendor_path) > 1", "only_if")],
           modifies=["*Avp._avps"], props=["C02"],
           note="exact for single-element paths (matching AVPs, in list order); for longer paths only freshness, "
                "termination of the loop and the raises clause are proved (the recursive at_path equation is not)")
R.loop("_traverse_avp_tree", 0,
       invariants=[("filter", "implies(len(code_and_vendor_path) == 1, items(found) == avp_filter(done, code, vendor))"),
                   ("found-fresh", "fresh(found)"),
                   ("input-fixed", "seq == old(items(avps)) and items(code_and_vendor_path) == old(items(code_and_vendor_path))"),
                   ("same-keys", "code == pair_fst(code_and_vendor_path[0]) and vendor == pair_snd(code_and_vendor_path[0])")],
       hints=["avp_filter_snoc(done, cur, code, vendor)"],
       modifies=["list:found", "*Avp._avps"])

# ---- Message.find_avps: the search cache ------------------------------------------------------------------------
import ast as _ast
from pyvc.models import joined_fn_name as _jfn, _ufun as _uf2
from pyvc.values import VStr as _VStr
from pyvc.smt import STR
_KEY_FN = _jfn("/", _ast.parse('(f"{c}_{v}" for c, v in xs)').body[0].value)


@R.specfn("path_key")
def _path_key(ex, st, path):
    """the cache key of a search path: "/".join(f"{c}_{v}" for c, v in path) - the same uninterpreted function the
    executor uses for exactly this expression text (a different element expression gives a different function)"""
    t, ek = ex.as_seq(st, ex.unwrap(path))
    return _VStr(_uf2(ex, _KEY_FN, ["(Seq Int)"], STR, t))


@R.specfn("path_key_injective")
def _path_key_inj(ex, st, a, b):
    """T-fmt: decimal renderings joined by '_' and '/' determine the path (assumed, not proved)"""
    ta, _ = ex.as_seq(st, ex.unwrap(a))
    tb, _ = ex.as_seq(st, ex.unwrap(b))
    ka = _uf2(ex, _KEY_FN, ["(Seq Int)"], STR, ta)
    kb = _uf2(ex, _KEY_FN, ["(Seq Int)"], STR, tb)
    return VBool(_Imp(Eq(ka, kb), Eq(ta, tb)))


R.macro("cache_ok", ["m", "g"],
        "implies(path_key(g) in m._Message__find_cache and len(g) == 1, "
        "items(m._Message__find_cache[path_key(g)]) == avp_filter(items(m._avps), pair_fst(g[0]), pair_snd(g[0])))")
R.contract("Message.find_avps", params={"self": "Message!", "code_and_vendor": "Seq[Any:pair]", "alt_list": "Opt[List[Avp]]"},
           returns="List[Avp]", ghost={"g": "Seq[Any:pair]"},
           requires=[("message-searched-itself", "is_none(alt_list)"),
                     ("cache-holds-results-of-this-avp-list", "cache_ok(self, g) and cache_ok(self, code_and_vendor)")],
           hints=["path_key_injective(g, code_and_vendor)"],
           ensures=[("single-element-path-returns-exactly-the-matching-avps-in-order",
                     "implies(len(code_and_vendor) == 1, items(result) == "
                     "avp_filter(items(self._avps), pair_fst(code_and_vendor[0]), pair_snd(code_and_vendor[0])))"),
                    ("cache-stays-consistent", "cache_ok(self, g)"),
                    ("avp-list-untouched", "items(self._avps) == old(items(self._avps))")],
           raises=[Raise("AvpDecodeError", "len(code_and_vendor) > 1", "only_if")],
           modifies=["dict:self._Message__find_cache", "*Avp._avps"], props=["C02"],
           note="for the generic Message class (avps is the stored list); alt_list searches share the cache keys of the "
                "message's own searches (see DESIGN section 7: outside the property's quantifier) and are excluded")
R.assume("T-fmt: the find_avps cache key is an injective function of the (code, vendor) path (decimal renderings joined by '_' and '/')")

# ---- composition: the decoded AVP list of a well-formed message re-encodes to the body bytes ------------------------
R.lemma_ob("decoded-list-re-encodes-step", vars={"s": "Seq[Avp]", "x": "Avp", "b": "bytes", "p": "int", "q": "int"},
           assumes=[("induction-hypothesis", "wires(s) == b[20:p]"),
                    ("next-member-re-encodes-to-its-bytes", "avp_bytes_at(x, b, p, q)"),
                    ("offsets-ordered", "20 <= p and p <= q and q <= len(b)")],
           hints=["wires_snoc(s, x)", "avp_bytes_at_def(x, b, p, q)"],
           shows=[("prefix-extended", "wires(s + [x]) == b[20:q]")],
           props=["C02"],
           note="induction step over the decoded list: with Message.from_bytes' member-wise clause (p = avp_off(b, n), "
                "q = avp_off(b, n+1)) and the base case wires([]) = b[20:20] this gives wires(avps) = b[20:] for a message "
                "whose AVPs are all well-formed; the induction itself (over n) is the explicit schema, not mechanised")
R.lemma_ob("message-re-encodes", vars={"b": "bytes", "w": "bytes"},
           assumes=[("body", "w == b[20:]"), ("header-present", "len(b) >= 20 and len(b) < 2**24"),
                    ("length-field-is-the-total-length", "u32(b[0:4]) % 2**24 == len(b)")],
           shows=[("bytes-reproduced",
                   "hdr_wire(u32(b[0:4]) // 2**24, 20 + len(w), u32(b[4:8]) // 2**24, u32(b[4:8]) % 2**24, "
                   "u32(b[8:12]), u32(b[12:16]), u32(b[16:20])) + w == b")],
           props=["C02"],
           note="frame level: Message.as_bytes (= hdr_wire(fields, 20 + |body|) ++ wires(avps)) applied to the header fields "
                "that Message.from_bytes decodes and to a body that re-encodes to b[20:] gives b again, provided the length "
                "field of b is its total length")


# ---- run-time registration of a command class ------------------------------------------------------------------------
@R.specfn("code_of_class")
def _code_of_class(ex, st, tok):
    ex.decls.fun("class_code", [INT], INT)
    return VInt(app("class_code", INT, ex.unwrap(tok).t))


R.contract("diameter.message.commands.register", params={"cmd_class": "Any:msgclass"}, ghost={"c2": "int"},
           ensures=[("the-registered-class-is-used-for-its-code",
                     "code_of_class(cmd_class) in all_commands and all_commands[code_of_class(cmd_class)] == cmd_class"),
                    ("other-codes-untouched",
                     "implies(c2 != code_of_class(cmd_class), (c2 in all_commands) == old(c2 in all_commands) and "
                     "implies(c2 in all_commands, all_commands[c2] == old(all_commands[c2])))")],
           raises=[Raise("RuntimeError", "True", "may")],
           ensures_exc={"RuntimeError": [("a-refused-class-changes-nothing", "unchanged(all_commands)")]},
           modifies=["dict:all_commands"], props=["C02"],
           note="with Message.from_bytes' dispatch (verified for an arbitrary table) a class registered at run time - also "
                "for a code that already had a class - is the one instantiated afterwards")


# multi-element search paths: the recursion descends into a matching grouped AVP's members with exactly the REST of the path
# (a call-site obligation on the recursive call; with the single-element exactness above, at_path follows by induction on
# the path length - the induction is not mechanised)
import copy as _copy2
_tr = _copy2.copy(R.contracts["_traverse_avp_tree"])
_tr.requires = list(_tr.requires) + [Clause("descends-with-the-rest-of-the-path",
                                            "items(code_and_vendor_path) == items(parent)[1:]")]
_tr.ghost = _copy2.copy(_tr.ghost)
_tr.ghost["parent"] = _pk("List[Any:pair]")
R.contracts["_traverse_avp_tree"].call_overrides = {"_traverse_avp_tree": _tr}
R.contracts["_traverse_avp_tree"].ghost_bind = {"_traverse_avp_tree": {"parent": "code_and_vendor_path"}}
