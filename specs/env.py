"""Trusted models of environment classes (stdlib objects the package holds references to)."""
from pyvc.spec import REG as R

R.model("BytesIO", builtin=True, fields={"data": "bytes"})
R.contract("BytesIO.__new__", trusted=True, params={}, returns="BytesIO", allocates=True,
           ensures=["result.data == b''"])
R.contract("BytesIO.write", trusted=True, params={"self": "BytesIO", "b": "bytes"},
           ensures=["self.data == old(self.data) + b"], modifies=["self.data"])
R.contract("BytesIO.getvalue", trusted=True, params={"self": "BytesIO"}, returns="bytes",
           ensures=["result == self.data"])
R.assume("T-bytesio: io.BytesIO used write-only at the end position: write appends, getvalue returns all")
